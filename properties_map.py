"""Per-property metadata used by driver.py for evidence (levels mirror MANIFEST.json)."""
A_NOOPT = "A-NOOPT: CPython runs without -O, so `assert` raises AssertionError"
A_CPY = "A-CPY: CPython 3.12 semantics for the statement/expression subset of DESIGN.md section 2 (the engine's own semantics)"
A_WHEEL = "the mypyc-compiled pyjelly wheel in /venv site-packages is out of scope; only the working-tree source is verified"
A_INT = "integers are mathematical (exact for Python ints); protobuf uint32 range is a precondition/obligation, never a wrap"
COMMON = [A_CPY, A_WHEEL, A_INT]

A_PROTO = "A-PROTO: protobuf (upb) message objects behave as modelled in pyvc/proto_model.py (constructor kwargs = field sets, proto3 defaults, uint32 range -> ValueError, oneof exclusivity, presence propagation to the parent, messages truthy, strings UTF-8 encodable); wire layout facts: varint(len) framing of write_delimited, field 1/wire type 2 tag 0x0A for RdfStreamFrame.rows and RdfStreamRow.options"

A_OD = "A-OD: collections.OrderedDict as (membership, value, length, recency rank) with the cardinality fact used for LRU stability"
A_STR = "A-STR: str.rpartition(sep) splits at the last occurrence (head ++ sep ++ tail == s, tail free of sep)"
A_SUB = "A-SUBCLASS: only the term / encoder / adapter classes defined in /repo/pyjelly; objects of foreign classes are the opaque `Other` term"
QUOTED = "nested denotation of quoted triples is not carried by the contracts (completeness, entry-row accounting and LRU accounting are); it is covered by the bounded net only"
ENCODER = COMMON + [A_OD, A_STR, A_SUB, QUOTED]

BOUNDED_MAIN = "this property is currently decided mainly by the bounded net (labelled bounded, not proof); the contract layer covers only the functions listed under functions_under_contract"

PROPS = {
    "C02": {"level": "other", "assumptions": COMMON + [BOUNDED_MAIN, "A-RDFLIB: rdflib 7.6.0 term constructors/normalisation, stores and plugin loading are outside the contracts"],
            "explanation": "bounded: rdflib Graph/Dataset round trips through the plugin for random small graphs x presets x frame sizes x framing x stream classes, compared as sets with rdflib's own normalisation as expectation; proof: the shared encoder contracts (lookup, term level) that the rdflib encoder reuses"},
    "C04": {"level": "other", "assumptions": COMMON + [BOUNDED_MAIN],
            "explanation": "proof: reader lookup tables refine the spec tables for every id (LookupDecoder contracts, both directions), options_from_frame; bounded: reference-encoder streams with arbitrary legal producer choices through the parse entry points"},
    "C06": {"level": "other", "assumptions": COMMON + [BOUNDED_MAIN],
            "explanation": "proof: type-pair validation contracts; bounded: the whole configuration lattice (3 stream classes x 8 logical types x framing x flows x entry points) through real bytes, incl. rdflib plugin and malformed items"},
    "C07": {"level": "other", "assumptions": COMMON + [BOUNDED_MAIN],
            "explanation": "bounded: re-partitioning of real streams at sampled cut vectors with empty frames and metadata; grouped serialisation frame counts"},
    "C09": {"level": "other", "assumptions": COMMON + [BOUNDED_MAIN, "A-IO: io.BufferedReader.peek may return fewer bytes than asked (documented)"],
            "explanation": "bounded: every source kind and 11 short-read schedules; options-row length sweep; known finding D5 (short first read)"},
    "C10": {"level": "other", "assumptions": COMMON + [BOUNDED_MAIN],
            "explanation": "bounded: every cut offset of small delimited streams, both integrations"},
    "C11": {"level": "other", "assumptions": COMMON + [BOUNDED_MAIN],
            "explanation": "bounded: pull-counting input generators (pending rows at every pull, frames handed over before more input) and stalling byte sources after every frame boundary (all physical types)"},
    "C12": {"level": "other", "assumptions": COMMON + [BOUNDED_MAIN, "threads: CPython memory safety, no hidden shared state inside protobuf/rdflib"],
            "explanation": "bounded: alone vs interleaved (fresh/shared options) vs alternately advanced parsers vs threads vs hash seeds"},
    "C14": {"level": "other", "assumptions": COMMON + [BOUNDED_MAIN, "rdflib NamespaceManager behaviour (stock bindings, renaming on clashes) is outside the contracts"],
            "explanation": "proof: encode_iri contract (declared IRIs go through the same refinement as statement IRIs); bounded: bindings incl. empty prefix / separator-free / non-ASCII with evicting tables, both integrations, on/off comparison, re-serialisation"},
    "C15": {"level": "other", "assumptions": COMMON + [BOUNDED_MAIN],
            "explanation": "bounded: the six parse entry points on the same bytes; both flat serialisers byte for byte on corresponding inputs"},
    "C16": {"level": "other", "assumptions": COMMON + [BOUNDED_MAIN],
            "explanation": "proof: LookupDecoder contracts are exact (raise iff the spec step is invalid), options_from_frame raises iff pair invalid / name table < 8, table cap; bounded: one violation of every catalogued class at every applicable row, both integrations"},
    "C17": {"level": "other", "assumptions": COMMON + [BOUNDED_MAIN, "the upb C parser and CPython itself are outside the contracts"],
            "explanation": "proof: LookupDecoder.__init__ raises before allocating unless 0 <= size <= 4096; bounded: hostile byte strings in a watch-dogged child process"},
    "C03": {"level": "proof", "assumptions": ENCODER + ["stream/flow/generator layer (options row first, frame flushing, graph bracketing) is covered by the bounded net, not yet by contracts"],
            "explanation": "encoder refines the Jelly spec tables: every entry row is exactly a spec_assign that accounts for the table change, every id written resolves by the spec's delta rules to the intended string in the final tables of the statement (under C01's premise), entry rows precede the statement row, quoted triples are complete"},
    "C19": {"level": "proof", "assumptions": ENCODER,
            "explanation": "strongest-postcondition clauses: entry row iff miss, zero id iff the delta rule allows it, slot elided iff equal to the previous term; split at the last separator"},
    "C01": {"level": "proof", "assumptions": ENCODER + ["decoder side and stream/flow layer: bounded net only in this check so far"],
            "explanation": "statement-level lemma on the real encode_spo/encode_triple/encode_quad: under the premise that every enabled table has room for the statement, decoding the statement row by the spec rules in the final tables gives the input terms (LRU stability via ghost counters)"},
    "C18": {"level": "proof", "assumptions": ENCODER,
            "explanation": "the same statement-level obligations without the premise; on the complement they are known to fail today (known finding D7), anything else is reported"},
    "C20": {"level": "proof", "assumptions": ENCODER,
            "explanation": "exceptional postconditions: exact raise conditions per term kind, tables stay well-formed on raise; 'no trace on raise' is the known finding D6"},
    "C08": {"level": "proof", "assumptions": COMMON + [A_PROTO],
            "explanation": "the real body of delimited_jelly_hint is executed symbolically under the premise 'the three bytes start a stream laid out as delimited(varint(L) ++ frame) or as a single frame whose first row is the options row', for all L and row lengths; the obligation is hint == framing"},
    "C13": {"level": "proof", "assumptions": COMMON + [A_PROTO, A_NOOPT],
            "explanation": "per-function contracts on options.py, encode_options, options_from_frame (field-by-field identity, exact raise conditions from the spec's compatibility table) and the header_roundtrip lemma composing them"},
    "C05": {"level": "proof", "assumptions": COMMON + [A_NOOPT],
            "explanation": "inductive invariant over lookup histories: constructors establish, every writer/reader operation preserves the coupling with the Jelly spec table; mirror lemmas compose writer and reader contracts"},
}
