"""Per-property metadata used by driver.py for evidence (levels mirror MANIFEST.json)."""
A_NOOPT = "A-NOOPT: CPython runs without -O, so `assert` raises AssertionError"
A_CPY = "A-CPY: CPython 3.12 semantics for the statement/expression subset of DESIGN.md section 2 (the engine's own semantics)"
A_WHEEL = "the mypyc-compiled pyjelly wheel in /venv site-packages is out of scope; only the working-tree source is verified"
A_INT = "integers are mathematical (exact for Python ints); protobuf uint32 range is a precondition/obligation, never a wrap"
COMMON = [A_CPY, A_WHEEL, A_INT]

A_PROTO = "A-PROTO: protobuf (upb) message objects behave as modelled in pyvc/proto_model.py (constructor kwargs = field sets, proto3 defaults, uint32 range -> ValueError, oneof exclusivity, presence propagation to the parent, messages truthy, strings UTF-8 encodable); wire layout facts: varint(len) framing of write_delimited, field 1/wire type 2 tag 0x0A for RdfStreamFrame.rows and RdfStreamRow.options"

PROPS = {
    "C08": {"level": "proof", "assumptions": COMMON + [A_PROTO],
            "explanation": "the real body of delimited_jelly_hint is executed symbolically under the premise 'the three bytes start a stream laid out as delimited(varint(L) ++ frame) or as a single frame whose first row is the options row', for all L and row lengths; the obligation is hint == framing"},
    "C13": {"level": "proof", "assumptions": COMMON + [A_PROTO, A_NOOPT],
            "explanation": "per-function contracts on options.py, encode_options, options_from_frame (field-by-field identity, exact raise conditions from the spec's compatibility table) and the header_roundtrip lemma composing them"},
    "C05": {"level": "proof", "assumptions": COMMON + [A_NOOPT],
            "explanation": "inductive invariant over lookup histories: constructors establish, every writer/reader operation preserves the coupling with the Jelly spec table; mirror lemmas compose writer and reader contracts"},
}
