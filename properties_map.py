"""Per-property metadata used by driver.py for evidence (levels mirror MANIFEST.json)."""
A_NOOPT = "A-NOOPT: CPython runs without -O, so `assert` raises AssertionError"
A_CPY = "A-CPY: CPython 3.12 semantics for the statement/expression subset of DESIGN.md section 2 (the engine's own semantics)"
A_WHEEL = "the mypyc-compiled pyjelly wheel in /venv site-packages is out of scope; only the working-tree source is verified"
A_INT = "integers are mathematical (exact for Python ints); protobuf uint32 range is a precondition/obligation, never a wrap"
COMMON = [A_CPY, A_WHEEL, A_INT]

A_PROTO = "A-PROTO: protobuf (upb) message objects behave as modelled in pyvc/proto_model.py (constructor kwargs = field sets, proto3 defaults, uint32 range -> ValueError, oneof exclusivity, presence propagation to the parent, messages truthy, strings UTF-8 encodable); wire layout facts: varint(len) framing of write_delimited, field 1/wire type 2 tag 0x0A for RdfStreamFrame.rows and RdfStreamRow.options"

A_OD = "A-OD: collections.OrderedDict as (membership, value, length, recency rank) with the cardinality fact used for LRU stability"
A_STR = "A-STR: str.rpartition(sep) splits at the last occurrence (head ++ sep ++ tail == s, tail free of sep)"
A_DQ = "A-DEQUE: collections.deque(iterable, maxlen) of fixed length with indexing"
A_UL = "A-USERLIST: collections.UserList as an object with a data list"
A_CTX = "A-CTXVAR: ContextVar.set makes its argument the current value"
A_SUB = "A-SUBCLASS: only the term / encoder / adapter classes defined in /repo/pyjelly; objects of foreign classes are the opaque `Other` term"
A_ABS = "A-ABSITER / A-GENDRAIN: input iterables of unknown length deliver items of the declared sort and are not mutated while consumed; a generator consumed through its contract takes effect at the point of consumption"
A_RDFLIB = "A-RDFLIB: rdflib term classes are read through the generic term datatype (URIRef/BNode identified with their string values, Literal = (str(term), language, datatype)); rdflib's type-strict __eq__, stores, NamespaceManager and plugin loading are outside the contracts"
A_IO = "A-IO: binary sources (read/seek exact on seekable sources, BufferedReader.peek may return fewer bytes than asked), the upb wire parser (arbitrary frames, enum fields within range: A-IO-ENUM) and file writers are trusted models / outside the contracts"
A_TQ = "Q-NESTED: quoted triples are under contract for structure and safety only (reader: some quoted-triple term or refusal, tables stay spec tables; writer: completeness and accounting); the nested denotation is bounded"
QUOTED = "nested denotation of quoted triples is not carried by the contracts (completeness, entry-row accounting and LRU accounting are); it is covered by the bounded net only"
ENCODER = COMMON + [A_OD, A_STR, A_SUB, QUOTED]

BOUNDED_MAIN = "this property is currently decided mainly by the bounded net (labelled bounded, not proof); the contract layer covers only the functions listed under functions_under_contract"

TECH_P = 'contract-based deductive verification: VCs generated from the real AST on every run, callers checked against callee contracts, discharged by SMT (z3 5.1.0; cvc5/z3-4.8 second opinion), counter-models replayed natively; bounded net (labelled bounded) underneath'
TECH_M = 'contract-based deductive verification of the functions listed in the evidence (VCs from the real AST, SMT) plus a bounded net, labelled bounded and never counted as proved, for the part of the statement no contract reaches'

PROPS = {
    "C01": {"level": "proof", "technique": TECH_P, "assumptions": ENCODER + [A_PROTO, A_ABS, A_TQ],
            "explanation": "writer: every statement row, read by the spec's delta rules in the writer's final tables, denotes the input terms under the premise that every enabled table has room for the statement (encode_iri_indices ... encode_spo/encode_triple, LRU stability by ghost marks; both integrations' term encoders); reader: decode_iri/literal/statement/triple/quad and iter_rows compute exactly the spec decoding in the reader's tables; the tables are coupled for all histories (C05 lemmas) and the lemma statement_roundtrip composes writer postcondition and reader specification into 'read back == written' for flat triples; buffered rows keep their order into frames (list cases of triple/quad/to_stream_frame). Bounded only: nested quoted triples, the graph slot of quads end to end, byte-level entry points.",
            "note": "Proved per function for all inputs under the listed library models; composition across entry rows of unknown number is by the rows_account fold (uninterpreted for opaque segments); quads' graph-slot denotation, nested quoted triples and entry points are bounded."},
    "C02": {"level": "other", "technique": TECH_M, "assumptions": ENCODER + [A_PROTO, A_RDFLIB],
            "explanation": "proof: RDFLibTermEncoder.encode_spo is verified against the same contract as the generic term encoder (terms denoted by the ids written, entry rows account for table changes), encode_graph against its rdflib-specific contract (default-graph id, URIRef, BNode), and the statement-level encoders encode_spo/encode_triple are re-verified with the rdflib encoder as receiver; reader: all Decoder contracts (spec decoding, exact raise conditions, refusal of row kinds the physical type forbids, iter_rows per-row clauses, Decoder.__init__) are verified once more with rdflib's adapters, plus RDFLibGraphsAdapter.triple/graph_start/graph_end and rdflib's parse_*_stream; writer stream layer: rdflib's triples/quads/graphs_stream_frames (Graph, Dataset and generators as abstract containers) and namespace_declarations are verified under the same clauses as the generic ones, TripleStream.triple / QuadStream.quad / GraphStream.graph / encode_quad also with the rdflib encoder, Stream.for_rdflib and guess_stream size the encoder as the header announces, RDFLibJellySerializer.serialize writes every frame once, in order, with the configured framing; bounded: rdflib Graph/Dataset round trips through the plugin (stores, namespace manager, rdflib's own literal normalisation as expectation), the generator-of-quads branch of graphs_stream_frames.",
            "note": "rdflib itself is modelled only at term level (A-RDFLIB: constructors build term values, URIRef/BNode taken by their string value); Graph/Dataset are abstract containers; parse_jelly_* entry points, the plugin registration and the Dataset-building branch of graphs_stream_frames are bounded only."},
    "C03": {"level": "proof", "technique": TECH_P, "assumptions": ENCODER + [A_PROTO, A_ABS],
            "explanation": "writer refines the Jelly spec tables: each entry row is a valid spec assignment and the rows account exactly for the table changes, every id written lies within the table and resolves by the delta rules to the intended string (C01 premise), entry rows precede the statement row, quoted triples are complete; the options row is written exactly once, on first use, with the configured values (Stream.enroll) and the stream is enrolled before any statement (stream_frames invariants); graphs are bracketed (GraphStream.graph list cases); namespace rows arise only from Stream.namespace_declaration. Bounded: real bytes re-read by the independent wire codec + spec state machine.",
            "note": "Library models A-OD, A-STR, A-PROTO assumed; nested quoted-triple denotation and row-kind vs physical-type at whole-stream level are bounded."},
    "C04": {"level": "other", "technique": TECH_M, "assumptions": COMMON + [A_PROTO, A_DQ, A_ABS, A_TQ, A_NOOPT],
            "explanation": "proof: for any row sequence the reader's tables are the spec tables (iter_rows invariant; per row: an entry row performs exactly the spec assignment, a triple row yields the spec decoding, exactly statement and namespace rows are yielded), decode_iri/literal/statement/triple/quad/graph_start/namespace_declaration compute the spec rules with exact raise conditions, Decoder.__init__ starts from empty spec tables of the declared sizes, parse_*_stream use one decoder per stream and the adapter of the physical type; bounded: nested denotation of quoted triples, byte-level entry points on reference-encoder streams with arbitrary legal producer choices.",
            "note": "Mostly proved, for both integrations' adapters; nested denotation of quoted triples and the entry points are bounded."},
    "C05": {"level": "proof", "technique": TECH_P, "assumptions": COMMON + [A_OD, A_DQ, A_NOOPT],
            "explanation": "inductive invariant over all lookup histories, all sizes and key alphabets: constructors establish and every Lookup/LookupEncoder/LookupDecoder operation preserves the coupling with the Jelly spec table; mirror lemmas compose writer and reader contracts (the reader resolves exactly the writer's key)",
            "note": "LRU victim choice is left nondeterministic; integers mathematical."},
    "C06": {"level": "other", "technique": TECH_M, "assumptions": COMMON + [A_PROTO, A_UL, A_ABS],
            "explanation": "proof (generic integration): for every flow class and every input length, when triples/quads/graphs_stream_frames is exhausted nothing is left buffered (final flush), every frame taken out of a flow has been yielded (linear-resource obligations), statements' rows stay buffered in order until emitted; infer_flow/Stream.__init__ construct the specified flow and valid header types; type pairs validated with exact raise conditions. The rdflib integration's three stream_frames are verified under the same clauses, and RDFLibJellySerializer.serialize writes every frame it obtains exactly once with the configured framing (A-IO output model). Bounded: the configuration lattice through real bytes, *_to_file wrappers and sink.serialize.",
            "note": "the generic file wrappers are bounded only."},
    "C07": {"level": "other", "technique": TECH_M, "assumptions": COMMON + [A_PROTO, A_ABS, A_CTX],
            "explanation": "proof: iter_rows keeps no per-frame state (frame is only read; state lives in the decoder), parse_*_stream give exactly one lazy iterable per frame, all bound to one decoder, with that frame's metadata current; grouped flows emit only at graph/dataset end and bounded flows only on size; bounded: re-partitioning of real streams at sampled cut vectors, grouped sink counts, rdflib.",
            "note": "The 'flat parse depends only on the row sequence' claim follows from the iter_rows contract (a frame is nothing but its rows) but the entry points that chain frames are bounded."},
    "C08": {"level": "proof", "technique": TECH_P, "assumptions": COMMON + [A_PROTO],
            "explanation": "the real body of delimited_jelly_hint is executed symbolically under the premise 'the three bytes start a stream laid out as delimited(varint(L) ++ frame) or as a single frame whose first row is the options row', for all L and row lengths; the obligation is hint == framing. get_options_and_frames then decides by that hint on the first three content bytes (C09).",
            "note": "Wire facts (varint framing, tag 0x0A) are part of A-PROTO."},
    "C09": {"level": "other", "technique": TECH_M, "assumptions": COMMON + [A_PROTO, A_IO],
            "explanation": "proof: get_options_and_frames classifies a stream laid out in either framing (any frame length, any options-row length) by its content, however reads are chunked: for every seekable source and, for non-seekable ones, whenever BufferedReader.peek delivered three bytes; the remaining case (short peek) is the labelled known finding D5; frame_iterator hands out each frame before reading the next. Bounded: every source kind x short-read schedules on real bytes.",
            "note": "The I/O layer is a trusted model (A-IO); independence from chunking *inside* the upb parser is bounded only."},
    "C10": {"level": "other", "technique": TECH_M, "assumptions": COMMON + [A_PROTO, A_IO, A_ABS],
            "explanation": "proof: iter_rows decodes and yields row by row without look-ahead, frame_iterator reads one frame at a time: whatever was yielded before a truncation point was decoded from complete rows by the spec rules; bounded: every cut offset of small delimited streams, both integrations.",
            "note": "What the wire parser does with a truncated frame is outside the contracts (A-IO)."},
    "C11": {"level": "other", "technique": TECH_M, "assumptions": COMMON + [A_PROTO, A_UL, A_ABS],
            "explanation": "proof: after every statement a bounded flow holds fewer than frame_size rows (after_each clauses of the stream_frames loops, TripleStream.triple/QuadStream.quad/GraphStream.graph), a frame is yielded in the iteration that produced it, the requested frame_size reaches the flow; parser: one lazy iterable per frame, frames read one at a time. Bounded: pull-counting input generators and byte sources that stall after every frame boundary.",
            "note": "Temporal interleaving is argued from generator semantics (yield suspends); the stalling-source experiment is bounded."},
    "C12": {"level": "other", "technique": TECH_M, "assumptions": COMMON + ["threads: CPython memory safety, no hidden shared state inside protobuf/rdflib"],
            "explanation": "proof: everything a stream, term encoder or decoder mutates later is allocated per instance in __init__ (fresh-object clauses), the caller's options object is not written (frame); package-wide frame condition, one obligation per function of the tree (215), decided syntactically from the AST: no function writes module- or class-level state and no class-level mutable default is mutated through an instance (registration with external registries in the listed functions excepted); bounded: alone vs interleaved vs threads vs hash seeds.",
            "note": "Concurrency and hash-seed independence are outside this technique; only allocation/frame facts are proved."},
    "C13": {"level": "proof", "technique": TECH_P, "assumptions": COMMON + [A_PROTO, A_NOOPT],
            "explanation": "per-function contracts on options.py, encode_options, options_from_frame (field-by-field identity, exact raise conditions from the spec's compatibility table), Stream.enroll/Stream.__init__ (header carries the configuration) and the header_roundtrip lemma composing them",
            "note": ""},
    "C14": {"level": "other", "technique": TECH_M, "assumptions": ENCODER + [A_PROTO, A_ABS, A_RDFLIB],
            "explanation": "proof: encode_namespace_declaration writes the prefix label and IRI ids that denote the namespace IRI behind the entry rows they need, decode_namespace_declaration returns the same label and the IRI by the spec rules, the generic helper passes the IRI string of every binding in order, and with the option off no declaration goes through Stream.namespace_declaration (ghost counter over all three stream_frames); bounded: rdflib NamespaceManager, evicting tables end to end, on/off comparison of statements.",
            "note": ""},
    "C15": {"level": "other", "technique": TECH_M, "assumptions": ENCODER + [A_PROTO, A_RDFLIB],
            "explanation": "proof: both integrations' term encoders satisfy the same encode_spo contract (corresponding terms are written identically); the shared Decoder is verified against the same contracts with either integration's adapters (corresponding rows decode to corresponding terms; the default graph is the generic DefaultGraph object resp. rdflib's default-graph id), guess_stream sizes the encoder as the header announces; bounded: the six parse entry points on the same bytes, both flat serialisers byte for byte.",
            "note": "entry points are bounded."},
    "C16": {"level": "other", "technique": TECH_M, "assumptions": COMMON + [A_PROTO, A_DQ, A_TQ, A_NOOPT],
            "explanation": "proof: raise conditions of every reader function are exact (raise iff the spec step is invalid), row kinds an adapter has no handler for are refused, a triple outside a graph is refused, options_from_frame raises iff pair invalid / name table < 8, table cap; bounded: one violation of every catalogued class at every applicable row on real bytes, both integrations.",
            "note": ""},
    "C17": {"level": "other", "technique": TECH_M, "assumptions": COMMON + [A_IO, "the upb C parser and CPython itself are outside the contracts"],
            "explanation": "proof: LookupDecoder.__init__/Decoder.__init__ raise before allocating unless 0 <= size <= 4096; bounded: hostile byte strings in a watch-dogged child process.",
            "note": "Termination and memory of the C parser are outside this technique."},
    "C18": {"level": "proof", "technique": TECH_P, "assumptions": ENCODER + [A_PROTO],
            "explanation": "the statement-level obligations of C01 without the room premise; on the complement they are known to fail today (known finding D7, matched by label), anything else is reported",
            "note": ""},
    "C19": {"level": "proof", "technique": TECH_P, "assumptions": ENCODER + [A_PROTO],
            "explanation": "strongest-postcondition clauses: entry row iff miss, zero id iff the delta rule allows it, slot elided iff equal to the previous term, split at the last separator",
            "note": ""},
    "C20": {"level": "proof", "technique": TECH_P, "assumptions": ENCODER + [A_PROTO, A_UL],
            "explanation": "exceptional postconditions: exact raise conditions per term kind, tables stay well-formed and buffered rows untouched on raise (list cases on raise); 'no trace on raise' is the known finding D6 (matched by label)",
            "note": ""},
}
