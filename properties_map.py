"""Per-property metadata used by driver.py for evidence (levels mirror MANIFEST.json)."""
A_NOOPT = "A-NOOPT: CPython runs without -O, so `assert` raises AssertionError"
A_CPY = "A-CPY: CPython 3.12 semantics for the statement/expression subset of DESIGN.md section 2 (the engine's own semantics)"
A_WHEEL = "the mypyc-compiled pyjelly wheel in /venv site-packages is out of scope; only the working-tree source is verified"
A_INT = "integers are mathematical (exact for Python ints); protobuf uint32 range is a precondition/obligation, never a wrap"
COMMON = [A_CPY, A_WHEEL, A_INT]

PROPS = {
    "C05": {"level": "proof", "assumptions": COMMON + [A_NOOPT],
            "explanation": "inductive invariant over lookup histories: constructors establish, every writer/reader operation preserves the coupling with the Jelly spec table; mirror lemmas compose writer and reader contracts"},
}
