"""
Independent protobuf wire codec for the Jelly messages (no google.protobuf, no rdf_pb2).
Schema transcribed from spec/rdf.proto (Jelly 1.1.x).  Messages are plain dicts:
  {"_type": "RdfTriple", "s_iri": {...}, "o_bnode": "b1", ...}; unset fields are absent; repeated -> list.
Field order of appearance is preserved in "_order" (needed to audit "entry before use").
"""
from __future__ import annotations

from typing import Any


class WireError(Exception):
    pass


U32, STR, BOOL, ENUM, BYTES = "u32", "str", "bool", "enum", "bytes"

SPO = lambda p, base: {base + 0: (p + "_iri", "RdfIri"), base + 1: (p + "_bnode", STR),  # noqa: E731
                       base + 2: (p + "_literal", "RdfLiteral"), base + 3: (p + "_triple_term", "RdfTriple")}

SCHEMA: dict[str, dict[int, tuple[str, str]]] = {
    "RdfIri": {1: ("prefix_id", U32), 2: ("name_id", U32)},
    "RdfLiteral": {1: ("lex", STR), 2: ("langtag", STR), 3: ("datatype", U32)},
    "RdfDefaultGraph": {},
    "RdfTriple": {**SPO("s", 1), **SPO("p", 5), **SPO("o", 9)},
    "RdfQuad": {**SPO("s", 1), **SPO("p", 5), **SPO("o", 9),
                13: ("g_iri", "RdfIri"), 14: ("g_bnode", STR), 15: ("g_default_graph", "RdfDefaultGraph"),
                16: ("g_literal", "RdfLiteral")},
    "RdfGraphStart": {1: ("g_iri", "RdfIri"), 2: ("g_bnode", STR), 3: ("g_default_graph", "RdfDefaultGraph"),
                      4: ("g_literal", "RdfLiteral")},
    "RdfGraphEnd": {},
    "RdfNamespaceDeclaration": {1: ("name", STR), 2: ("value", "RdfIri")},
    "RdfNameEntry": {1: ("id", U32), 2: ("value", STR)},
    "RdfPrefixEntry": {1: ("id", U32), 2: ("value", STR)},
    "RdfDatatypeEntry": {1: ("id", U32), 2: ("value", STR)},
    "RdfStreamOptions": {1: ("stream_name", STR), 2: ("physical_type", ENUM), 3: ("generalized_statements", BOOL),
                         4: ("rdf_star", BOOL), 9: ("max_name_table_size", U32), 10: ("max_prefix_table_size", U32),
                         11: ("max_datatype_table_size", U32), 14: ("logical_type", ENUM), 15: ("version", U32)},
    "RdfStreamRow": {1: ("options", "RdfStreamOptions"), 2: ("triple", "RdfTriple"), 3: ("quad", "RdfQuad"),
                     4: ("graph_start", "RdfGraphStart"), 5: ("graph_end", "RdfGraphEnd"),
                     6: ("namespace", "RdfNamespaceDeclaration"), 9: ("name", "RdfNameEntry"),
                     10: ("prefix", "RdfPrefixEntry"), 11: ("datatype", "RdfDatatypeEntry")},
    "RdfStreamFrame": {1: ("rows", "*RdfStreamRow"), 15: ("metadata", "*MapEntry")},
    "MapEntry": {1: ("key", STR), 2: ("value", BYTES)},
}

ONEOFS: dict[str, dict[str, list[str]]] = {
    "RdfLiteral": {"literalKind": ["langtag", "datatype"]},
    "RdfTriple": {"subject": ["s_iri", "s_bnode", "s_literal", "s_triple_term"],
                  "predicate": ["p_iri", "p_bnode", "p_literal", "p_triple_term"],
                  "object": ["o_iri", "o_bnode", "o_literal", "o_triple_term"]},
    "RdfQuad": {"subject": ["s_iri", "s_bnode", "s_literal", "s_triple_term"],
                "predicate": ["p_iri", "p_bnode", "p_literal", "p_triple_term"],
                "object": ["o_iri", "o_bnode", "o_literal", "o_triple_term"],
                "graph": ["g_iri", "g_bnode", "g_default_graph", "g_literal"]},
    "RdfGraphStart": {"graph": ["g_iri", "g_bnode", "g_default_graph", "g_literal"]},
    "RdfStreamRow": {"row": ["options", "triple", "quad", "graph_start", "graph_end", "namespace", "name", "prefix",
                             "datatype"]},
}


def read_varint(buf: bytes, pos: int) -> tuple[int, int]:
    shift = 0
    result = 0
    while True:
        if pos >= len(buf):
            raise WireError("truncated varint")
        b = buf[pos]
        pos += 1
        result |= (b & 0x7F) << shift
        if not b & 0x80:
            return result, pos
        shift += 7
        if shift > 63:
            raise WireError("varint too long")


def write_varint(n: int) -> bytes:
    out = bytearray()
    while True:
        b = n & 0x7F
        n >>= 7
        if n:
            out.append(b | 0x80)
        else:
            out.append(b)
            return bytes(out)


def decode(msg_type: str, buf: bytes) -> dict:
    schema = SCHEMA[msg_type]
    oneof_of = {m: o for o, ms in ONEOFS.get(msg_type, {}).items() for m in ms}
    out: dict[str, Any] = {"_type": msg_type}
    pos = 0
    while pos < len(buf):
        key, pos = read_varint(buf, pos)
        fno, wt = key >> 3, key & 7
        if wt == 0:
            val, pos = read_varint(buf, pos)
            raw: Any = val
        elif wt == 2:
            ln, pos = read_varint(buf, pos)
            if pos + ln > len(buf):
                raise WireError("truncated length-delimited field")
            raw = buf[pos:pos + ln]
            pos += ln
        elif wt == 1:
            raw = buf[pos:pos + 8]
            pos += 8
        elif wt == 5:
            raw = buf[pos:pos + 4]
            pos += 4
        else:
            raise WireError(f"unsupported wire type {wt}")
        if fno not in schema:
            continue  # unknown field: ignored by protobuf
        name, typ = schema[fno]
        rep = typ.startswith("*")
        typ = typ.lstrip("*")
        if typ in (U32, ENUM):
            if wt != 0:
                raise WireError("wire type mismatch")
            v: Any = raw & 0xFFFFFFFF if typ == U32 else raw
        elif typ == BOOL:
            v = bool(raw)
        elif typ == STR:
            if wt != 2:
                raise WireError("wire type mismatch")
            v = raw.decode("utf-8")
        elif typ == BYTES:
            v = bytes(raw)
        else:
            if wt != 2:
                raise WireError("wire type mismatch")
            v = decode(typ, raw)
        if rep:
            out.setdefault(name, []).append(v)
        else:
            if name in oneof_of:
                for other in ONEOFS[msg_type][oneof_of[name]]:
                    if other != name:
                        out.pop(other, None)
            if isinstance(v, dict) and isinstance(out.get(name), dict):
                # protobuf merges repeated occurrences of a singular message field
                merged = dict(out[name])
                merged.update(v)
                v = merged
            out[name] = v
    return out


def encode(msg: dict) -> bytes:
    msg_type = msg["_type"]
    schema = SCHEMA[msg_type]
    by_name = {n: (fno, t) for fno, (n, t) in schema.items()}
    out = bytearray()
    for name, (fno, typ) in sorted(by_name.items(), key=lambda kv: kv[1][0]):
        if name not in msg:
            continue
        rep = typ.startswith("*")
        typ = typ.lstrip("*")
        vals = msg[name] if rep else [msg[name]]
        in_oneof = any(name in ms for ms in ONEOFS.get(msg_type, {}).values())
        for v in vals:
            if typ in (U32, ENUM, BOOL):
                if not v and not in_oneof and not rep:
                    continue
                out += write_varint(fno << 3 | 0) + write_varint(int(v))
            elif typ == STR:
                if v == "" and not in_oneof and not rep:
                    continue
                b = v.encode("utf-8")
                out += write_varint(fno << 3 | 2) + write_varint(len(b)) + b
            elif typ == BYTES:
                out += write_varint(fno << 3 | 2) + write_varint(len(v)) + v
            else:
                b = encode(v)
                out += write_varint(fno << 3 | 2) + write_varint(len(b)) + b
    return bytes(out)


def which(msg: dict, oneof: str) -> str | None:
    for m in ONEOFS[msg["_type"]][oneof]:
        if m in msg:
            return m
    return None


def split_delimited(data: bytes) -> list[bytes]:
    """varint-length-prefixed frames; raises WireError on truncation."""
    pos = 0
    frames = []
    while pos < len(data):
        ln, pos = read_varint(data, pos)
        if pos + ln > len(data):
            raise WireError("truncated frame")
        frames.append(data[pos:pos + ln])
        pos += ln
    return frames


def frames_of(data: bytes, delimited: bool) -> list[dict]:
    if delimited:
        return [decode("RdfStreamFrame", f) for f in split_delimited(data)]
    return [decode("RdfStreamFrame", data)]


def join_delimited(frames: list[dict]) -> bytes:
    out = bytearray()
    for f in frames:
        b = encode(f)
        out += write_varint(len(b)) + b
    return bytes(out)
