"""Generators of abstract RDF terms/statements for the bounded nets (pure Python, seeded)."""
from __future__ import annotations

import random
from typing import Any

XSD = "http://www.w3.org/2001/XMLSchema#"
IRIS = ["http://ex.org/a", "http://ex.org/b", "http://ex.org/ns#x", "http://ex.org/ns#y", "http://other.org/p/q",
        "urn:nosep", "", "http://ex.org/", "http://ex.org/ns#", "http://é.org/ü#ñ", "a/b#c/d", "#", "/"]
LEX = ["", "x", "hello world", "ünï", "1", "\n", '"q"']
LANGS = ["en", "pl", "en-GB"]
DTS = [XSD + "integer", XSD + "string", "http://ex.org/dt#a", "urn:dt", XSD + "date", XSD + "double", XSD + "boolean",
       "http://ex.org/dt#b", "http://ex.org/dt#c", XSD + "gYear"]
BN = ["b0", "b1", "", "ü"]


def gen_term(rng: random.Random, depth: int = 0, graph: bool = False, quoted_ok: bool = True, lits: bool = True) -> tuple:
    r = rng.random()
    if graph and r < 0.25:
        return ("default",)
    if r < 0.5:
        return ("iri", rng.choice(IRIS))
    if r < 0.65:
        return ("bnode", rng.choice(BN))
    if r < 0.9 and lits:
        k = rng.random()
        if k < 0.35:
            return ("lit", rng.choice(LEX), None, None)
        if k < 0.6:
            return ("lit", rng.choice(LEX), rng.choice(LANGS), None)
        dt = rng.choice(DTS)
        return ("lit", rng.choice(LEX), None, None if dt == XSD + "string" else dt)
    if quoted_ok and not graph and depth < 2:
        return ("quoted", gen_term(rng, depth + 1), gen_term(rng, depth + 1), gen_term(rng, depth + 1))
    return ("iri", rng.choice(IRIS))


def gen_statements(rng: random.Random, physical: int, n: int, repeat: float = 0.4, quoted_ok: bool = True,
                   lits: bool = True) -> list[tuple]:
    out: list[tuple] = []
    arity = 3 if physical == 1 else 4
    for _ in range(n):
        st = []
        for j in range(arity):
            if out and rng.random() < repeat:
                st.append(out[-1][j])
            else:
                st.append(gen_term(rng, graph=(j == 3), quoted_ok=quoted_ok, lits=lits))
        out.append(tuple(st))
        if rng.random() < 0.15:
            out.append(tuple(st))   # exact duplicate
    return out


def occ(st: tuple) -> dict:
    """term occurrences per table needed by one statement (k of property C01)."""
    c = {"n": 0, "p": 0, "d": 0}

    def walk(t: tuple) -> None:
        if t[0] == "iri":
            c["n"] += 1
            c["p"] += 1
        elif t[0] == "lit" and t[3] is not None:
            c["d"] += 1
        elif t[0] == "quoted":
            for x in t[1:]:
                walk(x)
    for t in st:
        walk(t)
    return c
