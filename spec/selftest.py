"""Self-test of the specification model: reference encoder -> wire -> reference decoder must be the identity."""
import random, sys, os
sys.path.insert(0, os.path.dirname(os.path.dirname(os.path.abspath(__file__))))
from spec import wire
from spec.jelly_spec import RefEncoder, decode_frames, decode_stream
from spec.gen import gen_statements, occ

def main(n=300, seed=0):
    rng = random.Random(seed)
    for it in range(n):
        phys = rng.choice([1, 2, 3])
        stmts = gen_statements(rng, phys, rng.randrange(1, 8))
        occs = [occ(s) for s in stmts]
        k = {t: max(o[t] for o in occs) for t in "npd"}
        if phys == 3:   # graph name is prepared separately from the triple
            pass
        sizes = (max(8, k["n"]) + rng.randrange(0, 3), rng.choice([0, max(1, k["p"]) + rng.randrange(0, 3)]), k["d"] + rng.randrange(0, 3))
        enc = RefEncoder(rng, phys, sizes, version=rng.choice([1, 2]))
        expect = []
        if phys == 3:
            cur = None
            for q in stmts:
                if q[3] != cur:
                    if cur is not None: enc.graph_end()
                    enc.graph_start(q[3]); cur = q[3]
                enc.triple(*q[:3]); expect.append(("quad", *q))
            enc.graph_end()
        else:
            for st in stmts:
                (enc.triple if phys == 1 else enc.quad)(*st); expect.append(("triple" if phys == 1 else "quad", *st))
        frames = enc.finish()
        data = wire.join_delimited(frames)
        d = decode_stream(data, True)
        assert d.events == expect, (it, d.events, expect)
    print("selftest ok", n)
main(int(sys.argv[1]) if len(sys.argv) > 1 else 300)
