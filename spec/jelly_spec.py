"""
Executable Jelly specification model: reference decoder (strict validity, audit counters) and reference encoder
(arbitrary legal producer choices).  Written from spec/rdf.proto and its normative comments, not from pyjelly.

Abstract terms (plain tuples):
  ("iri", s) | ("bnode", s) | ("lit", lex, lang|None, datatype|None) | ("quoted", s, p, o) | ("default",)
A literal typed xsd:string is the same term as the plain literal (normalised to datatype None).
Events: ("triple", s, p, o) | ("quad", s, p, o, g) | ("ns", name, iri_string)
"""
from __future__ import annotations

import random
from typing import Any

from . import wire

XSD_STRING = "http://www.w3.org/2001/XMLSchema#string"
PHYS = {0: "UNSPECIFIED", 1: "TRIPLES", 2: "QUADS", 3: "GRAPHS"}
LOGICAL_VALUES = {0, 1, 2, 3, 4, 13, 14, 114}
TRIPLES_LOGICAL = {1, 3, 13}            # FLAT_TRIPLES, GRAPHS, SUBJECT_GRAPHS
MAX_SUPPORTED_VERSION = 2
MAX_TABLE = 4096


def valid_pair(physical: int, logical: int) -> bool:
    """Physical/logical compatibility (Jelly spec, 'Logical stream types'); UNSPECIFIED logical is always allowed."""
    if physical == 0 or logical == 0:
        return True
    return (physical == 1) == (logical in TRIPLES_LOGICAL)


def norm_lit(lex: str, lang: str | None, dt: str | None) -> tuple:
    if dt == XSD_STRING:
        dt = None
    return ("lit", lex, lang or None, dt)


class SpecInvalid(Exception):
    def __init__(self, reason: str, row_index: int = -1, frame_index: int = -1) -> None:
        super().__init__(f"{reason} (row {row_index}, frame {frame_index})")
        self.reason = reason
        self.row_index = row_index
        self.frame_index = frame_index


class Table:
    def __init__(self, size: int) -> None:
        self.size = size
        self.tbl: dict[int, str] = {}
        self.la = 0
        self.lr = 0

    def assign(self, ident: int, value: str) -> int:
        eff = self.la + 1 if ident == 0 else ident
        if not 1 <= eff <= self.size:
            raise SpecInvalid(f"entry id {eff} outside table of size {self.size}")
        self.tbl[eff] = value
        self.la = eff
        return eff

    def _get(self, eff: int) -> str:
        if not 1 <= eff <= self.size:
            raise SpecInvalid(f"reference {eff} outside table of size {self.size}")
        if eff not in self.tbl:
            raise SpecInvalid(f"reference to unfilled slot {eff}")
        self.lr = eff
        return self.tbl[eff]

    def name_ref(self, ident: int) -> str:
        return self._get(self.lr + 1 if ident == 0 else ident)

    def prefix_ref(self, ident: int) -> str:
        eff = self.lr if ident == 0 else ident
        if eff == 0:
            return ""
        return self._get(eff)

    def datatype_ref(self, ident: int) -> str:
        if ident == 0:
            raise SpecInvalid("datatype reference 0")
        return self._get(ident)


class RefDecoder:
    """Spec state machine over decoded-by-wire.py rows."""

    def __init__(self) -> None:
        self.options: dict | None = None
        self.P: Table | None = None
        self.N: Table | None = None
        self.D: Table | None = None
        self.last: dict[str, Any] = {}
        self.graph: Any = None
        self.in_graph = False
        self.events: list[tuple] = []
        self.unspecified: list[str] = []
        self.audit = {"redundant_entries": 0, "missed_elisions": 0, "missed_zero_entry": 0, "missed_zero_name": 0,
                      "missed_zero_prefix": 0, "entries": 0, "statements": 0, "graph_starts": 0, "options_rows": 0,
                      "elided_slots": 0, "term_slots": 0}
        self.row_index = -1
        self.frame_index = -1
        self.frame_event_counts: list[int] = []

    # ------------------------------------------------------------------ rows
    def feed_frame(self, frame: dict) -> None:
        self.frame_index += 1
        before = len(self.events)
        for row in frame.get("rows", []):
            self.row_index += 1
            try:
                self.feed_row(row)
            except SpecInvalid as e:
                e.row_index, e.frame_index = self.row_index, self.frame_index
                raise
        self.frame_event_counts.append(len(self.events) - before)

    def feed_row(self, row: dict) -> None:
        kind = wire.which(row, "row")
        if kind is None:
            raise SpecInvalid("row with no content")
        if self.options is None:
            if kind != "options":
                raise SpecInvalid("first row is not the options row")
            self.start(row["options"])
            return
        m = row[kind]
        if kind == "options":
            self.audit["options_rows"] += 1
            cur = {k: v for k, v in m.items() if k != "_type"}
            first = {k: v for k, v in self.options.items() if k != "_type"}
            if _opt_norm(cur) != _opt_norm(first):
                raise SpecInvalid("options row repeated with different content")
            return
        phys = self.options.get("physical_type", 0)
        if kind == "prefix":
            self.entry(self.P, m, "prefix")
        elif kind == "name":
            self.entry(self.N, m, "name")
        elif kind == "datatype":
            self.entry(self.D, m, "datatype")
        elif kind == "triple":
            if phys == 1:
                s, p, o = self.statement(m, ("subject", "predicate", "object"))
                self.events.append(("triple", s, p, o))
            elif phys == 3:
                if not self.in_graph:
                    raise SpecInvalid("triple outside any graph in a GRAPHS stream")
                s, p, o = self.statement(m, ("subject", "predicate", "object"))
                self.events.append(("quad", s, p, o, self.graph))
            else:
                raise SpecInvalid("triple row in a QUADS stream")
        elif kind == "quad":
            if phys != 2:
                raise SpecInvalid(f"quad row in a {PHYS.get(phys)} stream")
            s, p, o, g = self.statement(m, ("subject", "predicate", "object", "graph"))
            self.events.append(("quad", s, p, o, g))
        elif kind == "graph_start":
            if phys != 3:
                raise SpecInvalid(f"graph_start row in a {PHYS.get(phys)} stream")
            f = wire.which(m, "graph")
            if f is None:
                raise SpecInvalid("graph_start without a graph name")
            if self.in_graph:
                self.unspecified.append("graph_start while a graph is open")
            self.graph = self.term(m[f], f, allow_default=True)
            self.in_graph = True
            self.audit["graph_starts"] += 1
        elif kind == "graph_end":
            if phys != 3:
                raise SpecInvalid(f"graph_end row in a {PHYS.get(phys)} stream")
            if not self.in_graph:
                self.unspecified.append("graph_end with no open graph")
            self.in_graph = False
            self.graph = None
        elif kind == "namespace":
            if self.options.get("version", 0) < 2:
                self.unspecified.append("namespace declaration in a version<2 stream")
            v = m.get("value")
            if v is None:
                raise SpecInvalid("namespace declaration without IRI")
            self.events.append(("ns", m.get("name", ""), self.iri(v)))
        else:
            raise SpecInvalid(f"unknown row kind {kind}")

    def start(self, o: dict) -> None:
        self.options = o
        self.audit["options_rows"] += 1
        phys = o.get("physical_type", 0)
        if phys not in (1, 2, 3):
            raise SpecInvalid(f"unsupported physical stream type {phys}")
        if o.get("version", 0) > MAX_SUPPORTED_VERSION:
            raise SpecInvalid("unsupported (newer) protocol version")
        if o.get("version", 0) == 0:
            self.unspecified.append("version 0")
        if o.get("logical_type", 0) not in LOGICAL_VALUES:
            self.unspecified.append("unknown logical type number")
        elif not valid_pair(phys, o.get("logical_type", 0)):
            raise SpecInvalid("incompatible physical/logical stream types")
        n = o.get("max_name_table_size", 0)
        if n < 8:
            raise SpecInvalid("name table smaller than 8")
        for k in ("max_name_table_size", "max_prefix_table_size", "max_datatype_table_size"):
            if o.get(k, 0) > MAX_TABLE:
                raise SpecInvalid("table larger than the supported maximum")
        self.N = Table(n)
        self.P = Table(o.get("max_prefix_table_size", 0))
        self.D = Table(o.get("max_datatype_table_size", 0))

    def entry(self, T: Table, m: dict, what: str) -> None:
        ident, value = m.get("id", 0), m.get("value", "")
        self.audit["entries"] += 1
        if value in T.tbl.values():
            self.audit["redundant_entries"] += 1
        la = T.la
        eff = T.assign(ident, value)
        if ident != 0 and eff == la + 1:
            self.audit["missed_zero_entry"] += 1

    # ----------------------------------------------------------------- terms
    def iri(self, m: dict) -> str:
        pid, nid = m.get("prefix_id", 0), m.get("name_id", 0)
        if nid != 0 and nid == self.N.lr + 1:
            self.audit["missed_zero_name"] += 1
        name = self.N.name_ref(nid)
        if self.P.size == 0:
            if pid != 0:
                raise SpecInvalid("prefix reference with a disabled prefix table")
            prefix = ""
        else:
            if pid != 0 and pid == self.P.lr:
                self.audit["missed_zero_prefix"] += 1
            prefix = self.P.prefix_ref(pid)
        return prefix + name

    def term(self, v: Any, field: str, allow_default: bool = False) -> tuple:
        if field.endswith("_iri"):
            return ("iri", self.iri(v))
        if field.endswith("_bnode"):
            return ("bnode", v)
        if field.endswith("_literal"):
            lex = v.get("lex", "")
            if "langtag" in v:
                if v["langtag"] == "":
                    self.unspecified.append("explicitly empty langtag")
                return norm_lit(lex, v["langtag"], None)
            if "datatype" in v:
                if self.D.size == 0:
                    raise SpecInvalid("datatype reference while the datatype table is disabled")
                return norm_lit(lex, None, self.D.datatype_ref(v["datatype"]))
            return norm_lit(lex, None, None)
        if field.endswith("_triple_term"):
            return self.quoted(v)
        if field.endswith("_default_graph") and allow_default:
            return ("default",)
        raise SpecInvalid(f"unexpected term field {field}")

    def quoted(self, m: dict) -> tuple:
        out = []
        for oneof in ("subject", "predicate", "object"):
            f = wire.which(m, oneof)
            if f is None:
                raise SpecInvalid("repeated-term marker inside a quoted triple")
            out.append(self.term(m[f], f))
        return ("quoted", *out)

    def statement(self, m: dict, oneofs: tuple) -> list:
        out = []
        self.audit["statements"] += 1
        for oneof in oneofs:
            f = wire.which(m, oneof)
            self.audit["term_slots"] += 1
            if f is None:
                if oneof not in self.last:
                    raise SpecInvalid(f"repeated {oneof} with no previous term")
                t = self.last[oneof]
                self.audit["elided_slots"] += 1
            else:
                t = self.term(m[f], f, allow_default=(oneof == "graph"))
                if oneof in self.last and self.last[oneof] == t:
                    self.audit["missed_elisions"] += 1
                self.last[oneof] = t
            out.append(t)
        return out


def _opt_norm(o: dict) -> dict:
    keys = ("stream_name", "physical_type", "generalized_statements", "rdf_star", "max_name_table_size",
            "max_prefix_table_size", "max_datatype_table_size", "logical_type", "version")
    defaults = {"stream_name": "", "generalized_statements": False, "rdf_star": False}
    return {k: o.get(k, defaults.get(k, 0)) for k in keys}


def decode_stream(data: bytes, delimited: bool) -> RefDecoder:
    d = RefDecoder()
    for fr in wire.frames_of(data, delimited):
        d.feed_frame(fr)
    if d.options is None:
        raise SpecInvalid("no options row")
    return d


def decode_frames(frames: list[dict]) -> RefDecoder:
    d = RefDecoder()
    for fr in frames:
        d.feed_frame(fr)
    if d.options is None:
        raise SpecInvalid("no options row")
    return d


def guess_delimited(data: bytes) -> bool:
    """Only for streams known to be well-formed: try delimited first."""
    try:
        frs = wire.frames_of(data, True)
        RefDecoder_check = RefDecoder()
        for f in frs:
            RefDecoder_check.feed_frame(f)
        return RefDecoder_check.options is not None
    except Exception:  # noqa: BLE001
        return False


# ------------------------------------------------------------- reference encoder
class RefEncoder:
    """Produces spec-valid streams making arbitrary legal choices driven by `rng`."""

    def __init__(self, rng: random.Random, physical: int, sizes: tuple[int, int, int], version: int = 1,
                 logical: int = 0, stream_name: str = "", frame_cut: float = 0.3, redundancy: float = 0.15,
                 explicit: float = 0.4, elide: float = 0.8, early: float = 0.2) -> None:
        self.rng = rng
        self.physical = physical
        self.nsize, self.psize, self.dsize = sizes
        self.N: dict[int, str] = {}
        self.P: dict[int, str] = {}
        self.D: dict[int, str] = {}
        self.la = {"n": 0, "p": 0, "d": 0}
        self.lr = {"n": 0, "p": 0}
        self.last: dict[str, Any] = {}
        self.rows: list[dict] = []
        self.frames: list[dict] = []
        self.frame_cut, self.redundancy, self.explicit, self.elide, self.early = frame_cut, redundancy, explicit, elide, early
        self.pinned: dict[str, set] = {"n": set(), "p": set(), "d": set()}
        self.options = {"_type": "RdfStreamOptions", "physical_type": physical, "max_name_table_size": self.nsize,
                        "max_prefix_table_size": self.psize, "max_datatype_table_size": self.dsize,
                        "version": version}
        if logical:
            self.options["logical_type"] = logical
        if stream_name:
            self.options["stream_name"] = stream_name
        if rng.random() < 0.5:
            self.options["generalized_statements"] = True
        if rng.random() < 0.5:
            self.options["rdf_star"] = True
        self.emit({"_type": "RdfStreamRow", "options": dict(self.options)})

    def emit(self, row: dict) -> None:
        self.rows.append(row)
        if self.rng.random() < self.frame_cut:
            self.cut()

    def cut(self, metadata: dict | None = None) -> None:
        fr: dict = {"_type": "RdfStreamFrame"}
        if self.rows:
            fr["rows"] = self.rows
        if metadata:
            fr["metadata"] = [{"_type": "MapEntry", "key": k, "value": v} for k, v in metadata.items()]
        self.frames.append(fr)
        self.rows = []

    def _tables(self, which: str) -> tuple[dict, int, str]:
        return {"n": (self.N, self.nsize, "name"), "p": (self.P, self.psize, "prefix"), "d": (self.D, self.dsize, "datatype")}[which]

    def ensure(self, which: str, value: str) -> int:
        """Make `value` resident in table `which`, with arbitrary victim; returns its id.  Ids pinned by the statement
        under construction are never chosen as victims."""
        T, size, rowname = self._tables(which)
        ids = [i for i, v in T.items() if v == value]
        if ids and self.rng.random() > self.redundancy:
            i = self.rng.choice(ids)
            self.pinned[which].add(i)
            return i
        free = [i for i in range(1, size + 1) if i not in self.pinned[which]]
        if not free:
            raise RuntimeError("reference encoder: table too small for this statement")
        empty = [i for i in free if i not in T]
        r = self.rng.random()
        if empty and r < 0.6:
            i = min(empty)
        else:
            i = self.rng.choice(free)
        ident = 0 if (i == self.la[which] + 1 and self.rng.random() > self.explicit) else i
        T[i] = value
        self.la[which] = i
        self.pinned[which].add(i)
        self.emit({"_type": "RdfStreamRow", rowname: {"_type": f"Rdf{rowname.capitalize()}Entry", "id": ident, "value": value}})
        return i

    def split(self, iri: str) -> tuple[str, str]:
        if self.psize == 0:
            return "", iri
        cuts = [0, len(iri)]
        for j, ch in enumerate(iri):
            if ch in "#/:":
                cuts.append(j + 1)
        c = self.rng.choice(cuts) if self.rng.random() < 0.4 else (max(cuts[2:]) if len(cuts) > 2 else 0)
        return iri[:c], iri[c:]

    def iri_entries(self, iri: str) -> tuple[int, int]:
        prefix, name = self.split(iri)
        pi = self.ensure("p", prefix) if self.psize else 0
        ni = self.ensure("n", name)
        return pi, ni

    def iri_ref(self, pi: int, ni: int) -> dict:
        m: dict = {"_type": "RdfIri"}
        if self.psize:
            pid = 0 if (pi == self.lr["p"] and self.rng.random() > self.explicit) else pi
            self.lr["p"] = pi
            if pid:
                m["prefix_id"] = pid
        nid = 0 if (ni == self.lr["n"] + 1 and self.rng.random() > self.explicit) else ni
        self.lr["n"] = ni
        if nid:
            m["name_id"] = nid
        return m

    def prepare(self, t: tuple) -> Any:
        """Emit entries for term t; return a closure building the message (references resolved in wire order)."""
        k = t[0]
        if k == "iri":
            pi, ni = self.iri_entries(t[1])
            return lambda: ("iri", self.iri_ref(pi, ni))
        if k == "bnode":
            return lambda: ("bnode", t[1])
        if k == "lit":
            lex, lang, dt = t[1], t[2], t[3]
            m: dict = {"_type": "RdfLiteral"}
            if lex:
                m["lex"] = lex
            if lang:
                m["langtag"] = lang
            elif dt is not None:
                if self.dsize == 0:
                    raise RuntimeError("datatype table disabled")
                m["datatype"] = self.ensure("d", dt)
            elif self.dsize > 6 and self.rng.random() < 0.3:
                try:
                    m["datatype"] = self.ensure("d", XSD_STRING)   # xsd:string spelled out: same term
                except RuntimeError:
                    pass
            return lambda: ("literal", m)
        if k == "quoted":
            subs = [self.prepare(x) for x in t[1:]]

            def build() -> tuple:
                q: dict = {"_type": "RdfTriple"}
                for pos, sub in zip("spo", subs):
                    kind, val = sub()
                    q[f"{pos}_{'triple_term' if kind == 'quoted' else kind}"] = val
                return ("quoted", q)
            return build
        if k == "default":
            return lambda: ("default_graph", {"_type": "RdfDefaultGraph"})
        raise ValueError(t)

    def statement(self, terms: tuple, msg_type: str) -> dict:
        for s in self.pinned.values():
            s.clear()
        slots = ("subject", "predicate", "object", "graph")[: len(terms)]
        builders = []
        for oneof, t in zip(slots, terms):
            if oneof in self.last and self.last[oneof] == t and self.rng.random() < self.elide:
                builders.append(None)
            else:
                builders.append(self.prepare(t))
        if self.rng.random() < self.early:
            # unrelated early entry (legal: entries may come at any time) -- must not clobber pinned ids
            try:
                self.ensure("n", f"early{self.rng.randrange(1000)}")
            except RuntimeError:
                pass
        m: dict = {"_type": msg_type}
        for oneof, t, b in zip(slots, terms, builders):
            if b is None:
                continue
            kind, val = b()
            pre = oneof[0]
            m[f"{pre}_{'triple_term' if kind == 'quoted' else kind}"] = val
            self.last[oneof] = t
        return m

    def triple(self, s: tuple, p: tuple, o: tuple) -> None:
        self.emit({"_type": "RdfStreamRow", "triple": self.statement((s, p, o), "RdfTriple")})

    def quad(self, s: tuple, p: tuple, o: tuple, g: tuple) -> None:
        self.emit({"_type": "RdfStreamRow", "quad": self.statement((s, p, o, g), "RdfQuad")})

    def graph_start(self, g: tuple) -> None:
        for s in self.pinned.values():
            s.clear()
        kind, val = self.prepare(g)()
        self.emit({"_type": "RdfStreamRow", "graph_start": {"_type": "RdfGraphStart", f"g_{kind}": val}})

    def graph_end(self) -> None:
        self.emit({"_type": "RdfStreamRow", "graph_end": {"_type": "RdfGraphEnd"}})

    def namespace(self, name: str, iri: str) -> None:
        for s in self.pinned.values():
            s.clear()
        kind, val = self.prepare(("iri", iri))()
        m: dict = {"_type": "RdfNamespaceDeclaration", "value": val}
        if name:
            m["name"] = name
        self.emit({"_type": "RdfStreamRow", "namespace": m})

    def repeat_options(self) -> None:
        self.emit({"_type": "RdfStreamRow", "options": dict(self.options)})

    def empty_frame(self) -> None:
        self.cut()
        self.frames.append({"_type": "RdfStreamFrame"})

    def finish(self) -> list[dict]:
        if self.rows:
            self.cut()
        return self.frames
