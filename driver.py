"""
./check <property> quick|thorough   ->  python3-vt driver.py <property> <tier>

Regenerates every verification condition from /repo's working tree (env PYVC_TREE overrides), discharges them,
replays counter-models on the real code, runs the bounded nets, writes evidence/<id>.json.
Exit: 0 held | 1 violation (line printed) | 2 undecided | 3 machinery error.
"""
from __future__ import annotations

import json
import multiprocessing as mp
import os
import subprocess
import sys
import time
import traceback
from typing import Any

HERE = os.path.dirname(os.path.abspath(__file__))
sys.path.insert(0, HERE)

TREE = os.path.abspath(os.environ.get("PYVC_TREE", "/repo"))
REPLAYS = os.path.join(HERE, "replays")
# evidence/ holds what the registered commands found on /repo itself; development runs against scratch trees
# (PYVC_TREE) must not overwrite it
EVIDENCE = os.path.join(HERE, "evidence") if TREE == "/repo" else os.path.join(HERE, "scratch", "evidence")

_ENG = None
_PROTO = None


def _engine():
    global _ENG
    if _ENG is None:
        from pyvc import models
        from pyvc.contract import REGISTRY
        from pyvc.engine import Engine
        from pyvc.source import Tree
        models.install()
        import contracts  # noqa: F401
        _ENG = Engine(Tree(TREE), REGISTRY, _PROTO)
    return _ENG


_KNOWN_LABELS: list = []


def _init_worker(proto: dict, tree: str, known_labels: list | None = None) -> None:
    global _PROTO, TREE, _KNOWN_LABELS
    _PROTO = proto
    TREE = tree
    _KNOWN_LABELS = list(known_labels or [])


def _worker(job: tuple) -> dict:
    key, tier, shard, nshards = job
    from pyvc.contract import REGISTRY
    from pyvc.replay import replay
    from pyvc.solve import discharge
    t0 = time.time()
    try:
        eng = _engine()
        c = REGISTRY.contracts.get(key) or REGISTRY.lemmas.get(key)
        by_variant = nshards > 1 and len(c.variants) >= nshards
        if by_variant:
            # generation (symbolic execution) is what costs for these functions: each worker takes whole variants
            obs = eng.verify(c, variant_filter=lambda i: i % nshards == shard)
        else:
            obs = eng.verify(c)
        if nshards > 1 and not by_variant:
            # every shard regenerates all obligations (cheap) and discharges its share (expensive)
            obs = [ob for i, ob in enumerate(obs) if i % nshards == shard or ob.kind in ("cover", "unsupported")]
            if shard != 0:
                obs = [ob for ob in obs if ob.kind not in ("cover", "unsupported")]
        rows = []
        if tier == "quick":
            # obligations of listed known findings are expected to be refutable; searching a counter-model for each
            # of them on every run is the expensive part, so the quick tier leaves them to the bounded witness of the
            # finding (thorough still attacks them)
            for ob in obs:
                if ob.status == "open" and any(lab in ob.label for lab in _KNOWN_LABELS):
                    ob.status = "known-skipped"
                    ob.detail = "obligation of a listed known finding: not attempted in the quick tier"
        from pyvc.solve import reset_budget
        reset_budget(6 if tier == "quick" else 20)
        from pyvc.solve import discharge_all
        discharge_all(obs, second_opinion=(tier == "thorough" and os.environ.get("PYVC_SECOND", "1") == "1"))
        refuted = [o for o in obs if o.status == "refuted" and o.kind != "cover"]
        replayed = 0
        for ob in obs:
            row = {"name": ob.name, "func": ob.func, "label": ob.label, "kind": ob.kind, "status": ob.status,
                   "backend": ob.backend, "ms": round(ob.ms, 1), "line": ob.line, "serves": list(ob.serves),
                   "note": list(ob.note), "detail": ob.detail}
            if ob.status == "refuted" and ob.kind != "cover":
                row["model"] = str(ob.model)[:4000] if ob.model is not None else ""
                if replayed < 3:   # the first few counter-models per function are replayed natively
                    replayed += 1
                    try:
                        row["replay"] = replay(eng, c, ob, TREE)
                    except Exception as e:  # noqa: BLE001
                        row["replay"] = {"status": "error", "why": f"{type(e).__name__}: {e}"}
            rows.append(row)
        stats = dict(eng.func_stats.get(key, {}))
        stats["trusted_used"] = sorted(eng.used_trusted)
        stats["models_used"] = sorted(eng.used_models)
        stats["inlined"] = sorted(eng.inlined)
        eng.used_trusted.clear(); eng.used_models.clear(); eng.inlined.clear()
        return {"key": key, "rows": rows, "stats": stats, "wall": time.time() - t0, "lemma": c.is_lemma,
                "serves": c.serves, "trusted": c.trusted}
    except Exception:  # noqa: BLE001
        return {"key": key, "error": traceback.format_exc(), "rows": [], "stats": {}, "wall": time.time() - t0}


def global_frame_rows(pid: str) -> dict:
    """C12: the package-wide frame condition 'no function writes module- or class-level state' (pyvc/global_frame.py),
    one obligation per function of the tree, decided syntactically from the AST"""
    t0 = time.time()
    try:
        from pyvc.global_frame import analyse
        from pyvc.source import Tree
        rows = []
        for r in analyse(Tree(TREE)):
            rows.append({"name": f"{r['func']}/frame.{r['label']}", "func": r["func"], "label": r["label"], "kind": "frame",
                         "status": r["status"], "backend": "syntactic frame analysis (no solver)", "ms": 0.0, "line": r["line"],
                         "serves": [pid], "note": [], "detail": r["detail"],
                         "replay": {"status": "no-witness", "why": "a write to shared state is a fact about the source text: " + r["detail"]}})
        return {"key": "package-frame:no-global-state-written", "rows": rows, "stats": {"paths": 0, "sha": "", "inlined": [], "models_used": [],
                "trusted_used": []}, "wall": time.time() - t0, "lemma": False, "serves": [pid], "trusted": False}
    except Exception:  # noqa: BLE001
        return {"key": "package-frame:no-global-state-written", "error": traceback.format_exc(), "rows": [], "stats": {}, "wall": time.time() - t0}


def load_proto() -> dict:
    env = dict(os.environ)
    env["PYTHONPATH"] = TREE
    out = subprocess.run(["/venv/bin/python", os.path.join(HERE, "native", "proto_dump.py"), TREE],
                         capture_output=True, text=True, cwd="/", env=env)
    if out.returncode != 0:
        raise RuntimeError("cannot load the protobuf schema of the tree under check:\n" + out.stderr[-1500:])
    return json.loads(out.stdout)


def run_bounded(pid: str, tier: str, seed: int) -> dict | None:
    script = os.path.join(HERE, "bounded", f"{pid.lower()}.py")
    if not os.path.exists(script):
        return None
    env = dict(os.environ)
    env["PYTHONPATH"] = TREE + os.pathsep + HERE
    env["PYTHONHASHSEED"] = "0"
    os.makedirs(REPLAYS, exist_ok=True)
    p = subprocess.run(["/venv/bin/python", script, "--tree", TREE, "--tier", tier, "--seed", str(seed),
                        "--replays", REPLAYS], capture_output=True, text=True, cwd=TREE, env=env,
                       timeout=int(os.environ.get("PYVC_BOUNDED_TIMEOUT", "3000")))
    try:
        res = json.loads(p.stdout.strip().splitlines()[-1])
    except Exception:  # noqa: BLE001
        return {"error": f"bounded net crashed (exit {p.returncode}):\n{p.stderr[-3000:]}\n{p.stdout[-1000:]}"}
    res["exit"] = p.returncode
    return res


def load_known() -> list[dict]:
    p = os.path.join(HERE, "known_findings.json")
    if not os.path.exists(p):
        return []
    return json.load(open(p)).get("findings", [])


def known_match(entry: dict, row: dict) -> bool:
    m = entry.get("match", {})
    if m.get("func") and m["func"] != row["func"]:
        return False
    if m.get("label") and m["label"] not in row["label"]:
        return False
    if m.get("kind") and m["kind"] != row["kind"]:
        return False
    # an entry that only names a bounded failure class never matches a proof obligation
    return bool(m.get("func") or m.get("label") or m.get("kind"))


def main() -> int:
    global _PROTO
    if len(sys.argv) >= 3 and sys.argv[1] == "--replay":
        return replay_file(sys.argv[2])
    pid, tier = sys.argv[1], (sys.argv[2] if len(sys.argv) > 2 else os.environ.get("VERIF_TIER", "quick"))
    seed = int(os.environ.get("VERIF_SEED", "0"))
    t0 = time.time()
    os.makedirs(EVIDENCE, exist_ok=True)
    os.makedirs(REPLAYS, exist_ok=True)
    _PROTO = load_proto()
    from pyvc import models
    from pyvc.contract import REGISTRY
    models.install()
    import contracts  # noqa: F401
    from properties_map import PROPS
    meta = PROPS[pid]
    todo = [c for c in REGISTRY.for_property(pid) if not c.trusted and not c.inline]
    trusted = [c.key for c in REGISTRY.for_property(pid) if c.trusted]
    jobs = [(c.key, tier, i, c.shards) for c in todo for i in range(c.shards)]
    jobs.sort(key=lambda j: -j[3])      # start the heavy (sharded) functions first
    results: list[dict] = []
    if jobs:
        nproc = min(int(os.environ.get("PYVC_PROCS", "16")), len(jobs))
        # spawn, not fork: z3 state created in the parent (contexts, timer threads) is not fork-safe
        ctx = mp.get_context("spawn")
        klabels = [k["match"]["label"] for k in load_known() if k["property"] and k.get("status") == "known" and k.get("match", {}).get("label")]
        with ctx.Pool(nproc, initializer=_init_worker, initargs=(_PROTO, TREE, klabels)) as pool:
            results = pool.map(_worker, jobs, chunksize=1)
        # second chance for obligations that only timed out (a busy machine must not turn "held" into "undecided"):
        # the jobs that own them are run once more, few at a time, with tripled solver budgets
        def _timed_out(r: dict) -> bool:
            return any(x["status"] == "unknown" and pid in x["serves"] and x["kind"] != "cover"
                       and not any(lab in x["label"] for lab in klabels) for x in r.get("rows", []))
        redo = [j for j, r in zip(jobs, results) if not r.get("error") and _timed_out(r)
                and not any(x["status"] == "refuted" and x["kind"] != "cover" for x in r["rows"])][:6]
        if redo:
            os.environ["PYVC_Z3_MS"] = str(3 * int(os.environ.get("PYVC_Z3_MS", "10000")))
            os.environ["PYVC_RETRY_MS"] = "60000"
            with ctx.Pool(min(3, len(redo)), initializer=_init_worker, initargs=(_PROTO, TREE, klabels)) as pool:
                again = pool.map(_worker, redo, chunksize=1)
            for j, r2 in zip(redo, again):
                if not r2.get("error"):
                    results[jobs.index(j)] = r2
    if os.environ.get("PYVC_TIMES") == "1":
        for j, r in sorted(zip(jobs, results), key=lambda x: -x[1].get("wall", 0))[:12]:
            sys.stderr.write(f"[time] {j[0].split(':')[-1]} shard {j[2]}/{j[3]}: {r.get('wall', 0):.1f}s\n")
    if pid == "C12":
        results.append(global_frame_rows(pid))
    errors = [r for r in results if r.get("error")]
    rows = [dict(row, contract=r["key"]) for r in results for row in r["rows"] if pid in row["serves"]]
    covers = [r for r in rows if r["kind"] == "cover"]
    skipped_known = [r for r in rows if r["status"] == "known-skipped"]
    proof_rows = [r for r in rows if r["kind"] != "cover" and r["status"] != "known-skipped"]
    known = [k for k in load_known() if k["property"] == pid and k.get("status") == "known"]
    refuted, known_hits = [], []
    for r in proof_rows:
        if r["status"] == "refuted":
            k = next((k for k in known if known_match(k, r)), None)
            if k is not None:
                known_hits.append((k, r))
            else:
                refuted.append(r)
    vacuous = [r for r in covers if r["status"] == "refuted"]
    # an obligation carrying the label of a listed known finding is expected not to be provable: when the solver can
    # neither prove nor refute it (thorough tier), it is reported with the finding, not as undecided
    undecided = []
    for r in proof_rows:
        if r["status"] in ("unknown", "unsupported", "open"):
            k = next((k for k in known if r["status"] == "unknown" and k.get("match", {}).get("label") and known_match(k, r)), None)
            if k is not None:
                known_hits.append((k, r))
            else:
                undecided.append(r)
    discharged = sum(1 for r in proof_rows if r["status"] == "proved")
    bounded = run_bounded(pid, tier, seed)
    lines: list[str] = []
    exit_code = 0
    violations = 0
    machinery = bool(errors or vacuous or (bounded and bounded.get("error")))
    if machinery:
        for e in errors:
            sys.stderr.write(f"MACHINERY ERROR in {e['key']}:\n{e['error']}\n")
        for v in vacuous:
            sys.stderr.write(f"VACUOUS CONTRACT {v['name']}: {v['detail']}\n")
        if bounded and bounded.get("error"):
            sys.stderr.write("BOUNDED NET ERROR: " + bounded["error"] + "\n")
    from pyvc.replay import write_replay_file
    reported_known: set[str] = set()
    for k, r in known_hits:
        if k["id"] not in reported_known:
            reported_known.add(k["id"])
            lines.append(f"KNOWN-FINDING: property={pid} {k['text']} [obligation {r['name']}]")
    bfail = (bounded or {}).get("failures", []) if bounded and not bounded.get("error") else []
    bknown = [k for k in known if k.get("match", {}).get("bounded")]
    new_bfail = []
    for f in bfail:
        k = next((k for k in bknown if k["match"]["bounded"] == f.get("class")), None)
        if k is not None:
            if k["id"] not in reported_known:
                reported_known.add(k["id"])
                lines.append(f"KNOWN-FINDING: property={pid} {k['text']} [bounded witness {f.get('replay', '')}]")
        else:
            new_bfail.append(f)
    if exit_code == 0:
        if refuted:
            # prefer an obligation whose counter-model replays on the real code
            confirmed = [r for r in refuted if r.get("replay", {}).get("status") == "confirmed"]
            pick = confirmed[0] if confirmed else refuted[0]
            payload = {"property": pid, "obligation": pick["name"], "function": pick["func"], "clause": pick["label"],
                       "kind": pick["kind"], "line": pick["line"], "path": pick["note"], "solver": pick["backend"],
                       "verdict": "sat (obligation refuted)", "model": pick.get("model", ""),
                       "replay": pick.get("replay"), "tree": TREE,
                       "all_refuted": [r["name"] for r in refuted][:40]}
            if not confirmed and new_bfail:
                payload["bounded_witness"] = new_bfail[0]
            path = write_replay_file(REPLAYS, pid, payload)
            suffix = "" if (confirmed or new_bfail) else " no-failing-input-found"
            lines.append(f"VIOLATION property={pid} replay={path}{suffix}")
            exit_code = 1
            violations = len(refuted)
        elif new_bfail:
            f = new_bfail[0]
            path = f.get("replay") or write_replay_file(REPLAYS, pid, {"property": pid, "obligation": "bounded-net", "bounded_witness": f})
            lines.append(f"VIOLATION property={pid} replay={path}")
            exit_code = 1
            violations = len(new_bfail)
        elif machinery:
            exit_code = 3      # nothing to report and part of the machinery failed: not a verdict
        elif undecided:
            exit_code = 2
            for r in undecided[:20]:
                sys.stderr.write(f"UNDECIDED obligation={r['name']} status={r['status']} {r['detail'][:300]}\n")
    # ---------------------------------------------------------------- evidence
    by_backend: dict[str, int] = {}
    for r in proof_rows:
        if r["status"] == "proved":
            by_backend[r["backend"]] = by_backend.get(r["backend"], 0) + 1
    funcs = []
    assumptions: set[str] = set(meta.get("assumptions", []))
    models_used: set[str] = set()
    merged: dict[str, dict] = {}
    for r in results:
        if r["key"] in merged:
            merged[r["key"]]["rows"] = merged[r["key"]]["rows"] + r["rows"]
            merged[r["key"]]["wall"] = max(merged[r["key"]]["wall"], r["wall"])
        else:
            merged[r["key"]] = dict(r)
    for r in merged.values():
        st = r.get("stats", {})
        funcs.append({"function": r["key"], "source_sha": st.get("sha", ""), "paths": st.get("paths", 0),
                      "statements_executed": st.get("stmts", 0), "lemma": r.get("lemma", False),
                      "obligations": sum(1 for x in r["rows"] if pid in x["serves"] and x["kind"] != "cover"),
                      "unsupported": st.get("unsupported")})
        models_used.update(st.get("models_used", []))
        for t in st.get("trusted_used", []):
            assumptions.add(f"trusted contract (assumed, not verified): {t}")
        for t in st.get("inlined", []):
            assumptions.add(f"callee body executed in place of a contract (trivial accessor/constructor): {t}")
    for mname in sorted(models_used):
        assumptions.add(f"library model assumed: {mname}")
    samples = [{"obligation": r["name"], "status": r["status"], "backend": r["backend"], "ms": r["ms"],
                "path": r["note"][:6]} for r in proof_rows[:: max(1, len(proof_rows) // 12)]][:14]
    level = meta["level"]
    # obligations that belong to a listed known finding (expected to fail, reported as KNOWN-FINDING) are counted apart
    known_rows = {id(r) for _k, r in known_hits}
    counted = [r for r in proof_rows if id(r) not in known_rows]
    coverage: dict[str, Any] = {
        "obligations": len(counted), "discharged": discharged,
        "known_finding_obligations_failed": sorted({r["name"] for _k, r in known_hits})[:60],
        "checker_cmd": f"python3-vt driver.py {pid} {tier}  (pyvc AST->SMT VC generator over {TREE}/pyjelly; z3 5.1.0 API, fallback /usr/bin/cvc5 1.0.3, /usr/bin/z3 4.8.12)",
        "trusted_base": sorted(assumptions),
        "samples": samples,
        "functions_under_contract": funcs,
        "by_backend": by_backend,
        "solver_time_s": round(sum(r["ms"] for r in proof_rows) / 1000, 2),
        "undecided": [r["name"] for r in undecided],
        "refuted": [r["name"] for r in refuted][:50],
        "known_findings": sorted(reported_known),
        "known_finding_obligations_not_attempted": sorted({r["name"] for r in skipped_known}),
        "vacuity": {"preconditions_checked_satisfiable": len(covers), "contradictory": len(vacuous)},
        "bounded": None if bounded is None else {k: bounded.get(k) for k in
                                                 ("label", "scope", "evaluations", "distinct_nontrivial", "rule", "samples", "failures_n")},
        "explanation": meta.get("explanation", ""),
    }
    if bounded and not bounded.get("error"):
        coverage["evaluations"] = int(bounded.get("evaluations", 0))
        coverage["distinct_nontrivial"] = int(bounded.get("distinct_nontrivial", 0))
        coverage["rule"] = bounded.get("rule", "")
    ev = {"property_id": pid, "tier": tier, "seed": seed, "level": level, "coverage": coverage,
          "assumptions": sorted(assumptions), "wall_s": round(time.time() - t0, 2), "violations": violations}
    with open(os.path.join(EVIDENCE, f"{pid}.json"), "w") as f:
        json.dump(ev, f, indent=1)
    for ln in lines:
        print(ln)
    print(f"{pid} {tier}: {discharged}/{len(counted)} obligations discharged over {len(funcs)} functions/lemmas, "
          f"{len(undecided)} undecided, {len(refuted)} refuted, bounded={'-' if bounded is None else bounded.get('evaluations')} "
          f"in {time.time() - t0:.1f}s -> exit {exit_code}")
    return exit_code


def replay_file(path: str) -> int:
    d = json.load(open(path))
    print(json.dumps({k: d.get(k) for k in ("property", "obligation", "clause", "line", "path", "verdict")}, indent=1))
    rp = d.get("replay") or {}
    if rp.get("witness") and d.get("function"):
        global _PROTO
        _PROTO = load_proto()
        from pyvc.replay import run_native
        req = {"tree": TREE, "args": rp["witness"]}
        if d["function"].startswith("lemma:"):
            from pyvc.contract import REGISTRY
            from pyvc import models
            models.install()
            import contracts  # noqa: F401
            c = REGISTRY.lemmas[d["function"]]
            req.update(lemma_src=c.lemma_src, lemma_name=c.key.split(":")[1], lemma_imports=REGISTRY.lemma_imports)
        else:
            req["func"] = d["function"]
        print("native re-run of the witness on", TREE)
        print(json.dumps(run_native(TREE, req), indent=1)[:4000])
    bw = d.get("bounded_witness")
    if bw:
        print("bounded witness:", json.dumps(bw, indent=1)[:4000])
    return 0


if __name__ == "__main__":
    try:
        sys.exit(main())
    except SystemExit:
        raise
    except Exception:  # noqa: BLE001
        traceback.print_exc()
        sys.exit(3)
