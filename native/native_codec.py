"""descriptor <-> real Python objects (native side of the replay protocol; see pyvc/witness.py)."""
from __future__ import annotations

import importlib
from collections import OrderedDict, deque
from typing import Any


def _cls(key: str) -> type:
    mod, name = key.split(":")
    return getattr(importlib.import_module(mod), name)


def build(d: Any) -> Any:
    t = d["t"]
    if t == "none":
        return None
    if t in ("int", "str", "bool"):
        return d["v"]
    if t == "bytes":
        return bytes(d["v"])
    if t == "tuple":
        items = [build(x) for x in d["items"]]
        if d.get("cls"):
            c = _cls(d["cls"])
            return c(*items)
        return tuple(items)
    if t == "list":
        return [build(x) for x in d["items"]]
    if t == "od":
        return OrderedDict((k, v) for k, v in d["items"])
    if t == "deque":
        return deque(d["items"], maxlen=d["maxlen"])
    if t == "new":
        c = _cls(d["cls"])
        return object.__new__(c)
    if t == "obj":
        c = _cls(d["cls"])
        o = object.__new__(c)
        for k, x in d["fields"].items():
            object.__setattr__(o, k, build(x))
        return o
    if t == "msg":
        from pyjelly import jelly
        m = getattr(jelly, d["cls"])()
        _fill_msg(m, d)
        return m
    if t == "gterm":
        from pyjelly.integrations.generic import generic_sink as gs
        k = d["k"]
        if k == "iri":
            return gs.IRI(d["v"])
        if k == "bnode":
            return gs.BlankNode(d["v"])
        if k == "lit":
            return gs.Literal(d["lex"], d["lang"], d["dt"])
        if k == "quoted":
            return gs.Triple(*[build(x) for x in d["items"]])
        if k == "default":
            return gs.DefaultGraph
        return object()
    if t == "userlist":
        c = _cls(d["cls"])
        o = object.__new__(c)
        o.data = [build(x) for x in d["items"]]
        for k, x in d.get("fields", {}).items():
            object.__setattr__(o, k, build(x))
        return o
    raise ValueError(f"cannot build descriptor {t}")


def _fill_msg(m: Any, d: Any) -> None:
    for k, x in d.get("fields", {}).items():
        if x["t"] == "msg":
            getattr(m, k).SetInParent()
            _fill_msg(getattr(m, k), x)
        elif x["t"] == "list":
            for it in x["items"]:
                if it["t"] == "msg":
                    _fill_msg(getattr(m, k).add(), it)
                else:
                    getattr(m, k).append(build(it))
        else:
            setattr(m, k, build(x))


def describe(v: Any, depth: int = 0) -> Any:
    if depth > 12:
        return {"t": "opaque", "why": "depth"}
    if v is None:
        return {"t": "none"}
    if isinstance(v, bool):
        return {"t": "bool", "v": v}
    if isinstance(v, int):
        return {"t": "int", "v": int(v)}
    if isinstance(v, str):
        if type(v) is not str:
            return {"t": "strsub", "cls": type(v).__name__, "v": str(v)}
        return {"t": "str", "v": v}
    if isinstance(v, bytes):
        return {"t": "bytes", "v": list(v)}
    if isinstance(v, OrderedDict):
        return {"t": "od", "items": [[k, x] for k, x in v.items()]}
    if isinstance(v, deque):
        return {"t": "deque", "items": list(v), "maxlen": v.maxlen}
    mod = type(v).__module__
    if isinstance(v, tuple):
        cls = None
        if mod.startswith("pyjelly"):
            cls = f"{mod}:{type(v).__name__}"
        return {"t": "tuple", "items": [describe(x, depth + 1) for x in v], "cls": cls}
    if isinstance(v, list):
        return {"t": "list", "items": [describe(x, depth + 1) for x in v]}
    if isinstance(v, dict):
        return {"t": "dict", "items": [[describe(k, depth + 1), describe(x, depth + 1)] for k, x in v.items()]}
    if hasattr(v, "DESCRIPTOR") and hasattr(v, "ListFields"):
        return describe_msg(v, depth)
    if mod == "pyjelly.integrations.generic.generic_sink":
        n = type(v).__name__
        if n == "IRI":
            return {"t": "gterm", "k": "iri", "v": v._iri}
        if n == "BlankNode":
            return {"t": "gterm", "k": "bnode", "v": v._identifier}
        if n == "Literal":
            return {"t": "gterm", "k": "lit", "lex": v._lex, "lang": v._langtag, "dt": v._datatype}
        if n == "_DefaultGraph":
            return {"t": "gterm", "k": "default"}
        if n == "Triple":
            return {"t": "gterm", "k": "quoted", "items": [describe(x, depth + 1) for x in v]}
    if mod.startswith("pyjelly"):
        from collections import UserList
        if isinstance(v, UserList):
            fields = {k: describe(x, depth + 1) for k, x in vars(v).items() if k != "data"}
            return {"t": "userlist", "cls": f"{mod}:{type(v).__name__}", "items": [describe(x, depth + 1) for x in v.data],
                    "fields": fields}
        try:
            fields = {k: describe(x, depth + 1) for k, x in vars(v).items()}
        except TypeError:
            fields = {}
        return {"t": "obj", "cls": f"{mod}:{type(v).__name__}", "fields": fields}
    return {"t": "opaque", "why": f"{mod}.{type(v).__name__}", "repr": repr(v)[:200]}


def describe_msg(m: Any, depth: int = 0) -> Any:
    fields = {}
    for fd, val in m.ListFields():
        rep = getattr(fd, "is_repeated", None)
        if rep is None:
            rep = fd.label == fd.LABEL_REPEATED
        if rep:
            if fd.message_type is not None and fd.message_type.GetOptions().map_entry:
                fields[fd.name] = {"t": "dict", "items": [[describe(k), describe(x)] for k, x in val.items()]}
            else:
                fields[fd.name] = {"t": "list", "items": [describe(x, depth + 1) for x in val]}
        else:
            fields[fd.name] = describe(val, depth + 1)
    oneofs = {o.name: m.WhichOneof(o.name) for o in m.DESCRIPTOR.oneofs}
    return {"t": "msg", "cls": m.DESCRIPTOR.name, "fields": fields, "oneofs": oneofs}
