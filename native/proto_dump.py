"""Dump the protobuf schema that the tree under check actually loads (run with /venv/bin/python, PYTHONPATH=<tree>)."""
import json, sys, os
tree = os.path.abspath(sys.argv[1])
sys.path.insert(0, tree)
import pyjelly
assert os.path.abspath(pyjelly.__file__).startswith(tree), (pyjelly.__file__, tree)
from pyjelly.jelly import rdf_pb2
from google.protobuf import descriptor as D
fd = rdf_pb2.DESCRIPTOR
TYPES = {D.FieldDescriptor.TYPE_UINT32: "uint32", D.FieldDescriptor.TYPE_STRING: "string", D.FieldDescriptor.TYPE_BOOL: "bool",
         D.FieldDescriptor.TYPE_BYTES: "bytes", D.FieldDescriptor.TYPE_ENUM: "enum", D.FieldDescriptor.TYPE_MESSAGE: "message",
         D.FieldDescriptor.TYPE_UINT64: "uint64", D.FieldDescriptor.TYPE_INT32: "int32", D.FieldDescriptor.TYPE_INT64: "int64"}
out = {"messages": {}, "enums": {}, "constants": {}}
for name, e in fd.enum_types_by_name.items():
    out["enums"][name] = {v.name: v.number for v in e.values}
    for v in e.values:
        out["constants"][v.name] = v.number
for name, m in fd.message_types_by_name.items():
    fields = []
    for f in m.fields:
        is_rep = getattr(f, "is_repeated", None)
        if is_rep is None:
            is_rep = f.label == D.FieldDescriptor.LABEL_REPEATED
        is_map = bool(f.message_type and f.message_type.GetOptions().map_entry)
        fields.append({"name": f.name, "number": f.number, "type": TYPES.get(f.type, str(f.type)),
                       "repeated": bool(is_rep), "map": is_map,
                       "message": f.message_type.name if f.message_type else None,
                       "enum": f.enum_type.name if f.enum_type else None,
                       "oneof": f.containing_oneof.name if f.containing_oneof else None,
                       "presence": bool(f.has_presence)})
    out["messages"][name] = {"fields": fields, "oneofs": {o.name: [f.name for f in o.fields] for o in m.oneofs}}
json.dump(out, sys.stdout)
