"""
Native replay: build real pyjelly objects from a witness descriptor, call the real function, dump the outcome.
Run as: /venv/bin/python replay_runner.py <request.json>   (prints one JSON document)
"""
from __future__ import annotations

import importlib
import json
import os
import sys
import traceback
from collections import OrderedDict, deque


def main() -> None:
    req = json.load(open(sys.argv[1]))
    tree = os.path.abspath(req["tree"])
    sys.path.insert(0, tree)
    import pyjelly
    assert os.path.abspath(pyjelly.__file__).startswith(tree), (pyjelly.__file__, tree)
    from native_codec import build, describe   # noqa: E402

    args = {k: build(v) for k, v in req["args"].items()}
    pre = {k: describe(v) for k, v in args.items()}
    out = {"pre": pre}
    try:
        if req.get("lemma_src"):
            ns: dict = {}
            for name, target in req.get("lemma_imports", {}).items():
                mod, attr = target.split(":")
                ns[name] = getattr(importlib.import_module(mod), attr)
            exec(req["lemma_src"], ns)
            fn = ns[req["lemma_name"]]
            res = fn(**args)
        else:
            modname, qual = req["func"].split(":")
            mod = importlib.import_module(modname)
            parts = qual.split(".")
            if len(parts) == 1:
                fn = getattr(mod, parts[0])
                res = fn(**args)
            else:
                cls = getattr(mod, parts[0])
                fn = cls.__dict__[parts[1]]
                if isinstance(fn, property):
                    res = fn.fget(args["self"])
                elif isinstance(fn, (classmethod, staticmethod)):
                    res = getattr(cls, parts[1])(**{k: v for k, v in args.items() if k != "cls"})
                else:
                    res = fn(**args)
        out["outcome"] = "return"
        out["result"] = describe(res)
    except BaseException as ex:  # noqa: BLE001
        out["outcome"] = "raise"
        out["exc"] = type(ex).__name__
        out["exc_mro"] = [c.__name__ for c in type(ex).__mro__]
        out["exc_msg"] = str(ex)[:300]
        out["traceback"] = traceback.format_exc()[-1500:]
    out["post"] = {k: describe(v) for k, v in args.items()}
    json.dump(out, sys.stdout)


if __name__ == "__main__":
    sys.path.insert(0, os.path.dirname(os.path.abspath(__file__)))
    main()
