#!/bin/sh
# Builds nothing: the framework is plain Python run by python3-vt (z3/cvc5) and /venv/bin/python (pyjelly deps).
set -e
cd "$(dirname "$0")"
python3-vt -c "import z3; assert z3.get_version_string().startswith('5.'), z3.get_version_string()"
/venv/bin/python -c "import google.protobuf, rdflib"
mkdir -p evidence replays
echo "setup ok"
