"""The verifier proper: builds the symbolic pre-state from a contract, runs the real body, emits obligations."""
from __future__ import annotations

import ast
import time
from typing import Any

import z3

from . import values as V
from .contract import Contract, LoopSpec, Registry
from .engine_base import Obligation, _aslist, _has_quantifier
from .engine_call import CallMixin
from .engine_expr import Ctx
from .source import ClassInfo, FuncInfo, Tree
from .state import ClauseError, Env, State
from .values import (ADT, And, ExcVal, Implies, Not, Opt, Or, Raised, Rec, Ref, Seg, Tup, Unsupported, exc_is_a, is_z3)


class Engine(CallMixin):
    def __init__(self, tree: Tree, registry: Registry, proto: dict) -> None:
        super().__init__(tree, registry, proto)
        self.func_stats: dict[str, dict] = {}
        self._check_exception_classes()
        from .proto_model import install as _install_proto
        _install_proto(self)
        self.family_problems: dict[str, list[str]] = {}
        for fname, fam in self.reg.adts.items():
            if hasattr(fam, "check_source"):
                self.family_problems[fname] = fam.check_source(self.tree)

    def _check_exception_classes(self) -> None:
        m = self.tree.modules.get("pyjelly.errors")
        if m is None:
            return
        for name, b in m.bindings.items():
            if isinstance(b, ClassInfo):
                parents = [x if isinstance(x, str) else x.name for x in b.bases]
                V.EXC_PARENTS[name] = parents[0] if parents else "Exception"

    # ------------------------------------------------------------------ verify
    def verify(self, c: Contract, variant_filter: Any = None) -> list[Obligation]:
        start = len(self.obligations)
        t0 = time.time()
        self.cur_func = c.key
        self.cur_serves = tuple(c.serves)
        stats = {"key": c.key, "paths": 0, "unsupported": None, "sha": "", "stmts": 0}
        self.func_stats[c.key] = stats
        s0 = self.stmts_executed
        try:
            if c.is_lemma:
                mod = ast.parse(c.lemma_src)
                fnode = next(n for n in mod.body if isinstance(n, ast.FunctionDef))
                lm = self.tree.modules.get("$lemmas")
                if lm is None:
                    from .source import Module
                    lm = Module(self.tree, "$lemmas", c.file, c.lemma_src, mod)
                    for name, target in getattr(self.reg, "lemma_imports", {}).items():
                        modname, attr = target.split(":")
                        lm.bindings[name] = ("import", modname, attr)
                fi = FuncInfo(lm, fnode.name, fnode)
            else:
                fi = self.tree.get_func(c.key)
            stats["sha"] = fi.sha256()
            for fname, probs in self.family_problems.items():
                if probs and self._uses_family(c, fname):
                    raise Unsupported(f"term class model '{fname}' no longer matches the source: {'; '.join(probs)}")
            if c.variants:
                import dataclasses
                base_params = dict(c.params)
                for i, ov in enumerate(c.variants):
                    if variant_filter is not None and not variant_filter(i):
                        continue      # this variant is verified by another worker
                    ov = dict(ov)
                    never = bool(ov.pop("$never_returns", False))   # declared: this variant has only raising paths
                    cv = dataclasses.replace(c, params={**base_params, **ov}, variants=[])
                    cv.virtual = getattr(c, "virtual", False)
                    cv.never_returns = never
                    self.cur_variant = f"#v{i}"
                    self._verify_body(cv, fi)
                self.cur_variant = ""
            else:
                self._verify_body(c, fi)
        except Unsupported as ex:
            stats["unsupported"] = str(ex)
            self.unsupported.append((c.key, str(ex)))
            ob = Obligation(c.key, "engine", "unsupported", (), z3.BoolVal(False), 0, tuple(c.serves), (),
                            status="unsupported", detail=str(ex))
            self.obligations.append(ob)
        except ClauseError as ex:
            stats["unsupported"] = f"clause: {ex}"
            ob = Obligation(c.key, "clause", "unsupported", (), z3.BoolVal(False), 0, tuple(c.serves), (),
                            status="unsupported", detail=f"contract clause not evaluable: {ex}")
            self.obligations.append(ob)
        stats["stmts"] = self.stmts_executed - s0
        stats["gen_s"] = round(time.time() - t0, 3)
        return self.obligations[start:]

    def _uses_family(self, c: Contract, fname: str) -> bool:
        def walk(s: Any) -> bool:
            if s is None:
                return False
            if callable(s) and not hasattr(s, "kind"):
                return True       # a result sort computed from the arguments: assume the family may be involved
            if isinstance(s, (tuple, list)):
                return any(walk(x) for x in s)
            if s.kind == "adt" and s.arg == fname:
                return True
            for a in (s.arg, s.arg2):
                if hasattr(a, "kind") and walk(a):
                    return True
                if isinstance(a, tuple) and any(hasattr(x, "kind") and walk(x) for x in a):
                    return True
            return False
        return any(walk(s) for s in c.params.values()) or walk(c.result)

    def _verify_body(self, c: Contract, fi: FuncInfo) -> None:
        st = State()
        binds: dict[str, Any] = {}
        invs: list = []
        sig = fi.node.args
        sig_params = [p.arg for p in sig.posonlyargs + sig.args + sig.kwonlyargs]
        if sig.vararg or (sig.kwarg and sig.kwarg.arg not in c.params):
            if sig.vararg:
                raise Unsupported(f"{fi.key}: *args in a function under contract")
        for p in sig_params + ([sig.kwarg.arg] if sig.kwarg else []):
            if p not in c.params:
                raise Unsupported(f"{fi.key}: parameter {p!r} has no sort in the contract (signature changed?)")
        for p, sort in c.params.items():
            if p not in sig_params and not (sig.kwarg and sig.kwarg.arg == p) and not p.startswith("ghost_"):
                raise Unsupported(f"{fi.key}: contract parameter {p!r} not in the signature")
            if sort.kind == "newobj":
                cls = self.tree.get_class(sort.arg)
                st, r = self.alloc(st, "obj", cls)
                for ext in cls.external_bases():
                    model = self.reg.models.get("base:" + ext)
                    if model is not None and hasattr(model, "init_fields"):
                        st = model.init_fields(self, st, r)
                binds[p] = r
                continue
            st, v, inv = self.make(st, sort, p)
            binds[p] = v
            invs += inv
        st = st.assume(*invs)
        env = Env(self, st, binds)
        pre = self.eval_clause_dict(c.requires, env)
        st = st.assume(*pre.values())
        env.st = st
        if c.ghost_enter is not None:
            c.ghost_enter(env)          # ghost prologue: e.g. set the LRU marks at the start of a statement
            st = env.st
        env.snapshot_old()
        old_heap = st.heap
        # vacuity: the precondition must be satisfiable
        self.obligations.append(Obligation(c.key, "pre-satisfiable", "cover", st.pc, None, fi.node.lineno,
                                           tuple(c.serves), ()))
        ctx = Ctx(fi.module, fi, fi.cls, contract=c)
        ctx.loop_ordinals = {id(n): i for i, n in enumerate(
            x for x in ast.walk(fi.node) if isinstance(x, (ast.For, ast.While)))}
        self.verifying_body_of = c.key
        locals0 = {k: v for k, v in binds.items()}
        init_ctx = {"binds": binds, "heap": old_heap}
        n_paths = 0
        normal_paths = 0
        for st1, out in self.exec_block(fi.node.body, st.with_locals(locals0), ctx):
            n_paths += 1
            first = len(self.obligations)
            if out[0] in ("return", "normal"):
                normal_paths += 1
                if normal_paths == 1:
                    # vacuity: the first normal path must be reachable (its path condition satisfiable)
                    self.obligations.append(Obligation(c.key, "normal-exit-reachable" + getattr(self, "cur_variant", ""), "cover", st1.pc, None,
                                                       fi.node.lineno, tuple(c.serves), st1.note))
                self._check_normal_exit(c, fi, st1, out[1] if out[0] == "return" else None, binds, old_heap, env)
            elif out[0] == "raise":
                self._check_raise_exit(c, fi, st1, out[1], binds, old_heap, env)
            else:
                raise Unsupported(f"{out[0]} escaping {fi.key}")
            for ob in self.obligations[first:]:
                ob.ctx = init_ctx
        self.func_stats[c.key]["paths"] = n_paths
        self.func_stats[c.key]["normal_paths"] = normal_paths
        if n_paths == 0:
            raise Unsupported(f"{fi.key}{getattr(self, 'cur_variant', '')}: no path reaches the end of the body (everything after some "
                              f"statement is unreachable under the contracts in force): the contract would hold vacuously")
        if normal_paths > 0 and getattr(c, "never_returns", False):
            raise Unsupported(f"{fi.key}{getattr(self, 'cur_variant', '')}: declared never to return, but a path returns normally")
        if normal_paths == 0 and not getattr(c, "never_returns", False) and c.ensures is not None:
            raise Unsupported(f"{fi.key}{getattr(self, 'cur_variant', '')}: no path returns normally, the ensures clauses would hold vacuously")
        self.paths += n_paths

    def _path_env(self, c: Contract, st: State, binds: dict, old_heap: dict, env0: Env) -> Env:
        env = Env(self, st, binds)
        object.__setattr__(env, "_old_heap", old_heap)
        object.__setattr__(env, "_old_binds", dict(binds))
        return env

    def _check_normal_exit(self, c: Contract, fi: FuncInfo, st: State, result: Any, binds: dict, old_heap: dict,
                           env0: Env) -> None:
        env = self._path_env(c, st, binds, old_heap, env0)
        env_old = Env(self, State(st.pc, {}, old_heap), binds)
        env_old.snapshot_old()
        # raises: exactly-when -> on a normal path none of the conditions holds
        raises = c.raises(env_old) if c.raises else {}
        for names, cond in raises.items():
            if isinstance(names, tuple) and names and names[0] == "?":
                continue        # "may raise": no claim on normal paths
            nm = names if isinstance(names, str) else "|".join(names)
            self.oblige(st, f"no-{nm}-on-normal-path", "raises", Not(And(*_aslist(cond))), fi.node)
        # result sort
        rsort = c.result(env_old) if callable(c.result) else c.result
        if rsort is not None:
            ok = self.result_conforms(st, rsort, result)
            if ok is not True:
                self.oblige(st, "result-sort", "ensures", ok, fi.node)
            result = self.coerce_result(st, rsort, result)
        elif result is not None and c.result is None:
            self.oblige(st, "result-is-none", "ensures", self.identical(st, result, None, fi.node), fi.node)
        env.set_result(result)
        if c.ghost_exit is not None:
            c.ghost_exit(env)
        st2 = env.st
        try:
            post = self.eval_clause_dict(c.ensures, env)
        except ClauseError as ex:
            self.oblige(st2, f"clause-evaluable({ex})", "ensures", False, fi.node)
            post = {}
        for lab, g in post.items():
            serves = tuple(c.tags.get(lab, c.serves))
            for suf, props in c.tag_suffix.items():
                if lab.endswith(suf):
                    serves = tuple(props)
            self.oblige(st2, lab, "ensures", g, fi.node, serves)
        if c.aliases is not None:
            from .state import unwrap
            for path, val in c.aliases(env).items():
                parts = path.split(".")
                cur = result if parts[0] == "result" else binds.get(parts[0])
                ok: Any = True
                for p_ in parts[1:]:
                    if isinstance(cur, Opt):
                        cur = cur.val
                    if not isinstance(cur, Ref) or not st2.obj(cur).has(p_):
                        ok = False
                        break
                    cur = st2.obj(cur).get(p_)
                if ok is True:
                    ok = self.identical(st2, cur, unwrap(val), fi.node)
                self.oblige(st2, f"alias.{path}", "ensures", ok, fi.node)
        self.check_list_cases(c, c.lists, env, st2, binds, result, fi.node, "")
        if c.silent is not None and bool(c.silent(env)):
            self.oblige(st2, "silent-generator-yields-nothing", "ensures", len(st2.out) == 0, fi.node)
        self.check_linear(st2, result, fi.node, "")
        self._check_frame(c, fi, st2, binds, old_heap, c.modifies)

    def _check_raise_exit(self, c: Contract, fi: FuncInfo, st: State, exc: ExcVal, binds: dict, old_heap: dict,
                          env0: Env) -> None:
        env_old = Env(self, State(st.pc, {}, old_heap), binds)
        env_old.snapshot_old()
        raises = c.raises(env_old) if c.raises else {}
        matched = None
        for names, cond in raises.items():
            names_t = names if isinstance(names, tuple) else (names,)
            if any(exc.cls == n or exc_is_a(exc.cls, n) for n in names_t if n != "?"):
                c1 = And(*_aslist(cond))
                matched = (names_t, c1 if matched is None else Or(matched[1], c1))
        if matched is None:
            self.oblige(st, f"undeclared-{exc.cls}", "raises", False, fi.node)
            return
        self.oblige(st, f"{exc.cls}-only-when-declared", "raises", matched[1], fi.node)
        if c.on_raise is not None:
            env = self._path_env(c, st, binds, old_heap, env0)
            object.__setattr__(env, "exc", exc)
            try:
                post = self.eval_clause_dict(c.on_raise, env)
            except ClauseError as ex:
                self.oblige(st, f"on-raise-clause-evaluable({ex})", "raises", False, fi.node)
                post = {}
            for lab, g in post.items():
                serves = None
                for suf, props in c.tag_suffix.items():
                    if lab.endswith(suf):
                        serves = tuple(props)
                self.oblige(st, f"on-raise.{lab}", "raises", g, fi.node, serves)
            self.check_list_cases(c, c.lists_on_raise, env, st, binds, None, fi.node, "on-raise.")
            self._check_frame(c, fi, st, binds, old_heap, c.modifies, tag="on-raise.")
        else:
            self._check_frame(c, fi, st, binds, old_heap, [], tag="on-raise.")

    def check_list_cases(self, c: Contract, fn: Any, env: Env, st: State, binds: dict, result: Any, node: Any, tag: str) -> None:
        """the body leaves the row lists exactly as the contract's `lists` cases say (structural comparison: the same
        row objects / opaque segments in the same order; `...` = any further rows; NEW = one new element)"""
        from .contract import NEW
        from .state import unwrap
        if fn is None:
            return
        try:
            cases = fn(env)
        except ClauseError as ex:
            self.oblige(st, f"{tag}lists-evaluable({ex})", "ensures", False, node)
            return
        self.oblige(st, f"{tag}lists.cases-exhaustive", "ensures", Or(*[k["when"] for k in cases]), node)

        def same(a: Any, b: Any) -> bool:
            b = unwrap(b)
            if isinstance(a, Seg) or isinstance(b, Seg):
                return isinstance(a, Seg) and isinstance(b, Seg) and a.const.eq(b.const)
            return isinstance(a, Ref) and isinstance(b, Ref) and a == b

        def match(actual: tuple, spec: list) -> bool:
            if Ellipsis in spec:
                i = spec.index(Ellipsis)
                pre, suf = spec[:i], spec[i + 1:]
                if Ellipsis in suf or len(actual) < len(pre) + len(suf):
                    return False
                mid_ok = True
                return match(actual[:len(pre)], pre) and (not suf or match(actual[len(actual) - len(suf):], suf)) and mid_ok
            if len(actual) != len(spec):
                return False
            for a, b in zip(actual, spec):
                if isinstance(b, NEW):
                    if not isinstance(a, Ref):
                        return False
                    continue
                if not same(a, b):
                    return False
            return True

        for case in cases:
            when = case["when"]
            if when is False:
                continue
            for path, items in case["set"].items():
                lref = self.resolve_list_path(st, path, binds, result)
                ok = lref is not None and match(tuple(st.obj(lref).get("items")), list(items))
                self.oblige(st, f"{tag}lists.{case['label']}.{path}", "ensures", Implies(when, ok), node)
            for path, val in case.get("alias", {}).items():
                parts = path.split(".")
                cur = result if parts[0] == "result" else binds.get(parts[0])
                ok2: Any = True
                for p_ in parts[1:]:
                    if isinstance(cur, Opt):
                        cur = cur.val
                    if not isinstance(cur, Ref) or not st.obj(cur).has(p_):
                        ok2 = False
                        break
                    cur = st.obj(cur).get(p_)
                if ok2 is True:
                    cur = cur.val if isinstance(cur, Opt) else cur
                    v2 = unwrap(val)
                    ok2 = isinstance(cur, Ref) and isinstance(v2, Ref) and cur == v2
                self.oblige(st, f"{tag}alias.{case['label']}.{path}", "ensures", Implies(when, ok2), node)

    def check_linear(self, st: State, result: Any, node: Any, where: str, since: int = 0) -> None:
        """every linear resource (a frame taken out of a flow) obtained on this path was returned or yielded"""
        rr = result.val if isinstance(result, Opt) else result
        for ev in st.events[since:]:
            if ev[0] != "linear":
                continue
            _, isn, ref, key, line = ev
            if isinstance(rr, Ref) and rr == ref:
                continue
            times = sum(1 for o in st.out if isinstance(o.val if isinstance(o, Opt) else o, Ref)
                        and (o.val if isinstance(o, Opt) else o) == ref)
            if times > 1:
                # handed on, but more than once: the consumer would see the same frame (the same rows) twice
                self.oblige(st, f"{where}frame-from-{key.split('.')[-1]}@L{line}-is-handed-on-only-once", "ensures", False, node)
            if times >= 1:
                continue
            self.oblige(st, f"{where}frame-from-{key.split('.')[-1]}@L{line}-is-handed-on", "ensures", isn, node)

    # ------------------------------------------------------------------- frame
    def _check_frame(self, c: Contract, fi: FuncInfo, st: State, binds: dict, old_heap: dict, modifies: list[str],
                     tag: str = "") -> None:
        covered_refs: set[int] = set()
        covered_fields: set[tuple[int, str]] = set()
        for path in modifies:
            parts = path.split(".")
            cur = binds.get(parts[0])
            ok = True
            for p in parts[1:-1]:
                if isinstance(cur, Ref) and cur.id in old_heap and old_heap[cur.id].has(p):
                    cur = old_heap[cur.id].get(p)
                else:
                    ok = False
                    break
            if not ok:
                continue
            if len(parts) == 1:
                if isinstance(cur, Ref):
                    self._collect(old_heap, cur, covered_refs)
                continue
            if isinstance(cur, Ref):
                covered_fields.add((cur.id, parts[-1]))
                if cur.id in old_heap and old_heap[cur.id].has(parts[-1]):
                    sub = old_heap[cur.id].get(parts[-1])
                    self._collect_value(old_heap, sub, covered_refs)
        names = self._path_names(binds, old_heap)
        for rid, oldobj in old_heap.items():
            if rid in covered_refs:
                continue
            newobj = st.heap.get(rid)
            if newobj is None:
                continue
            if newobj is oldobj:
                continue
            for k, ov in oldobj.fields:
                if (rid, k) in covered_fields:
                    continue
                nv = newobj.get(k, None)
                if nv is ov:
                    continue
                if oldobj.kind == "msg" and ov is None and isinstance(nv, Ref):
                    continue      # reading a sub-message materialises the child object; presence is tracked separately
                eq = self._frame_eq(st, ov, nv)
                if eq is True:
                    continue
                self.oblige(st, f"{tag}unchanged({names.get(rid, '@' + str(rid))}.{k})", "frame", eq, fi.node)
            for k, nv in newobj.fields:
                if not oldobj.has(k) and (rid, k) not in covered_fields and not k.startswith("$"):
                    self.oblige(st, f"{tag}no-new-field({names.get(rid, '@' + str(rid))}.{k})", "frame", False, fi.node)

    def _frame_eq(self, st: State, a: Any, b: Any) -> Any:
        if a is b:
            return True
        if is_z3(a) and is_z3(b):
            if a.eq(b):
                return True
            if a.sort() == b.sort():
                return a == b
            return False
        if isinstance(a, tuple) and isinstance(b, tuple) and not isinstance(a, (Tup, Rec)):
            if len(a) != len(b):
                return False
            return And(*[self._frame_eq(st, x, y) for x, y in zip(a, b)])
        if isinstance(a, Seg) and isinstance(b, Seg):
            return True if a.const.eq(b.const) else a.const == b.const
        if isinstance(a, Opt) and isinstance(b, Opt):
            return And(self._frame_eq(st, a.isnone, b.isnone), Implies(Not(a.isnone), self._frame_eq(st, a.val, b.val)))
        if isinstance(a, (Tup, Rec, ADT)) and type(a) is type(b):
            try:
                return self.equal(st, a, b)
            except Unsupported:
                return False
        if isinstance(a, Ref) and isinstance(b, Ref):
            return a == b
        if isinstance(a, (bool, int, str)) or isinstance(b, (bool, int, str)) or a is None or b is None:
            try:
                return self.equal(st, a, b)
            except Unsupported:
                return False
        return a == b

    def _collect(self, heap: dict, r: Ref, acc: set) -> None:
        if r.id in acc or r.id not in heap:
            return
        acc.add(r.id)
        for _, v in heap[r.id].fields:
            self._collect_value(heap, v, acc)

    def _collect_value(self, heap: dict, v: Any, acc: set) -> None:
        if isinstance(v, Ref):
            self._collect(heap, v, acc)
        elif isinstance(v, Tup):
            for x in v.items:
                self._collect_value(heap, x, acc)
        elif isinstance(v, tuple):
            for x in v:
                self._collect_value(heap, x, acc)
        elif isinstance(v, Opt):
            self._collect_value(heap, v.val, acc)

    def _path_names(self, binds: dict, heap: dict) -> dict[int, str]:
        names: dict[int, str] = {}

        def walk(v: Any, path: str) -> None:
            if isinstance(v, Ref):
                if v.id in names or v.id not in heap:
                    return
                names[v.id] = path
                for k, x in heap[v.id].fields:
                    walk(x, f"{path}.{k}")
            elif isinstance(v, Opt):
                walk(v.val, path)
            elif isinstance(v, (Tup,)):
                for i, x in enumerate(v.items):
                    walk(x, f"{path}[{i}]")
            elif isinstance(v, tuple):
                for i, x in enumerate(v):
                    walk(x, f"{path}[{i}]")
        for p, v in binds.items():
            walk(v, p)
        return names

    # ------------------------------------------------------------ result sorts
    def result_conforms(self, st: State, sort: Any, v: Any) -> Any:
        k = sort.kind
        if k == "none":
            return self.identical(st, v, None, None)
        if k == "opt":
            if v is None:
                return True
            if isinstance(v, Opt):
                return Implies(Not(v.isnone), self.result_conforms(st, sort.arg, v.val))
            return self.result_conforms(st, sort.arg, v)
        if v is None or isinstance(v, Opt):
            if isinstance(v, Opt):
                return And(Not(v.isnone), self.result_conforms(st, sort, v.val))
            return False
        if k in ("int", "enum"):
            return V.is_int(v)
        if k == "nat":
            return (v >= 0) if V.is_int(v) else False
        if k == "uint32":
            return And(v >= 0, v < 2 ** 32) if V.is_int(v) else False
        if k == "bool":
            return V.is_bool(v)
        if k == "str":
            return V.is_str(v)
        if k == "tup":
            if not isinstance(v, Tup) or len(v.items) != len(sort.arg):
                return False
            return And(*[self.result_conforms(st, s, x) for s, x in zip(sort.arg, v.items)])
        if k == "obj":
            if isinstance(v, Ref) and st.obj(v).kind == "obj":
                cls = st.obj(v).cls
                want = sort.arg
                if isinstance(cls, ClassInfo):
                    return any(isinstance(x, ClassInfo) and x.key == want for x in cls.mro())
            return False
        if k == "msg":
            return isinstance(v, Ref) and st.obj(v).kind == "msg" and st.obj(v).cls == sort.arg
        if k == "rows":
            if isinstance(v, Tup):
                return True
            return isinstance(v, Ref) and st.obj(v).kind == "list"
        if k == "listof":
            if isinstance(v, Ref) and st.obj(v).kind == "list":
                items = st.obj(v).get("items")
                if any(isinstance(x, Seg) for x in items) or len(items) != sort.arg2:
                    return False
                return And(*[self.result_conforms(st, sort.arg, x) for x in items])
            return False
        if k == "rows_upto":
            if isinstance(v, Tup):
                return len(v.items) <= sort.arg
            if isinstance(v, Ref) and st.obj(v).kind == "list":
                items = st.obj(v).get("items")
                return not any(isinstance(x, Seg) for x in items) and len(items) <= sort.arg
            return False
        if k == "adt":
            return isinstance(v, ADT) and v.family == sort.arg
        if k == "rec":
            return isinstance(v, Rec) and v.name == sort.arg
        if k in ("anyval", "anylist", "anyobj"):
            return True
        if k in self.reg.models and hasattr(self.reg.models[k], "conforms"):
            return self.reg.models[k].conforms(self, st, sort, v)
        return True

    def coerce_result(self, st: State, sort: Any, v: Any) -> Any:
        if sort.kind == "opt" and not isinstance(v, Opt):
            if v is None:
                return Opt(True, self.default_of(sort.arg))
            return Opt(False, v)
        if sort.kind != "opt" and isinstance(v, Opt):
            return v.val      # non-None-ness is a separate obligation (result-sort)
        return v

    def default_of(self, sort: Any) -> Any:
        k = sort.kind
        if k in ("int", "nat", "uint32", "enum"):
            return z3.IntVal(0)
        if k == "bool":
            return z3.BoolVal(False)
        if k == "str":
            return z3.StringVal("")
        return None

    # ------------------------------------------------------------------- loops
    def loop_cut(self, s: Any, st: State, ctx: Ctx, it: Any = None):  # type: ignore[override]
        from .loops import loop_cut
        return loop_cut(self, s, st, ctx, it)

    def make_generator(self, st, fi, args, kwargs, node, ctx):  # type: ignore[override]
        from .loops import make_generator
        return make_generator(self, st, fi, args, kwargs, node, ctx)

    def exec_yield(self, e, st, ctx):  # type: ignore[override]
        from .loops import exec_yield
        return exec_yield(self, e, st, ctx)
