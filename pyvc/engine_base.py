"""Engine base: obligations, feasibility, symbolic construction from sorts, truthiness/equality."""
from __future__ import annotations

import ast
import os
from dataclasses import dataclass, field
from typing import Any, Iterator

import z3

from . import values as V
from .contract import Contract, Registry, Sort
from .source import ClassInfo, FuncInfo, Module, Tree
from .state import ClauseError, Env, State, View
from .values import (ADT, And, BoundMethod, ClassVal, ExcVal, ExtVal, FuncVal, HObj, Implies, ModuleVal, Not, Opt, Or,
                     Raised, Rec, Ref, Seg, Tup, Unsupported, is_z3, to_z3)


@dataclass
class Obligation:
    func: str
    label: str
    kind: str                 # ensures | pre | raises | frame | invariant | safety | table | cover
    pc: tuple
    goal: Any
    line: int = 0
    serves: tuple = ()
    note: tuple = ()
    status: str = "open"      # proved | refuted | unknown | unsupported
    backend: str = ""
    ms: float = 0.0
    model: Any = None
    detail: str = ""
    ctx: Any = None           # replay context (initial symbolic bindings)

    @property
    def name(self) -> str:
        return f"{self.func}/{self.kind}.{self.label}"


class EngineBase:
    def __init__(self, tree: Tree, registry: Registry, proto: dict) -> None:
        self.tree = tree
        self.reg = registry
        self.proto = proto
        self.obligations: list[Obligation] = []
        self.unsupported: list[tuple[str, str]] = []
        self.inlined: set[str] = set()
        self.used_trusted: set[str] = set()
        self.used_models: set[str] = set()
        self.stmts_executed = 0
        self._ref = 0
        self._solver = z3.Solver()
        self._solver.set("timeout", int(os.environ.get("PYVC_FEAS_MS", "250")))
        self.cur_func = ""
        self.cur_serves: tuple = ()
        self.call_depth = 0
        self._adt_cache: dict[str, Any] = {}
        self.paths = 0

    # ------------------------------------------------------------ heap / refs
    def new_ref(self) -> Ref:
        self._ref += 1
        return Ref(self._ref)

    def alloc(self, st: State, kind: str, cls: Any, **fields: Any) -> tuple[State, Ref]:
        r = self.new_ref()
        return st.heap_put(r, HObj(kind, cls, tuple(fields.items()))), r

    # ------------------------------------------------------------ obligations
    def oblige(self, st: State, label: str, kind: str, goal: Any, node: Any = None, serves: tuple | None = None) -> None:
        if any(c is False for c in st.pc):
            # a literal False was assumed on this path (a contract clause that is structurally false where it was
            # applied): anything would be "proved" here. Such paths must have been pruned; this is a machinery error.
            raise Unsupported(f"obligation {label} on a path whose condition contains a literal False "
                              f"(contradictory assumption upstream; path {' '.join(st.note[-4:])})", node)
        if goal is True:
            # still count trivially true obligations (discharged syntactically)
            ob = Obligation(self.cur_func, label, kind, st.pc, True, getattr(node, "lineno", 0),
                            tuple(serves if serves is not None else self.cur_serves), st.note, status="proved",
                            backend="syntactic")
            self.obligations.append(ob)
            return
        if goal is False:
            goal = z3.BoolVal(False)
        ob = Obligation(self.cur_func, label + getattr(self, "cur_variant", ""), kind, st.pc, goal, getattr(node, "lineno", 0),
                        tuple(serves if serves is not None else self.cur_serves), st.note)
        self.obligations.append(ob)

    # ------------------------------------------------------------ feasibility
    def feasible(self, st: State, extra: Any = True) -> bool:
        """False only if pc /\\ extra is definitely unsatisfiable (quantifier-free part only).
        The solver is kept in sync with the path condition incrementally: exploration is depth first, so consecutive
        queries share long prefixes."""
        if extra is False:
            return False
        s = self._solver
        stack = self.__dict__.setdefault("_fe_stack", [])     # ids of the pc entries currently asserted (one push each)
        pc = st.pc
        n = 0
        while n < len(stack) and n < len(pc) and stack[n] == id(pc[n]):
            n += 1
        for _ in range(len(stack) - n):
            s.pop()
        del stack[n:]
        for c in pc[n:]:
            s.push()
            if is_z3(c) and not _has_quantifier(c):
                s.add(c)
            elif c is False:
                s.add(z3.BoolVal(False))
            stack.append(id(c))
        self.__dict__.setdefault("_fe_keep", []).append(pc)   # keep the tuples alive so ids stay unique
        if len(self._fe_keep) > 4000:
            del self._fe_keep[:2000]
        if extra is True:
            return s.check() != z3.unsat
        s.push()
        try:
            s.add(extra)
            return s.check() != z3.unsat
        finally:
            s.pop()

    def branch(self, st: State, cond: Any, note: str = "") -> Iterator[tuple[State, bool]]:
        if isinstance(cond, bool):
            yield st, cond
            return
        cond = z3.simplify(cond)
        if z3.is_true(cond):
            yield st, True
            return
        if z3.is_false(cond):
            yield st, False
            return
        ncond = z3.Not(cond)
        if self.feasible(st, cond):
            s1 = st.assume(cond)
            yield (s1.with_note(f"{note}=T") if note else s1), True
        if self.feasible(st, ncond):
            s2 = st.assume(ncond)
            yield (s2.with_note(f"{note}=F") if note else s2), False

    # ------------------------------------------------------------ truthiness
    def truth(self, st: State, v: Any, node: Any = None) -> Any:
        if v is None:
            return False
        if isinstance(v, bool):
            return v
        if isinstance(v, int):
            return v != 0
        if isinstance(v, (str, bytes)):
            return len(v) > 0
        if is_z3(v):
            if z3.is_bool(v):
                return v
            if z3.is_int(v):
                return v != 0
            if z3.is_string(v):
                return z3.Length(v) > 0
            raise Unsupported(f"truthiness of sort {v.sort()}", node)
        if isinstance(v, Opt):
            return And(Not(v.isnone), self.truth(st, v.val, node))
        if isinstance(v, Tup):
            return len(v.items) > 0
        if isinstance(v, Ref):
            o = st.obj(v)
            if o.kind in ("list", "userlist"):
                return self.list_len(st, v) > 0 if is_z3(self.list_len(st, v)) else self.list_len(st, v) > 0
            if o.kind == "msg":
                return True      # A-PROTO: message objects are truthy
            if o.kind == "repeated":
                n = o.get("len")
                return n > 0
            if o.kind == "od":
                return o.get("n") > 0
            if o.kind == "dict":
                n = o.get("n")
                return n > 0
            if o.kind == "bytes":
                return o.get("len") > 0
            if o.kind == "obj":
                cls = o.cls
                if isinstance(cls, ClassInfo):
                    if cls.find_method("__bool__") or cls.find_method("__len__"):
                        raise Unsupported(f"truthiness of {cls.name} with __bool__/__len__", node)
                    for ext in cls.external_bases():
                        model = self.reg.models.get("base:" + ext)
                        if model is not None and hasattr(model, "truth"):
                            return model.truth(self, st, v)
                return True
            if o.kind in ("iter", "gen", "thunk", "cell", "opaque", "io"):
                return True
            model = self.reg.models.get(o.kind)
            if model is not None and hasattr(model, "truth"):
                return model.truth(self, st, v)
            raise Unsupported(f"truthiness of heap kind {o.kind}", node)
        if isinstance(v, (ClassVal, FuncVal, BoundMethod, ModuleVal, ExtVal)):
            return True
        if isinstance(v, ADT):
            fam = self.reg.adts.get(v.family)
            if fam is not None and getattr(fam, "truth", None):
                return fam.truth(v.expr)
            return True
        if isinstance(v, Rec):
            return True
        raise Unsupported(f"truthiness of {type(v).__name__}", node)

    def list_len(self, st: State, r: Ref) -> Any:
        o = st.obj(r)
        n: Any = 0
        for it in o.get("items"):
            if isinstance(it, Seg):
                n = n + V.seg_len(it.const)
            else:
                n = n + 1
        return n

    # -------------------------------------------------------------- equality
    def equal(self, st: State, a: Any, b: Any, node: Any = None) -> Any:
        """Python `a == b` for supported value kinds (no user __eq__ dispatch here; see engine.compare)."""
        if a is None or b is None:
            if a is None and b is None:
                return True
            other = b if a is None else a
            if isinstance(other, Opt):
                return other.isnone
            return False
        if isinstance(a, Opt) or isinstance(b, Opt):
            if isinstance(a, Opt) and isinstance(b, Opt):
                return Or(And(a.isnone, b.isnone), And(Not(a.isnone), Not(b.isnone), self.equal(st, a.val, b.val, node)))
            o, x = (a, b) if isinstance(a, Opt) else (b, a)
            return And(Not(o.isnone), self.equal(st, o.val, x, node))
        if isinstance(a, (bool, int, str, bytes)) and isinstance(b, (bool, int, str, bytes)):
            return a == b
        if (is_z3(a) or isinstance(a, (bool, int, str))) and (is_z3(b) or isinstance(b, (bool, int, str))):
            za, zb = to_z3(a), to_z3(b)
            if za.sort() != zb.sort():
                if {str(za.sort()), str(zb.sort())} == {"Int", "Bool"}:
                    zi = za if z3.is_int(za) else zb
                    zbo = zb if z3.is_int(za) else za
                    return zi == z3.If(zbo, 1, 0)
                return False
            return za == zb
        if isinstance(a, Tup) and isinstance(b, Tup):
            if len(a.items) != len(b.items):
                return False
            return And(*[self.equal(st, x, y, node) for x, y in zip(a.items, b.items)])
        if isinstance(a, Rec) and isinstance(b, Rec):
            if a.name != b.name:
                return False
            return And(*[self.equal(st, a.get(k), b.get(k), node) for k, _ in a.fields])
        if isinstance(a, ADT) and isinstance(b, ADT):
            if a.family != b.family:
                return False
            fam = self.reg.adts.get(a.family)
            if fam is not None and getattr(fam, "py_eq", None):
                return fam.py_eq(a.expr, b.expr)
            return a.expr == b.expr
        if isinstance(a, Ref) and isinstance(b, Ref):
            if a == b:
                return True
            oa, ob = st.obj(a), st.obj(b)
            if oa.kind == "msg" and ob.kind == "msg":
                return self.msg_equal(st, a, b)
            if oa.kind == "obj" and ob.kind == "obj":
                # default object equality is identity; distinct refs denote distinct objects
                ca = oa.cls
                if isinstance(ca, ClassInfo) and ca.find_method("__eq__"):
                    raise Unsupported(f"== on {ca.name} with user __eq__", node)
                return False
            raise Unsupported(f"== on heap kinds {oa.kind}/{ob.kind}", node)
        if isinstance(a, (ClassVal, FuncVal, ExtVal, ModuleVal)) or isinstance(b, (ClassVal, FuncVal, ExtVal, ModuleVal)):
            return a == b
        if type(a) != type(b):
            # values of different Python kinds: not equal (int/str/tuple/object)
            simple = (bool, int, str, Tup, Ref, ADT, Rec)
            if isinstance(a, simple) or is_z3(a):
                if isinstance(b, simple) or is_z3(b):
                    return False
        raise Unsupported(f"== between {type(a).__name__} and {type(b).__name__}", node)

    def msg_equal(self, st: State, a: Ref, b: Ref) -> Any:
        raise Unsupported("message equality")

    # -------------------------------------------------- symbolic construction
    def make(self, st: State, sort: Sort, name: str) -> tuple[State, Any, list]:
        """Fresh symbolic value of `sort`; returns (state, value, type-invariant assumptions)."""
        k = sort.kind
        if k == "int":
            return st, V.fresh_int(name), []
        if k == "nat":
            x = V.fresh_int(name)
            return st, x, [x >= 0]
        if k == "uint32":
            x = V.fresh_int(name)
            return st, x, [x >= 0, x < 2 ** 32]
        if k == "bool":
            return st, V.fresh_bool(name), []
        if k == "str":
            return st, V.fresh_str(name), []
        if k == "none":
            return st, None, []
        if k == "const":
            return st, sort.arg, []
        if k == "classref":
            return st, ClassVal(self.tree.get_class(sort.arg)), []      # the class object itself (cls of a classmethod)
        if k == "enum":
            x = V.fresh_int(name)
            return st, x, []
        if k == "opt":
            st, v, inv = self.make(st, sort.arg, name)
            isn = V.fresh_bool(name + "_isnone")
            return st, Opt(isn, v), [Implies(Not(isn), c) for c in inv]
        if k == "arr":
            return st, V.fresh_of_sort(name, z3.ArraySort(self.z3sort(sort.arg), self.z3sort(sort.arg2))), []
        if k == "rec":
            rs = self.reg.recs[sort.arg]
            fields = []
            invs: list = []
            for fn, fs in rs.fields.items():
                st, v, inv = self.make(st, fs, f"{name}.{fn}")
                fields.append((fn, v))
                invs += inv
            return st, Rec(sort.arg, tuple(fields)), invs
        if k == "ntup":
            items = []
            invs = []
            for i, s in enumerate(sort.arg2):
                st, v, inv = self.make(st, s, f"{name}[{i}]")
                items.append(v)
                invs += inv
            return st, Tup(tuple(items), self.tree.get_class(sort.arg)), invs
        if k == "tup":
            items = []
            invs = []
            for i, s in enumerate(sort.arg):
                st, v, inv = self.make(st, s, f"{name}[{i}]")
                items.append(v)
                invs += inv
            return st, Tup(tuple(items)), invs
        if k == "listof":
            items = []
            invs = []
            for i in range(sort.arg2):
                st, v, inv = self.make(st, sort.arg, f"{name}[{i}]")
                items.append(v)
                invs += inv
            st, r = self.alloc(st, "list", None, items=tuple(items))
            return st, r, invs
        if k == "frame0":
            # an RdfStreamFrame without rows
            st, fr, invs = self.make_msg(st, "RdfStreamFrame", name)
            lst = st.obj(fr).get("rows")
            return st.heap_set(lst, "items", ()), fr, list(invs)
        if k == "frame1":
            # an RdfStreamFrame whose row list starts with one (symbolic) row followed by an opaque rest
            st, fr, invs = self.make_msg(st, "RdfStreamFrame", name)
            st, row, inv2 = self.make_msg(st, "RdfStreamRow", name + ".rows0")
            lst = st.obj(fr).get("rows")
            st = st.heap_set(lst, "items", (row,) + st.obj(lst).get("items"))
            known = []
            if sort.arg == "parsed":
                # A-IO-ENUM: a frame that came out of the wire parser; the stream-type fields of its options row hold
                # values of the enums (other integers are C17's subject)
                opts = st.obj(row).get("options")
                if isinstance(opts, Ref):
                    for fld, enum in (("physical_type", "PhysicalStreamType"), ("logical_type", "LogicalStreamType")):
                        vals = sorted(set(self.proto["enums"][enum].values()))
                        known.append(z3.Or(*[V.to_z3(st.obj(opts).get(fld)) == v for v in vals]))
            return st, fr, list(invs) + list(inv2) + known
        if k == "iter":
            items = []
            invs = []
            for i in range(sort.arg2):
                st, v, inv = self.make(st, sort.arg, f"{name}[{i}]")
                items.append(v)
                invs += inv
            st, r = self.alloc(st, "iter", None, items=tuple(items), pos=0)
            return st, r, invs
        if k == "rows_exact":
            items = []
            invs = []
            for i in range(sort.arg):
                st, r, inv = self.make_msg(st, "RdfStreamRow", f"{name}{i}")
                items.append(r)
                invs += list(inv)
            st, lr = self.alloc(st, "list", None, items=tuple(items))
            return st, lr, invs
        if k == "rows":
            seg = Seg(V.fresh_of_sort(name, V.SegSort), name)
            st, r = self.alloc(st, "list", None, items=(seg,))
            return st, r, [V.seg_len(seg.const) >= 0]
        if k == "anyobj":
            raise Unsupported("a result of sort `anyobj` can only be checked, not assumed (inline_at_calls contracts)")
        if k == "any":
            st, r = self.alloc(st, "opaque", None, id=V.fresh_int(name))
            return st, r, []
        if k == "adt":
            fam = self.reg.adts[sort.arg]
            x = V.fresh_of_sort(name, fam.sort)
            inv = fam.invariant(x) if getattr(fam, "invariant", None) else []
            if callable(sort.arg2):
                inv = list(inv) + [sort.arg2(x)]      # refinement: e.g. "an IRI" among the generic terms
            return st, ADT(x, sort.arg), list(inv)
        if k == "kwargs":
            # a **kwargs parameter: a dictionary with exactly the declared keys (sort.arg: name -> Sort); forwarded with **
            items, invs = [], []
            for kname, ks in (sort.arg or {}).items():
                st, v, inv = self.make(st, ks, f"{name}[{kname}]")
                items.append((kname, v))
                invs += inv
            st, r = self.alloc(st, "kwargs", None, items=tuple(items))
            return st, r, invs
        if k in self.reg.models:
            return self.reg.models[k].make(self, st, sort, name)
        if k == "obj":
            return self.make_obj(st, sort.arg, name)
        if k == "msg":
            return self.make_msg(st, sort.arg, name)
        raise Unsupported(f"cannot build symbolic value of sort {sort}")

    def z3sort(self, sort: Sort) -> z3.SortRef:
        k = sort.kind
        if k in ("int", "nat", "uint32", "enum"):
            return V.IntSort
        if k == "bool":
            return V.BoolSort
        if k == "str":
            return V.StrSort
        if k == "arr":
            return z3.ArraySort(self.z3sort(sort.arg), self.z3sort(sort.arg2))
        if k == "adt":
            return self.reg.adts[sort.arg].sort
        raise Unsupported(f"no z3 sort for {sort}")

    def make_obj(self, st: State, key: str, name: str) -> tuple[State, Any, list]:
        shape = self.reg.shapes.get(key)
        if shape is None:
            raise Unsupported(f"no shape declared for class {key}")
        ckey = key.split("@")[0]      # "<module>:<Class>@<variant>": a second shape for the same class
        cls = self.tree.get_class(ckey) if ":" in ckey and ckey.split(":")[0] in self.tree.modules else ckey
        fields: dict[str, Any] = {}
        invs: list = []
        for fn, fs in list(shape.fields.items()) + list(shape.ghost.items()):
            st, v, inv = self.make(st, fs, f"{name}.{fn}")
            fields[fn] = v
            invs += inv
        st, r = self.alloc(st, "obj", cls, **fields)
        if shape.invariant is not None:
            env = Env(self, st, {"self": r})
            inv = shape.invariant(env.self)
            invs += _aslist(inv)
        return st, r, invs

    def make_msg(self, st: State, name: str, base: str) -> tuple[State, Any, list]:
        raise Unsupported("protobuf messages not available in this engine build")

    def fresh_like(self, st: State, v: Any, name: str) -> tuple[State, Any]:
        """Havoc: a fresh value of the same shape as v."""
        if v is None or isinstance(v, (ClassVal, FuncVal, ExtVal, ModuleVal)):
            return st, v
        if isinstance(v, bool):
            return st, V.fresh_bool(name)
        if isinstance(v, int):
            return st, V.fresh_int(name)
        if isinstance(v, str):
            return st, V.fresh_str(name)
        if is_z3(v):
            return st, V.fresh_of_sort(name, v.sort())
        if isinstance(v, Opt):
            st, x = self.fresh_like(st, v.val, name)
            return st, Opt(V.fresh_bool(name + "_isnone"), x)
        if isinstance(v, Rec):
            out = []
            for k, x in v.fields:
                st, y = self.fresh_like(st, x, f"{name}.{k}")
                out.append((k, y))
            return st, Rec(v.name, tuple(out))
        if isinstance(v, Tup):
            out2 = []
            for i, x in enumerate(v.items):
                st, y = self.fresh_like(st, x, f"{name}[{i}]")
                out2.append(y)
            return st, Tup(tuple(out2), v.cls)
        if isinstance(v, ADT):
            return st, ADT(V.fresh_of_sort(name, v.expr.sort()), v.family)
        if isinstance(v, Ref):
            # havoc the object in place (identity is preserved)
            st = self.havoc_obj(st, v, name)
            return st, v
        raise Unsupported(f"cannot havoc {type(v).__name__}")

    def havoc_obj(self, st: State, r: Ref, name: str) -> State:
        o = st.obj(r)
        if o.kind == "msg":
            return self.protomodel.havoc(self, st, r, name)
        mdl = self.reg.models.get(o.kind)
        if mdl is not None and hasattr(mdl, "havoc"):
            return mdl.havoc(self, st, r, name)
        if o.kind == "iter":
            return st        # position changes are declared with `advances`
        if o.kind == "list":
            items = o.get("items")
            if items and not any(isinstance(x, Seg) for x in items) and not any(isinstance(x, Ref) for x in items):
                # a list of fixed shape (e.g. the four remembered terms): same length, every element unknown
                new = []
                for i, x in enumerate(items):
                    if x is None:
                        x = Opt(True, None)
                    st, y = self.fresh_like(st, x, f"{name}[{i}]")
                    new.append(y)
                return st.heap_put(r, o.set("items", tuple(new)))
            seg = Seg(V.fresh_of_sort(name, V.SegSort), name)
            st = st.assume(V.seg_len(seg.const) >= 0)
            return st.heap_put(r, o.set("items", (seg,)))
        for k, x in o.fields:
            if k.startswith("$"):
                continue
            st, y = self.fresh_like(st, x, f"{name}.{k}")
            st = st.heap_set(r, k, y)
        model = self.reg.models.get(o.kind)
        if model is not None and getattr(model, "invariant", None):
            st = st.assume(*model.invariant(self, st, r))
        return st

    # ---------------------------------------------------------------- clauses
    def eval_clause_dict(self, fn: Any, env: Env) -> dict[str, Any]:
        if fn is None:
            return {}
        try:
            r = fn(env)
        except (z3.Z3Exception, TypeError, AttributeError, IndexError) as ex:
            # the state has values of another kind than the clause talks about (e.g. a message where a term is expected)
            raise ClauseError(f"ill-typed for this state: {type(ex).__name__}: {str(ex)[:120]}") from ex
        if r is None:
            return {}
        if isinstance(r, dict):
            return {k: And(*_aslist(v)) for k, v in r.items()}
        return {"_": And(*_aslist(r))}

    def eval_class_attr(self, cls: ClassInfo, expr: ast.expr) -> Any:
        raise NotImplementedError


def _aslist(x: Any) -> list:
    if x is None:
        return []
    if isinstance(x, (list, tuple)):
        out = []
        for y in x:
            out += _aslist(y)
        return out
    return [x]


def _has_quantifier(e: z3.ExprRef) -> bool:
    seen = set()
    stack = [e]
    while stack:
        x = stack.pop()
        if z3.is_quantifier(x):
            return True
        i = x.get_id()
        if i in seen:
            continue
        seen.add(i)
        if z3.is_app(x):
            stack.extend(x.children())
    return False
