"""Calls: contracts at call sites, inlining, constructors, builtins."""
from __future__ import annotations

import ast
import os
from typing import Any, Iterator

import z3

from . import values as V
from .contract import Contract, Sort
from .engine_expr import Ctx, Res, _kind, bind
from .engine_base import _has_quantifier as _hq
from .engine_stmt import NORMAL, Out, StmtMixin
from .source import ClassInfo, FuncInfo
from .state import ClauseError, Env, State
from .values import (ADT, And, BoundMethod, BuiltinMethod, ClassVal, ExcVal, ExtVal, FuncVal, HObj, Implies, ModuleVal,
                     Not, Opt, Or, Raised, Rec, Ref, Seg, Tup, Unsupported, exc_is_a, is_z3, to_z3)

MAX_INLINE_DEPTH = 12


class CallMixin(StmtMixin):
    # --------------------------------------------------------------- eval_Call
    def eval_Call(self, e: ast.Call, st: State, ctx: Ctx) -> Res:
        # super().m(...)
        if isinstance(e.func, ast.Attribute) and isinstance(e.func.value, ast.Call) \
                and isinstance(e.func.value.func, ast.Name) and e.func.value.func.id == "super" \
                and "super" not in st.locals:
            yield from self.call_super(e, st, ctx)
            return
        for st1, f in self.eval(e.func, st, ctx):
            if isinstance(f, Raised):
                yield st1, f
                continue
            yield from self.eval_args_then(e, st1, ctx, lambda st2, a, k: self.call_value(st2, f, a, k, e, ctx))

    def eval_args_then(self, e: ast.Call, st: State, ctx: Ctx, k: Any) -> Res:
        pos_exprs = e.args
        if any(isinstance(a, ast.Starred) for a in pos_exprs):
            # f(*xs): xs must be completely iterable
            yield from self._starred_call(e, st, ctx, k)
            return
        kw_named = [kw for kw in e.keywords if kw.arg is not None]
        kw_star = [kw for kw in e.keywords if kw.arg is None]
        exprs = list(pos_exprs) + [kw.value for kw in kw_named] + [kw.value for kw in kw_star]
        for st1, vs in self.evals(exprs, st, ctx):
            if isinstance(vs, Raised):
                yield st1, vs
                continue
            args = vs[: len(pos_exprs)]
            kwargs = {kw.arg: v for kw, v in zip(kw_named, vs[len(pos_exprs):])}
            ok = True
            for v in vs[len(pos_exprs) + len(kw_named):]:
                if isinstance(v, Ref) and st1.obj(v).kind == "pydict":
                    o = st1.obj(v)
                    kwargs.update(dict(zip(o.get("keys"), o.get("vals"))))
                elif isinstance(v, Ref) and st1.obj(v).kind == "kwargs":
                    kwargs.update(dict(st1.obj(v).get("items")))
                else:
                    ok = False
            if not ok:
                raise Unsupported("** argument that is not a literal dict / forwarded kwargs", e)
            yield from k(st1, args, kwargs)

    def _starred_call(self, e: ast.Call, st: State, ctx: Ctx, k: Any) -> Res:
        def go(st: State, i: int, acc: list) -> Res:
            if i == len(e.args):
                kw_named = [kw for kw in e.keywords if kw.arg is not None]
                if len(kw_named) != len(e.keywords):
                    raise Unsupported("* and ** together", e)
                for st1, vs in self.evals([kw.value for kw in kw_named], st, ctx):
                    if isinstance(vs, Raised):
                        yield st1, vs
                    else:
                        yield from k(st1, acc, {kw.arg: v for kw, v in zip(kw_named, vs)})
                return
            a = e.args[i]
            if isinstance(a, ast.Starred):
                for st1, v in self.eval(a.value, st, ctx):
                    if isinstance(v, Raised):
                        yield st1, v
                        continue
                    for st2, items in self.iterate_all(st1, v, a):
                        if isinstance(items, Raised):
                            yield st2, items
                        elif any(isinstance(x, Seg) for x in items):
                            raise Unsupported("f(*xs) with xs of unknown length", e)
                        else:
                            yield from go(st2, i + 1, acc + list(items))
            else:
                for st1, v in self.eval(a, st, ctx):
                    if isinstance(v, Raised):
                        yield st1, v
                    else:
                        yield from go(st1, i + 1, acc + [v])
        yield from go(st, 0, [])

    def call_super(self, e: ast.Call, st: State, ctx: Ctx) -> Res:
        if ctx.cls is None or "self" not in st.locals and "cls" not in st.locals:
            raise Unsupported("super() outside method", e)
        name = e.func.attr  # type: ignore[attr-defined]
        recv = st.locals.get("self", st.locals.get("cls"))
        mro = ctx.cls.mro()
        target = None
        ext = None
        for c in mro[1:]:
            if isinstance(c, ClassInfo) and name in c.methods:
                target = c.methods[name]
                break
            if isinstance(c, str):
                ext = c
                break
        if target is not None:
            yield from self.eval_args_then(e, st, ctx, lambda st2, a, k: self.call_function(st2, target, [recv] + a, k, e, ctx))
            return
        if ext is not None:
            model = self.reg.models.get("base:" + ext)
            if model is not None:
                yield from self.eval_args_then(e, st, ctx, lambda st2, a, k: model.call_method(self, st2, recv, name, a, k, e, ctx))
                return
            if ext in ("object", "ABC", "Exception") or name == "__init__":
                if ext in ("object", "ABC", "Generic", "Protocol", "Exception"):
                    yield from self.eval_args_then(e, st, ctx, lambda st2, a, k: iter([(st2, None)]))
                    return
        if name == "__init__":   # object.__init__
            yield from self.eval_args_then(e, st, ctx, lambda st2, a, k: iter([(st2, None)]))
            return
        raise Unsupported(f"super().{name} not resolvable", e)

    # -------------------------------------------------------------- call_value
    def call_value(self, st: State, f: Any, args: list, kwargs: dict, node: Any, ctx: Ctx) -> Res:
        if isinstance(f, FuncVal):
            yield from self.call_function(st, f.info, args, kwargs, node, ctx)
        elif isinstance(f, BoundMethod):
            yield from self.call_function(st, f.info, [f.recv] + args, kwargs, node, ctx)
        elif isinstance(f, ClassVal):
            yield from self.construct(st, f.info, args, kwargs, node, ctx)
        elif isinstance(f, ExtVal):
            yield from self.call_external(st, f.name, args, kwargs, node, ctx)
        elif isinstance(f, BuiltinMethod):
            yield from self.call_builtin_method(st, f.recv, f.name, args, kwargs, node, ctx)
        elif isinstance(f, Ref) and st.obj(f).kind == "lambda":
            yield from self.call_lambda(st, f, args, kwargs, node, ctx)
        elif isinstance(f, Ref):
            model = self.reg.models.get(st.obj(f).kind)
            if model is not None and hasattr(model, "call"):
                yield from model.call(self, st, f, args, kwargs, node, ctx)
            else:
                raise Unsupported(f"call of heap kind {st.obj(f).kind}", node)
        else:
            raise Unsupported(f"call of {_kind(f)}", node)

    def call_lambda(self, st: State, f: Ref, args: list, kwargs: dict, node: Any, ctx: Ctx) -> Res:
        o = st.obj(f)
        lam: ast.Lambda = o.get("node")
        if kwargs or len(args) != len(lam.args.args):
            raise Unsupported("lambda call with keywords/arity mismatch", node)
        saved = st.locals
        loc = dict(o.get("closure", {}) or {})
        for a, v in zip(lam.args.args, args):
            loc[a.arg] = v
        for st1, v in self.eval(lam.body, st.with_locals(loc), Ctx(o.get("module"))):
            yield st1.with_locals(saved), v

    # ----------------------------------------------------------- find contract
    def find_contract(self, fi: FuncInfo) -> Contract | None:
        c = self.reg.contracts.get(fi.key)
        if c is not None:
            return c
        if fi.cls is not None:
            name = fi.node.name
            for base in fi.cls.mro()[1:]:
                if isinstance(base, ClassInfo) and name in base.methods:
                    c = self.reg.contracts.get(base.methods[name].key)
                    if c is not None and getattr(c, "virtual", False):
                        return c
        return None

    # ------------------------------------------------------------ bind params
    def bind_params(self, st: State, fi: FuncInfo, args: list, kwargs: dict, node: Any) -> tuple[State, dict[str, Any]]:
        a = fi.node.args
        params = [p.arg for p in a.posonlyargs + a.args]
        binds: dict[str, Any] = {}
        if len(args) > len(params) and a.vararg is None:
            raise Unsupported(f"too many positional arguments for {fi.key}", node)
        for p, v in zip(params, args):
            binds[p] = v
        extra_pos = args[len(params):]
        if a.vararg is not None:
            binds[a.vararg.arg] = Tup(tuple(extra_pos))
        kwonly = [p.arg for p in a.kwonlyargs]
        extra_kw = {}
        for k, v in kwargs.items():
            if k in params or k in kwonly:
                if k in binds:
                    raise Unsupported(f"multiple values for {k}", node)
                binds[k] = v
            elif a.kwarg is not None:
                extra_kw[k] = v
            else:
                raise Unsupported(f"unexpected keyword {k} for {fi.key}", node)
        if a.kwarg is not None:
            st, r = self.alloc(st, "kwargs", None, items=tuple(extra_kw.items()))
            binds[a.kwarg.arg] = r
        # defaults
        defaults = a.defaults
        dparams = params[len(params) - len(defaults):] if defaults else []
        mctx = Ctx(fi.module, fi, fi.cls)
        for p, d in zip(dparams, defaults):
            if p not in binds:
                st, binds[p] = self.eval_default(st, d, mctx)
        for p, d in zip(a.kwonlyargs, a.kw_defaults):
            if p.arg not in binds:
                if d is None:
                    raise Unsupported(f"missing keyword-only argument {p.arg} for {fi.key}", node)
                st, binds[p.arg] = self.eval_default(st, d, mctx)
        for p in params:
            if p not in binds:
                raise Unsupported(f"missing argument {p} for {fi.key}", node)
        return st, binds

    def eval_default(self, st: State, d: ast.expr, mctx: Ctx) -> tuple[State, Any]:
        res = list(self.eval(d, st.with_locals({}), mctx))
        if len(res) != 1 or isinstance(res[0][1], Raised):
            raise Unsupported("default argument too complex", d)
        st1, v = res[0]
        return st1.with_locals(st.locals), v

    # ----------------------------------------------------------- call_function
    def call_function(self, st: State, fi: FuncInfo, args: list, kwargs: dict, node: Any, ctx: Ctx) -> Res:
        # functools.singledispatch: the implementation registered for the most specific class of the first argument
        regs = fi.module.registrations.get(fi.key.split(":")[-1]) if "singledispatch" in (fi.decorators or []) else None
        if regs and args and isinstance(args[0], Ref) and st.obj(args[0]).kind == "obj" and isinstance(st.obj(args[0]).cls, ClassInfo):
            mro = st.obj(args[0]).cls.mro()
            best = None
            for cexpr, impl in regs:
                cv = self.eval_const_expr(cexpr, fi.module, node)
                if isinstance(cv, ClassVal) and cv.info in mro:
                    rank = mro.index(cv.info)
                    if best is None or rank < best[0]:
                        best = (rank, impl)
            if best is not None:
                yield from self.call_function(st, best[1], args, kwargs, node, ctx)
                return
        # dynamic dispatch on the receiver's class where it is known
        c = self.find_contract(fi)
        if fi.is_generator:
            # nothing runs at the call: the body (or its contract) takes effect where the generator is consumed
            yield from self.make_generator(st, fi, args, kwargs, node, ctx)
            return
        if c is not None and not c.inline and not c.inline_at_calls:
            st, binds = self.bind_params(st, fi, args, kwargs, node)
            yield from self.apply_contract(st, c, binds, node, fi)
            return
        allowed = (c is not None and (c.inline or c.inline_at_calls)) or fi.key in self.inline_ok or fi.key in self.reg.inline or self.inline_all
        if not allowed:
            # a function the contracts do not know (e.g. a helper a change has just introduced): its real body is executed
            # in place when it is small and not a generator - exact, and listed in the evidence as inlined
            body = [b for b in fi.node.body if not (isinstance(b, ast.Expr) and isinstance(b.value, ast.Constant))]
            if fi.is_generator or len(body) > 25 or self.call_depth > 4:
                raise Unsupported(f"call to {fi.key}, which has no contract (and is not marked inline)", node)
        yield from self.inline_call(st, fi, args, kwargs, node)

    verifying_body_of = ""
    inline_ok: set = set()
    inline_all = False

    def inline_call(self, st: State, fi: FuncInfo, args: list, kwargs: dict, node: Any) -> Res:
        if self.call_depth > MAX_INLINE_DEPTH:
            raise Unsupported(f"inline depth exceeded at {fi.key}", node)
        self.inlined.add(fi.key)
        st, binds = self.bind_params(st, fi, args, kwargs, node)
        saved = st.locals
        cctx = Ctx(fi.module, fi, fi.cls)
        self.call_depth += 1
        try:
            results = list(self.exec_block(fi.node.body, st.with_locals(binds), cctx))
        finally:
            self.call_depth -= 1
        for st1, out in results:
            st1 = st1.with_locals(saved)
            if out[0] == "return":
                yield st1, out[1]
            elif out[0] == "normal":
                yield st1, None
            elif out[0] == "raise":
                yield st1, Raised(out[1])
            else:
                raise Unsupported(f"{out[0]} escaping function {fi.key}", node)

    def make_generator(self, st: State, fi: FuncInfo, args: list, kwargs: dict, node: Any, ctx: Ctx) -> Res:
        raise Unsupported(f"call of generator function {fi.key} (generator support not loaded)", node)

    # ---------------------------------------------------------- apply_contract
    def apply_contract(self, st: State, c: Contract, binds: dict[str, Any], node: Any, fi: FuncInfo | None = None) -> Res:
        """the contract of a callee at a call site; a contract that admits *no* outcome in a reachable state is
        contradictory there and would make everything after the call vacuously provable: reported, never silent"""
        n = 0
        pre_ok = [True]
        for r in self._apply_contract(st, c, binds, node, fi, pre_ok):
            n += 1
            yield r
        if n == 0 and pre_ok[0]:
            raise Unsupported(f"the contract of {c.key} admits no outcome at this call site although the state before the "
                              f"call is reachable (contradictory contract clauses here)", node)

    def _apply_contract(self, st: State, c: Contract, binds: dict[str, Any], node: Any, fi: FuncInfo | None, pre_ok: list) -> Res:
        if c.trusted:
            self.used_trusted.add(c.key)
        line = getattr(node, "lineno", 0)
        binds = dict(binds)
        for p, sort in c.params.items():
            v = binds.get(p)
            if isinstance(v, Opt) and sort.kind != "opt":
                if self.feasible(st, V.bool_z3(v.isnone)):
                    raise Unsupported(f"possibly-None value passed to {c.key} parameter {p}", node)
                binds[p] = v.val
            elif sort.kind == "opt" and not isinstance(v, Opt) and p in binds:
                binds[p] = Opt(True, self.default_of(sort.arg)) if v is None else Opt(False, v)
            elif sort.kind == "str" and isinstance(v, ADT) and hasattr(self.reg.adts[v.family], "as_str"):
                # an object of a str subclass (rdflib URIRef/BNode) handed to a str parameter: its string value
                sv = self.reg.adts[v.family].as_str(self, st, v)
                if sv is None:
                    raise Unsupported(f"term object passed to str parameter {p} of {c.key}", node)
                binds[p] = sv
        env = Env(self, st, binds)
        # parameter sorts: type invariants are obligations at the call site
        for p, sort in c.params.items():
            if p not in binds:
                continue
            inv = self.sort_invariant(st, sort, binds[p], node)
            if inv is not True:
                self.oblige(st, f"{c.key}.arg.{p}", "pre", inv, node)
        try:
            pre = self.eval_clause_dict(c.requires, env)
        except ClauseError as ex:
            raise Unsupported(f"precondition of {c.key} not evaluable at call site: {ex}", node) from ex
        for lab, g in pre.items():
            self.oblige(st, f"{c.key}.{lab}", "pre", g, node)
        st = st.assume(*[g for g in pre.values()])
        pre_ok[0] = not any(g is False for g in pre.values()) and self.feasible(st)
        env.st = st
        env.snapshot_old()
        raises = c.raises(env) if c.raises else {}
        conds = []
        for names, cond in raises.items():
            names_t = names if isinstance(names, tuple) else (names,)
            cond = And(*_aslist(cond))
            may = bool(names_t) and names_t[0] == "?"
            if may:
                names_t = names_t[1:]
            else:
                conds.append(cond)
            if cond is False:
                continue
            cz = cond if cond is True else z3.simplify(cond)
            if cz is not True and z3.is_false(cz):
                continue
            if self.feasible(st, cz if cz is not True else True):
                st_r = st.assume(cz).with_note(f"L{line}:{c.key.split(':')[-1]} raises {names_t[0]}")
                if c.on_raise is not None:
                    env_r = Env(self, st_r, binds)
                    env_r.snapshot_old()
                    st_r2 = self.havoc_paths(st_r, c, binds)
                    env_r.st = st_r2
                    for st_rc, _lab in self.apply_list_cases(st_r2, c, c.lists_on_raise, env_r, binds, None, node):
                        env_rc = Env(self, st_rc, binds)
                        object.__setattr__(env_rc, "_old_heap", env_r._old_heap)
                        object.__setattr__(env_rc, "_old_binds", env_r._old_binds)
                        post = self.eval_clause_dict(c.on_raise, env_rc)
                        post = {k: v for k, v in post.items() if not any(k.endswith(suf) for suf in c.tag_suffix)}
                        yield env_rc.st.assume(*post.values()), Raised(ExcVal(names_t[0]))
                    continue
                yield st_r, Raised(ExcVal(names_t[0]))
        st_n = st.assume(*[Not(cd) for cd in conds if cd is not False])
        if conds and not self.feasible(st_n):
            return
        if c.case_split is not None:
            cases = c.case_split(env)
            # the cases must be exhaustive: otherwise forking on them would lose behaviours
            self.oblige(st_n, f"{c.key}.case-split-exhaustive", "pre", Or(*cases.values()), node)
            for lab, cond in cases.items():
                if self.feasible(st_n, cond if cond is not True else True):
                    yield from self._apply_normal(st_n.assume(cond).with_note(f"L{line}:{lab}"), c, binds, env, node, line)
            return
        yield from self._apply_normal(st_n, c, binds, env, node, line)

    def _apply_normal(self, st_n: State, c: Contract, binds: dict, env: Env, node: Any, line: int) -> Res:
        st_h = self.havoc_paths(st_n, c, binds)
        for ip, k in c.advances.items():
            iv = binds.get(ip)
            if isinstance(iv, Ref) and st_h.obj(iv).kind == "iter":
                st_h = st_h.heap_set(iv, "pos", st_h.obj(iv).get("pos") + k)
        for tp in c.touches:
            tv = binds.get(tp)
            if isinstance(tv, Ref) and st_h.obj(tv).kind == "msg":
                st_h = self.protomodel.touch(st_h, tv)
        rsort = c.result(env) if callable(c.result) else c.result
        alts = self.result_alternatives(rsort) if rsort is not None else [None]
        for alt in alts:
            st_n = st_h
            res: Any = None
            if alt is not None:
                st_n, res, inv = self.make(st_n, alt, f"ret_{c.key.split(':')[-1].split('.')[-1]}")
                st_n = st_n.assume(*inv)
            env_a = Env(self, st_n, binds)
            object.__setattr__(env_a, "_old_heap", env._old_heap)
            object.__setattr__(env_a, "_old_binds", env._old_binds)
            env_a.set_result(res)
            if c.ghost_exit is not None:
                c.ghost_exit(env_a)
            if c.aliases is not None:
                from .state import unwrap
                st_x = env_a.st
                for path, val in c.aliases(env_a).items():
                    parts = path.split(".")
                    cur = res if parts[0] == "result" else binds.get(parts[0])
                    for p_ in parts[1:-1]:
                        cur = st_x.obj(cur).get(p_)
                    if not isinstance(cur, Ref):
                        raise Unsupported(f"aliases path {path} of {c.key}: owner is not an object here", node)
                    val = unwrap(val)
                    st_x = st_x.heap_set(cur, parts[-1], Opt(val.isnone, unwrap(val.val)) if isinstance(val, Opt) else val)
                env_a.st = st_x
            for st_c, clabel in self.apply_list_cases(env_a.st, c, c.lists, env_a, binds, res, node):
                env_c = Env(self, st_c, binds)
                object.__setattr__(env_c, "_old_heap", env._old_heap)
                object.__setattr__(env_c, "_old_binds", env._old_binds)
                env_c.set_result(res)
                post = self.eval_clause_dict(c.ensures, env_c)
                # clauses carrying a tag suffix state a property over a region where it is *not* established for the
                # callee (listed known findings); callers must not build on them
                post = {k: v for k, v in post.items() if not any(k.endswith(suf) for suf in c.tag_suffix)}
                if any(v is False for v in post.values()):
                    continue          # this alternative / case is excluded by the contract itself
                st_a = env_c.st.assume(*post.values())
                if not self.feasible(st_a):
                    continue
                if len(alts) > 1 or clabel:
                    st_a = st_a.with_note(f"L{line}:{c.key.split('.')[-1]}#{clabel or alts.index(alt)}")
                if c.linear:
                    rr = res.val if isinstance(res, Opt) else res
                    if isinstance(rr, Ref):
                        st_a = st_a.event(("linear", res.isnone if isinstance(res, Opt) else False, rr, c.key, line))
                yield st_a, res

    # ------------------------------------------------------------- list cases
    def resolve_list_path(self, st: State, path: str, binds: dict, res: Any) -> Ref | None:
        parts = path.split(".")
        cur = res if parts[0] == "result" else binds.get(parts[0])
        if isinstance(cur, Opt):
            cur = cur.val
        for p_ in parts[1:]:
            if not isinstance(cur, Ref):
                return None
            o = st.obj(cur)
            if not o.has(p_):
                return None
            cur = o.get(p_)
        if isinstance(cur, Ref) and st.obj(cur).kind == "list":
            return cur
        return None

    def apply_list_cases(self, st: State, c: Contract, fn: Any, env: Env, binds: dict, res: Any, node: Any):
        """`lists(e)` -> [{label, when, set: {path: [items]}}]: the contract's statement of what the row lists it modifies
        look like afterwards, case by case. Items are views of rows/segments of the old state, `...` for "zero or more
        new rows" and NEW(sort) for one new element. Verified structurally on the body (check_list_cases); at a call
        site each feasible case continues with exactly that structure."""
        from .contract import NEW
        from .state import unwrap
        if fn is None:
            yield st, ""
            return
        cases = fn(env)
        for case in cases:
            when = case["when"]
            if when is False:
                continue
            if when is not True and not self.feasible(st, when):
                continue
            st_c = st if when is True else st.assume(when)
            for path, items in case["set"].items():
                lref = self.resolve_list_path(st_c, path, binds, res)
                if lref is None:
                    raise Unsupported(f"lists case {case['label']} of {c.key}: {path} is not a list here", node)
                new: list = []
                for it in items:
                    if it is Ellipsis:
                        seg = Seg(V.fresh_of_sort(f"{path.split('.')[-1]}+", V.SegSort), path)
                        st_c = st_c.assume(V.seg_len(seg.const) >= 0)
                        new.append(seg)
                    elif isinstance(it, NEW):
                        st_c, v, inv = self.make(st_c, it.sort, it.name)
                        st_c = st_c.assume(*inv)
                        new.append(v)
                    else:
                        new.append(unwrap(it))
                st_c = st_c.heap_set(lref, "items", tuple(new))
            for path, val in list(case.get("alias", {}).items()) + list(case.get("new", {}).items()):
                parts = path.split(".")
                cur = res if parts[0] == "result" else binds.get(parts[0])
                for p_ in parts[1:-1]:
                    cur = st_c.obj(cur).get(p_)
                if not isinstance(cur, Ref):
                    raise Unsupported(f"alias path {path} of {c.key}: owner is not an object here", node)
                if isinstance(val, Sort):
                    # "new": the field holds a fresh object of this sort (call sites only; bodies are checked by `ensures`)
                    st_c, nv, inv = self.make(st_c, val, parts[-1])
                    st_c = st_c.assume(*inv)
                    val = nv
                st_c = st_c.heap_set(cur, parts[-1], unwrap(val))
            yield st_c, case["label"]

    def result_alternatives(self, sort: Sort) -> list:
        if sort.kind == "rows_upto":
            return [Sort("rows_exact", k) for k in range(sort.arg + 1)]
        if sort.kind == "tup":
            outs: list[list] = [[]]
            for s in sort.arg:
                outs = [o + [a] for o in outs for a in self.result_alternatives(s)]
            return [Sort("tup", tuple(o)) for o in outs]
        return [sort]

    def sort_invariant(self, st: State, sort: Sort, v: Any, node: Any) -> Any:
        if sort.kind == "nat" and V.is_int(v):
            return v >= 0
        if sort.kind == "uint32" and V.is_int(v):
            return And(v >= 0, v < 2 ** 32)
        return True

    def havoc_paths(self, st: State, c: Contract, binds: dict[str, Any]) -> State:
        for path in c.modifies:
            st = self.havoc_path(st, path, binds, c)
        return st

    def havoc_path(self, st: State, path: str, binds: dict[str, Any], c: Contract) -> State:
        parts = path.split(".")
        if parts[0] not in binds:
            raise Unsupported(f"modifies path {path} of {c.key}: unknown root")
        cur = binds[parts[0]]
        if len(parts) == 1:
            if isinstance(cur, Ref):
                st = self.havoc_obj(st, cur, f"{parts[0]}'")
                st = self.fill_shape(st, cur, f"{parts[0]}'")
            return st
        for p in parts[1:-1]:
            if not isinstance(cur, Ref):
                raise Unsupported(f"modifies path {path}: {p} is not an object")
            cur = st.obj(cur).get(p)
        if not isinstance(cur, Ref):
            raise Unsupported(f"modifies path {path}: owner is not an object")
        last = parts[-1]
        o = st.obj(cur)
        if not o.has(last):
            shape = self.reg.shapes.get(getattr(o.cls, "key", str(o.cls)))
            sort = None
            if shape is not None:
                sort = shape.fields.get(last) or shape.ghost.get(last)
            if sort is None:
                if shape is not None:
                    return st      # the declared shape of this class has no such field: there is nothing to change
                raise Unsupported(f"modifies path {path}: field {last} unknown")
            st, v, inv = self.make(st, sort, f"{last}'")
            return st.heap_set(cur, last, v).assume(*inv)
        old = o.get(last)
        if old is None:
            # a field currently holding None: what it may hold afterwards is given by the declared shape of its class
            for k_ in (o.cls.mro() if isinstance(o.cls, ClassInfo) else []):
                shp = self.reg.shapes.get(getattr(k_, "key", None))
                fs = shp and (shp.fields.get(last) or shp.ghost.get(last))
                if fs:
                    st, v, inv = self.make(st, fs, f"{last}'")
                    return st.heap_set(cur, last, v).assume(*inv)
        st, v = self.fresh_like(st, old, f"{last}'")
        if v is not old:
            st = st.heap_set(cur, last, v)
        return st

    def fill_shape(self, st: State, r: Ref, name: str) -> State:
        """Give a (constructor-havoced) object every field its declared shape has."""
        o = st.obj(r)
        if o.kind != "obj" or not isinstance(o.cls, ClassInfo):
            return st
        shape = None
        for c in o.cls.mro():
            if isinstance(c, ClassInfo) and c.key in self.reg.shapes:
                shape = self.reg.shapes[c.key]
                break
        if shape is None:
            return st
        for fn, fs in list(shape.fields.items()) + list(shape.ghost.items()):
            if not st.obj(r).has(fn):
                st, v, inv = self.make(st, fs, f"{name}.{fn}")
                st = st.heap_set(r, fn, v).assume(*inv)
        return st

    # --------------------------------------------------------------- construct
    def construct(self, st: State, ci: ClassInfo, args: list, kwargs: dict, node: Any, ctx: Ctx) -> Res:
        override = getattr(self.reg, "class_constructors", {}).get((ci.module.name, ci.name))
        if override is not None:
            yield from override(self, st, args, kwargs, node)
            return
        mro_names = [c if isinstance(c, str) else c.name for c in ci.mro()]
        if any(n in V.EXC_PARENTS for n in mro_names if isinstance(n, str)) and any(isinstance(c, str) and c in V.EXC_PARENTS for c in ci.mro()):
            yield st, ExcVal(ci.name, args[0] if args else None)
            return
        if ci.is_namedtuple:
            fields = ci.field_order
            vals: dict[str, Any] = {}
            if len(args) > len(fields):
                yield st, Raised(ExcVal("TypeError"))
                return
            for f, v in zip(fields, args):
                vals[f] = v
            for k, v in kwargs.items():
                if k not in fields or k in vals:
                    yield st, Raised(ExcVal("TypeError"))
                    return
                vals[k] = v
            for f in fields:
                if f not in vals:
                    if f in ci.class_attrs:
                        vals[f] = self.eval_const_expr(ci.class_attrs[f], ci.module, node)
                    else:
                        yield st, Raised(ExcVal("TypeError"))
                        return
            yield st, Tup(tuple(vals[f] for f in fields), ci)
            return
        new = ci.find_method("__new__")
        if new is not None:
            yield from self.inline_call(st.set_local("$newcls", ClassVal(ci)), new, [ClassVal(ci)] + args, kwargs, node)
            return
        st, r = self.alloc(st, "obj", ci)
        for ext in ci.external_bases():
            model = self.reg.models.get("base:" + ext)
            if model is not None and hasattr(model, "init_fields"):
                st = model.init_fields(self, st, r)
        init = ci.find_method("__init__")
        if init is None and ci.is_dataclass:
            yield from self.dataclass_init(st, ci, r, args, kwargs, node, ctx)
            return
        if init is None:
            if args or kwargs:
                for ext in ci.external_bases():
                    model = self.reg.models.get("base:" + ext)
                    if model is not None:
                        for st1, v in model.call_method(self, st, r, "__init__", args, kwargs, node, ctx):
                            yield st1, (v if isinstance(v, Raised) else r)
                        return
                raise Unsupported(f"constructor arguments for {ci.name} without __init__", node)
            yield st, r
            return
        st = st.set_local("$in_init_of", r) if False else st
        for st1, v in self.call_function(st, init, [r] + args, kwargs, node, ctx):
            if isinstance(v, Raised):
                yield st1, v
            else:
                yield st1, r

    def dataclass_fields(self, ci: ClassInfo) -> list[tuple[str, ast.expr | None, ClassInfo]]:
        out: list[tuple[str, ast.expr | None, ClassInfo]] = []
        seen: dict[str, int] = {}
        for c in reversed([c for c in ci.mro() if isinstance(c, ClassInfo)]):
            if not c.is_dataclass:
                continue
            for f in c.field_order:
                item = (f, c.class_attrs.get(f), c)
                if f in seen:
                    out[seen[f]] = item
                else:
                    seen[f] = len(out)
                    out.append(item)
        return out

    def dataclass_init(self, st: State, ci: ClassInfo, r: Ref, args: list, kwargs: dict, node: Any, ctx: Ctx) -> Res:
        fields = self.dataclass_fields(ci)
        names = [f for f, _, _ in fields]
        vals: dict[str, Any] = {}
        if len(args) > len(names):
            yield st, Raised(ExcVal("TypeError"))
            return
        for f, v in zip(names, args):
            vals[f] = v
        for k, v in kwargs.items():
            if k not in names or k in vals:
                yield st, Raised(ExcVal("TypeError"))
                return
            vals[k] = v
        for f, d, c in fields:
            if f in vals:
                continue
            if d is None:
                yield st, Raised(ExcVal("TypeError"))
                return
            if isinstance(d, ast.Call) and isinstance(d.func, ast.Name) and d.func.id == "field":
                fac = next((kw.value for kw in d.keywords if kw.arg == "default_factory"), None)
                if fac is None:
                    raise Unsupported("dataclass field() without default_factory", node)
                res = list(self.eval(ast.Call(func=fac, args=[], keywords=[], lineno=getattr(node, "lineno", 0), col_offset=0), st.with_locals({}), Ctx(c.module)))
                if len(res) != 1 or isinstance(res[0][1], Raised):
                    raise Unsupported("default_factory raising/forking", node)
                st = res[0][0].with_locals(st.locals)
                vals[f] = res[0][1]
            else:
                st, vals[f] = self.eval_default(st, d, Ctx(c.module))
        for f in names:
            st = st.heap_set(r, f, vals[f])
        post = ci.find_method("__post_init__")
        if post is not None:
            for st1, v in self.call_function(st, post, [r], {}, node, ctx):
                yield st1, (v if isinstance(v, Raised) else r)
            return
        yield st, r

    # ---------------------------------------------------------------- builtins
    def call_external(self, st: State, name: str, args: list, kwargs: dict, node: Any, ctx: Ctx) -> Res:
        if name.startswith(("logging.", "warnings.")) or name == "builtins.print":
            # diagnostics: assumed to have no effect on the program state (recorded in the evidence)
            self.used_models.add("A-DIAG logging/warnings/print calls have no effect on program state")
            yield st, (ExtVal("logging.Logger") if name == "logging.getLogger" else None)
            return
        model = self.reg.models.get("ext:" + name)
        if model is not None:
            self.used_models.add(name)
            yield from model.call(self, st, args, kwargs, node, ctx)
            return
        short = name.split(".")[-1]
        if name.startswith("builtins."):
            fn = getattr(self, "builtin_" + short, None)
            if fn is not None:
                yield from fn(st, args, kwargs, node, ctx)
                return
            if short in V.EXC_PARENTS:
                yield st, ExcVal(short, args[0] if args else None)
                return
        if short in V.EXC_PARENTS and name.split(".")[0] in ("pyjelly", "google"):
            yield st, ExcVal(short, args[0] if args else None)
            return
        if name.startswith("jelly.") and short in self.proto["messages"]:
            yield from self.construct_msg(st, short, args, kwargs, node, ctx)
            return
        if name.startswith("jelly.") and name.endswith(".Name"):
            enum = name.split(".")[1]
            if enum in self.proto["enums"]:
                (v,) = args
                vals = sorted(set(self.proto["enums"][enum].values()))
                ok = Or(*[self.equal(st, v, x) for x in vals])
                for st1, b in self.branch(st, ok, f"L{getattr(node, 'lineno', 0)}enumname"):
                    if b:
                        st2, r = self.alloc(st1, "enumname", None, enum=enum, value=v)
                        yield st2, r
                    else:
                        yield st1, Raised(ExcVal("ValueError"))
                return
        if name == "builtins.object.__setattr__":
            obj, attr, val = args
            if isinstance(obj, Ref) and isinstance(attr, str) and st.obj(obj).kind == "obj":
                yield st.heap_set(obj, attr, val), None
                return
            raise Unsupported("object.__setattr__ on a non-object", node)
        if name == "itertools.chain":
            items: list = []
            for a in args:
                if isinstance(a, Ref) and st.obj(a).kind in ("gen", "absiter", "chained"):
                    # a lazy part: the chain is handed on as it is (parts in order)
                    st2, r = self.alloc(st, "chained", None, parts=tuple(args))
                    yield st2, r
                    return
                got = list(self.iterate_all(st, a, node))
                if len(got) != 1 or isinstance(got[0][1], Raised):
                    raise Unsupported("itertools.chain over something that cannot be iterated in place", node)
                items += got[0][1]
            st2, r = self.alloc(st, "list", None, items=tuple(items))
            yield st2, r
            return
        if name in ("typing.cast", "builtins.cast"):
            yield st, args[1]
            return
        raise Unsupported(f"call to external {name}", node)

    def construct_msg(self, st: State, name: str, args: list, kwargs: dict, node: Any, ctx: Ctx) -> Res:
        raise Unsupported("protobuf construction (proto model not loaded)", node)

    def builtin_len(self, st: State, args: list, kwargs: dict, node: Any, ctx: Ctx) -> Res:
        (v,) = args
        if isinstance(v, Tup):
            yield st, len(v.items)
            return
        if isinstance(v, (str, bytes)):
            yield st, len(v)
            return
        if is_z3(v) and z3.is_string(v):
            yield st, z3.Length(v)
            return
        if isinstance(v, Ref):
            o = st.obj(v)
            if o.kind == "list":
                yield st, self.list_len(st, v)
                return
            if o.kind == "obj" and isinstance(o.cls, ClassInfo):
                m = o.cls.find_method("__len__")
                if m is not None:
                    yield from self.call_function(st, m, [v], {}, node, ctx)
                    return
                for ext in o.cls.external_bases():
                    model = self.reg.models.get("base:" + ext)
                    if model is not None and hasattr(model, "length"):
                        yield st, model.length(self, st, v)
                        return
            model = self.reg.models.get(o.kind)
            if model is not None and hasattr(model, "length"):
                yield st, model.length(self, st, v)
                return
        if isinstance(v, ClassVal):
            # len(EnumClass)
            ci = v.info
            if any(b in ("IntEnum", "Enum") for b in ci.external_bases()):
                yield st, len(ci.class_attrs)
                return
        raise Unsupported(f"len of {_kind(v)}", node)

    def builtin_isinstance(self, st: State, args: list, kwargs: dict, node: Any, ctx: Ctx) -> Res:
        v, cls = args
        classes = list(cls.items) if isinstance(cls, Tup) else [cls]
        yield st, Or(*[self.isinstance_one(st, v, c, node) for c in classes])

    def isinstance_one(self, st: State, v: Any, c: Any, node: Any) -> Any:
        if isinstance(v, Opt):
            return And(Not(v.isnone), self.isinstance_one(st, v.val, c, node))
        if v is None:
            return False
        if isinstance(v, ADT):
            return self.reg.adts[v.family].isinstance(self, v, c, node)
        if isinstance(c, ClassVal):
            if isinstance(v, Ref):
                o = st.obj(v)
                if o.kind == "obj" and isinstance(o.cls, ClassInfo):
                    return o.cls.is_subclass_of(c.info)
                if o.kind == "absobj":
                    return o.get("isa")(c.info)
                return False
            if isinstance(v, Tup):
                return v.cls is not None and v.cls.is_subclass_of(c.info)
            if is_z3(v) or isinstance(v, (int, str, bool, bytes)):
                return False
            return False
        if isinstance(c, ExtVal):
            nm = c.name
            if isinstance(v, Ref):
                o = st.obj(v)
                if o.kind == "msg":
                    return nm == "jelly." + o.cls
                model = self.reg.models.get(o.kind)
                if model is not None and hasattr(model, "isinstance"):
                    return model.isinstance(self, st, v, nm)
                if o.kind == "obj" and isinstance(o.cls, ClassInfo):
                    return nm.split(".")[-1] in o.cls.external_bases()
                return False
            if nm == "builtins.str":
                return V.is_str(v)
            if nm == "builtins.int":
                return V.is_int(v) or V.is_bool(v)
            if nm == "builtins.bool":
                return V.is_bool(v)
            if nm == "builtins.tuple":
                return isinstance(v, Tup)
            if is_z3(v) or isinstance(v, (int, str, bool, bytes, Tup)):
                return False
        raise Unsupported(f"isinstance({_kind(v)}, {_kind(c)})", node)

    def builtin_issubclass(self, st: State, args: list, kwargs: dict, node: Any, ctx: Ctx) -> Res:
        a, b = args
        bs = list(b.items) if isinstance(b, Tup) else [b]
        if isinstance(a, ClassVal) and all(isinstance(x, ClassVal) for x in bs):
            yield st, any(a.info.is_subclass_of(x.info) for x in bs)
            return
        raise Unsupported("issubclass on non-class values", node)

    def builtin_type(self, st: State, args: list, kwargs: dict, node: Any, ctx: Ctx) -> Res:
        (v,) = args
        if isinstance(v, Ref):
            o = st.obj(v)
            if o.kind == "obj" and isinstance(o.cls, ClassInfo):
                yield st, ClassVal(o.cls)
                return
            if o.kind == "msg":
                yield st, ExtVal("jelly." + o.cls)
                return
        if V.is_str(v):
            yield st, ExtVal("builtins.str")
            return
        if isinstance(v, ADT):
            fam = self.reg.adts[v.family]
            if hasattr(fam, "typeof"):
                yield from fam.typeof(self, st, v, node)
                return
        raise Unsupported(f"type() of {_kind(v)}", node)

    def builtin_bool(self, st: State, args: list, kwargs: dict, node: Any, ctx: Ctx) -> Res:
        if not args:
            yield st, False
            return
        yield st, self.truth(st, args[0], node)

    def builtin_str(self, st: State, args: list, kwargs: dict, node: Any, ctx: Ctx) -> Res:
        if not args:
            yield st, ""
            return
        (v,) = args
        if V.is_str(v):
            yield st, v
            return
        if isinstance(v, Opt):
            for st1, isn in self.branch(st, v.isnone, f"L{getattr(node, 'lineno', 0)}str-none"):
                if isn:
                    yield st1, "None"
                else:
                    yield from self.builtin_str(st1, [v.val], kwargs, node, ctx)
            return
        if isinstance(v, ADT):
            fam = self.reg.adts[v.family]
            if hasattr(fam, "to_str"):
                yield from fam.to_str(self, st, v, node)
                return
        if isinstance(v, Ref):
            o = st.obj(v)
            if o.kind == "obj" and isinstance(o.cls, ClassInfo) and o.cls.find_method("__str__"):
                yield from self.call_function(st, o.cls.find_method("__str__"), [v], {}, node, ctx)
                return
        raise Unsupported(f"str() of {_kind(v)}", node)

    def builtin_getattr(self, st: State, args: list, kwargs: dict, node: Any, ctx: Ctx) -> Res:
        obj, name = args[0], args[1]
        if isinstance(name, Opt):
            for st1, isn in self.branch(st, name.isnone, f"L{getattr(node, 'lineno', 0)}getattrnone"):
                if isn:
                    yield st1, Raised(ExcVal("TypeError"))
                else:
                    yield from self.builtin_getattr(st1, [obj, name.val] + args[2:], kwargs, node, ctx)
            return
        if name is None:
            yield st, Raised(ExcVal("TypeError"))      # getattr(obj, None): attribute name must be string
            return
        if isinstance(name, Ref) and st.obj(name).kind == "enumname":
            # getattr(jelly.SomeEnum, SomeEnum.Name(v)) == v
            en = st.obj(name)
            if isinstance(obj, ExtVal) and obj.name == "jelly." + en.get("enum"):
                yield st, en.get("value")
                return
            raise Unsupported("getattr with an enum name on a different object", node)
        if not isinstance(name, str):
            # symbolic attribute name: models may resolve it (e.g. message oneof member names)
            if isinstance(obj, Ref):
                model = self.reg.models.get(st.obj(obj).kind)
                if model is not None and hasattr(model, "getattr_dyn"):
                    yield from model.getattr_dyn(self, st, obj, name, node, ctx)
                    return
            raise Unsupported("getattr with non-constant name", node)
        for st1, v in self.getattr(st, obj, name, node, ctx):
            if isinstance(v, Raised) and v.exc.cls == "AttributeError" and len(args) == 3:
                yield st1, args[2]
            else:
                yield st1, v

    def builtin_iter(self, st: State, args: list, kwargs: dict, node: Any, ctx: Ctx) -> Res:
        (v,) = args
        if isinstance(v, Tup):
            st2, r = self.alloc(st, "iter", None, items=v.items, pos=0)
            yield st2, r
            return
        if isinstance(v, ADT):
            fam = self.reg.adts[v.family]
            if hasattr(fam, "iter"):
                yield from fam.iter(self, st, v, node)
                return
        if isinstance(v, Ref):
            o = st.obj(v)
            if o.kind in ("iter", "absiter"):
                yield st, v
                return
            if o.kind == "list" and not any(isinstance(x, Seg) for x in o.get("items")):
                st2, r = self.alloc(st, "iter", None, items=tuple(o.get("items")), pos=0)
                yield st2, r
                return
            model = self.reg.models.get(o.kind)
            if model is not None and hasattr(model, "iter"):
                yield from model.iter(self, st, v, node, ctx)
                return
        raise Unsupported(f"iter() of {_kind(v)}", node)

    def builtin_next(self, st: State, args: list, kwargs: dict, node: Any, ctx: Ctx) -> Res:
        it = args[0]
        if isinstance(it, Ref):
            o = st.obj(it)
            if o.kind == "iter":
                items, pos = o.get("items"), o.get("pos")
                if pos < len(items):
                    yield st.heap_set(it, "pos", pos + 1), items[pos]
                elif len(args) > 1:
                    yield st, args[1]
                else:
                    yield st, Raised(ExcVal("StopIteration"))
                return
            model = self.reg.models.get(o.kind)
            if model is not None and hasattr(model, "next"):
                yield from model.next(self, st, it, args[1:], node, ctx)
                return
        raise Unsupported(f"next() of {_kind(it)}", node)

    def builtin_tuple(self, st: State, args: list, kwargs: dict, node: Any, ctx: Ctx) -> Res:
        if not args:
            yield st, Tup(())
            return
        for st1, items in self.iterate_all(st, args[0], node):
            if isinstance(items, Raised):
                yield st1, items
            elif any(isinstance(x, Seg) for x in items):
                raise Unsupported("tuple() of unknown length", node)
            else:
                yield st1, Tup(tuple(items))

    def builtin_list(self, st: State, args: list, kwargs: dict, node: Any, ctx: Ctx) -> Res:
        if not args:
            st2, r = self.alloc(st, "list", None, items=())
            yield st2, r
            return
        for st1, items in self.iterate_all(st, args[0], node):
            if isinstance(items, Raised):
                yield st1, items
            else:
                st2, r = self.alloc(st1, "list", None, items=tuple(items))
                yield st2, r

    def builtin_bytes(self, st: State, args: list, kwargs: dict, node: Any, ctx: Ctx) -> Res:
        raise Unsupported("bytes()", node)

    def builtin_hasattr(self, st: State, args: list, kwargs: dict, node: Any, ctx: Ctx) -> Res:
        for st1, v in self.getattr(st, args[0], args[1], node, ctx):
            yield st1, not (isinstance(v, Raised) and v.exc.cls == "AttributeError")

    # ---------------------------------------------------------- str/int methods
    def call_builtin_method(self, st: State, recv: Any, name: str, args: list, kwargs: dict, node: Any, ctx: Ctx) -> Res:
        if isinstance(recv, Ref):
            o = st.obj(recv)
            if o.kind == "list":
                yield from self.list_method(st, recv, name, args, kwargs, node, ctx)
                return
            model = self.reg.models.get(o.kind)
            if o.kind == "obj" and isinstance(o.cls, ClassInfo):
                for ext in o.cls.external_bases():
                    model = self.reg.models.get("base:" + ext)
                    if model is not None:
                        break
            if model is not None:
                self.used_models.add(getattr(model, "name", o.kind))
                yield from model.call_method(self, st, recv, name, args, kwargs, node, ctx)
                return
            raise Unsupported(f"method {name} on heap kind {o.kind}", node)
        if V.is_str(recv):
            model = self.reg.models.get("str")
            if model is not None:
                self.used_models.add("str")
                yield from model.call_method(self, st, recv, name, args, kwargs, node, ctx)
                return
        raise Unsupported(f"method {name} on {_kind(recv)}", node)

    def list_method(self, st: State, r: Ref, name: str, args: list, kwargs: dict, node: Any, ctx: Ctx) -> Res:
        o = st.obj(r)
        items = o.get("items")
        if name == "append":
            yield st.heap_set(r, "items", items + (args[0],)), None
            return
        if name == "extend":
            for st1, more in self.iterate_all(st, args[0], node):
                if isinstance(more, Raised):
                    yield st1, more
                else:
                    yield st1.heap_set(r, "items", st1.obj(r).get("items") + tuple(more)), None
            return
        if name == "clear":
            yield st.heap_set(r, "items", ()), None
            return
        if name == "insert" and isinstance(args[0], int) and not any(isinstance(x, Seg) for x in items):
            i = args[0]
            new = list(items)
            new.insert(i, args[1])
            yield st.heap_set(r, "items", tuple(new)), None
            return
        if name == "copy":
            st2, r2 = self.alloc(st, "list", None, items=items)
            yield st2, r2
            return
        raise Unsupported(f"list.{name}", node)


def _aslist(x: Any) -> list:
    if x is None:
        return []
    if isinstance(x, (list, tuple)):
        out = []
        for y in x:
            out += _aslist(y)
        return out
    return [x]
