"""Package-wide frame condition for C12: *no function of pyjelly writes module-level or class-level state, and no
class-level mutable default is mutated through an instance*.

This is the `modifies` clause "nothing global" stated for every function of the package at once and decided
syntactically from the AST (no solver involved): per function one obligation `writes-no-module-or-class-state`,
per class attribute with a mutable default one obligation `class-level-default-is-never-mutated-through-an-instance`.
What counts as a write: `global`/`nonlocal`; assignment, augmented assignment, deletion or subscript store whose base
name resolves (not shadowed by a parameter or local) to a module-level binding, an imported module or a class; a call of
a mutating method on such a base; the same through `cls.<attr>` / `type(self).<attr>` / `<Class>.<attr>`.
Allowed (listed in the evidence): registration with external registries in the functions named in EXTERNAL_REGISTRIES.
Assumption: names are resolved lexically (no `setattr`/`globals()` tricks - those calls are themselves flagged)."""
from __future__ import annotations

import ast
from typing import Any

MUTATORS = {"append", "extend", "insert", "pop", "popitem", "remove", "clear", "update", "setdefault", "add", "discard",
            "sort", "reverse", "move_to_end", "appendleft", "popleft", "extendleft", "rotate", "__setitem__", "__delitem__"}
MUTABLE_CTORS = {"list", "dict", "set", "deque", "OrderedDict", "defaultdict", "bytearray", "Counter", "UserList", "UserDict"}
FLAGGED_CALLS = {"setattr", "delattr", "globals", "exec", "eval", "vars"}
# functions whose purpose is to register pyjelly with an external registry (stdlib mimetypes, rdflib plugins)
EXTERNAL_REGISTRIES = {"pyjelly.options:register_mimetypes", "pyjelly.integrations.rdflib:register_extension_to_rdflib",
                       "pyjelly.integrations.rdflib:_side_effects"}


def _locals_of(fn: ast.AST) -> set[str]:
    names: set[str] = set()
    a = fn.args  # type: ignore[attr-defined]
    for p in a.posonlyargs + a.args + a.kwonlyargs:
        names.add(p.arg)
    if a.vararg:
        names.add(a.vararg.arg)
    if a.kwarg:
        names.add(a.kwarg.arg)
    for n in ast.walk(fn):
        if isinstance(n, ast.Name) and isinstance(n.ctx, (ast.Store, ast.Del)):
            names.add(n.id)
        elif isinstance(n, (ast.FunctionDef, ast.ClassDef)) and n is not fn:
            names.add(n.name)
        elif isinstance(n, (ast.Import, ast.ImportFrom)):
            for al in n.names:
                names.add((al.asname or al.name).split(".")[0])
        elif isinstance(n, ast.ExceptHandler) and n.name:
            names.add(n.name)
    for n in ast.walk(fn):
        if isinstance(n, (ast.Global, ast.Nonlocal)):
            names -= set(n.names)
    return names


def _base_name(e: ast.AST) -> tuple[ast.Name | None, list[str]]:
    path: list[str] = []
    while isinstance(e, (ast.Attribute, ast.Subscript)):
        if isinstance(e, ast.Attribute):
            path.append(e.attr)
        e = e.value
    return (e if isinstance(e, ast.Name) else None), list(reversed(path))


def _is_type_of_self(e: ast.AST) -> bool:
    return (isinstance(e, ast.Call) and isinstance(e.func, ast.Name) and e.func.id == "type" and len(e.args) == 1
            and isinstance(e.args[0], ast.Name) and e.args[0].id == "self")


def check_function(modname: str, module_names: set[str], fn: ast.AST, qual: str, in_class: bool) -> list[str]:
    problems: list[str] = []
    loc = _locals_of(fn)

    def global_base(e: ast.AST) -> str | None:
        """name of the module-level/class-level thing `e` is rooted at, or None"""
        cur = e
        while isinstance(cur, (ast.Attribute, ast.Subscript)):
            cur = cur.value
        if _is_type_of_self(cur):
            return "type(self)"
        if isinstance(cur, ast.Name):
            if cur.id == "cls" and in_class and "cls" in loc:
                # the first parameter of a classmethod: the class object
                return "cls" if any(isinstance(d, ast.Name) and d.id == "classmethod" for d in getattr(fn, "decorator_list", [])) else None
            if cur.id not in loc and cur.id in module_names:
                return cur.id
        return None

    for n in ast.walk(fn):
        if isinstance(n, (ast.Global, ast.Nonlocal)):
            problems.append(f"L{n.lineno}: {type(n).__name__.lower()} {', '.join(n.names)}")
        targets: list[ast.AST] = []
        if isinstance(n, ast.Assign):
            targets = list(n.targets)
        elif isinstance(n, (ast.AugAssign, ast.AnnAssign)):
            targets = [n.target]
        elif isinstance(n, ast.Delete):
            targets = list(n.targets)
        for t in targets:
            for el in (t.elts if isinstance(t, (ast.Tuple, ast.List)) else [t]):
                if isinstance(el, (ast.Attribute, ast.Subscript)):
                    g = global_base(el)
                    if g is not None:
                        problems.append(f"L{el.lineno}: store to {ast.unparse(el)} (rooted at module/class-level `{g}`)")
        if isinstance(n, ast.Call):
            if isinstance(n.func, ast.Attribute) and n.func.attr in MUTATORS:
                g = global_base(n.func.value)
                if g is not None:
                    problems.append(f"L{n.lineno}: {ast.unparse(n.func)}(...) mutates module/class-level `{g}`")
            if isinstance(n.func, ast.Name) and n.func.id in FLAGGED_CALLS and n.func.id not in loc:
                problems.append(f"L{n.lineno}: call of {n.func.id}() (state written by name: not analysable)")
    return problems


def _mutable_default(v: ast.AST) -> bool:
    if isinstance(v, (ast.List, ast.Dict, ast.Set, ast.ListComp, ast.DictComp, ast.SetComp)):
        return True
    if isinstance(v, ast.Call):
        f = v.func
        name = f.id if isinstance(f, ast.Name) else f.attr if isinstance(f, ast.Attribute) else ""
        return name in MUTABLE_CTORS
    return False


def check_class(cls: ast.ClassDef, all_classes: dict[str, ast.ClassDef]) -> dict[str, list[str]]:
    """class attributes with a mutable default -> places where an instance mutates them without the instance having been
    given its own object in __init__"""
    out: dict[str, list[str]] = {}
    for b in cls.body:
        tgt, val = None, None
        if isinstance(b, ast.Assign) and len(b.targets) == 1 and isinstance(b.targets[0], ast.Name):
            tgt, val = b.targets[0].id, b.value
        elif isinstance(b, ast.AnnAssign) and isinstance(b.target, ast.Name) and b.value is not None:
            tgt, val = b.target.id, b.value
        if tgt is None or not _mutable_default(val):
            continue
        # dataclass fields with default_factory are fine (not a shared default); plain mutable defaults are what we look for
        family = [c for c in all_classes.values() if c is cls or any(isinstance(x, ast.Name) and x.id == cls.name for x in c.bases)]
        assigned_in_init = False
        uses: list[str] = []
        for c in family:
            for m in c.body:
                if not isinstance(m, ast.FunctionDef):
                    continue
                for n in ast.walk(m):
                    if isinstance(n, (ast.Assign, ast.AnnAssign)):
                        for t in (n.targets if isinstance(n, ast.Assign) else [n.target]):
                            if isinstance(t, ast.Attribute) and isinstance(t.value, ast.Name) and t.value.id == "self" and t.attr == tgt:
                                if m.name == "__init__":
                                    assigned_in_init = True
                            if isinstance(t, ast.Subscript):
                                v = t.value
                                if isinstance(v, ast.Attribute) and isinstance(v.value, ast.Name) and v.value.id == "self" and v.attr == tgt:
                                    uses.append(f"{c.name}.{m.name} L{t.lineno}: self.{tgt}[...] = ...")
                    if isinstance(n, ast.Call) and isinstance(n.func, ast.Attribute) and n.func.attr in MUTATORS:
                        v = n.func.value
                        if isinstance(v, ast.Attribute) and isinstance(v.value, ast.Name) and v.value.id == "self" and v.attr == tgt:
                            uses.append(f"{c.name}.{m.name} L{n.lineno}: self.{tgt}.{n.func.attr}(...)")
        out[tgt] = [] if assigned_in_init else uses
    return out


def analyse(tree: Any) -> list[dict]:
    """-> rows {name, label, status, detail, line, func}"""
    rows: list[dict] = []
    for modname, mod in sorted(tree.modules.items()):
        if not modname.startswith("pyjelly") or modname.startswith("pyjelly.jelly") or modname == "$lemmas":
            continue
        module_names: set[str] = set()
        for b in mod.node.body:
            if isinstance(b, (ast.FunctionDef, ast.ClassDef)):
                module_names.add(b.name)
            elif isinstance(b, ast.Assign):
                for t in b.targets:
                    for el in (t.elts if isinstance(t, (ast.Tuple, ast.List)) else [t]):
                        if isinstance(el, ast.Name):
                            module_names.add(el.id)
            elif isinstance(b, ast.AnnAssign) and isinstance(b.target, ast.Name):
                module_names.add(b.target.id)
            elif isinstance(b, (ast.Import, ast.ImportFrom)):
                for al in b.names:
                    module_names.add((al.asname or al.name).split(".")[0])
        classes = {b.name: b for b in mod.node.body if isinstance(b, ast.ClassDef)}

        def visit(fn: ast.FunctionDef, qual: str, in_class: bool) -> None:
            key = f"{modname}:{qual}"
            probs = check_function(modname, module_names, fn, qual, in_class)
            allowed = key in EXTERNAL_REGISTRIES
            rows.append({"func": key, "label": "writes-no-module-or-class-state", "line": fn.lineno,
                         "status": "proved" if (not probs or allowed) else "refuted",
                         "detail": ("registers with an external registry (allowed, listed): " if allowed and probs else "") + "; ".join(probs)})
        for b in mod.node.body:
            if isinstance(b, ast.FunctionDef):
                visit(b, b.name, False)
            elif isinstance(b, ast.ClassDef):
                for m in b.body:
                    if isinstance(m, ast.FunctionDef):
                        visit(m, f"{b.name}.{m.name}", True)
                for attr, uses in check_class(b, classes).items():
                    rows.append({"func": f"{modname}:{b.name}", "label": f"class-level-default-{attr}-is-never-mutated-through-an-instance",
                                 "line": b.lineno, "status": "refuted" if uses else "proved", "detail": "; ".join(uses)})
    return rows
