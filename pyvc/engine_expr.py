"""Expression evaluation of the symbolic executor."""
from __future__ import annotations

import ast
from dataclasses import dataclass
from typing import Any, Callable, Iterator

import z3

from . import values as V
from .engine_base import EngineBase
from .source import ClassInfo, FuncInfo, Module
from .state import State
from .values import (ADT, And, BoundMethod, BuiltinMethod, ClassVal, ExcVal, ExtVal, FuncVal, HObj, Implies, ModuleVal,
                     Not, Opt, Or, Raised, Rec, Ref, Seg, Tup, Unsupported, is_z3, to_z3)

Res = Iterator[tuple[State, Any]]


@dataclass
class Ctx:
    module: Module
    func: FuncInfo | None = None
    cls: ClassInfo | None = None
    loop_ordinals: dict | None = None   # id(node) -> ordinal
    contract: Any = None
    gen: bool = False                   # executing a generator body (yield -> st.out)


BUILTIN_NAMES = {"len", "isinstance", "iter", "next", "getattr", "str", "bool", "int", "type", "cast", "tuple", "list",
                 "bytes", "super", "object", "hasattr", "issubclass", "range", "dict", "repr", "print", "chain", "callable", "id",
                 "ValueError", "TypeError", "KeyError", "IndexError", "NotImplementedError", "AssertionError",
                 "StopIteration", "Exception", "RuntimeError", "AttributeError", "LookupError"}


def bind(results: Res, fn: Callable[[State, Any], Res]) -> Res:
    for st, v in results:
        if isinstance(v, Raised):
            yield st, v
        else:
            yield from fn(st, v)


class ExprMixin(EngineBase):
    # ------------------------------------------------------------------ names
    def lookup(self, st: State, name: str, ctx: Ctx, node: Any = None) -> Any:
        if name in st.locals:
            return st.locals[name]
        r = self.tree.resolve(ctx.module, name)
        if r is not None:
            return self.global_value(r, ctx, name, node)
        if name in BUILTIN_NAMES:
            return ExtVal(f"builtins.{name}")
        if name == "__name__":
            return ctx.module.name
        raise Unsupported(f"unresolved name {name!r}", node)

    def global_value(self, r: Any, ctx: Ctx, name: str, node: Any = None) -> Any:
        if isinstance(r, FuncInfo):
            return FuncVal(r)
        if isinstance(r, ClassInfo):
            return ClassVal(r)
        if r[0] == "module":
            return ModuleVal(r[1])
        if r[0] == "external":
            return self.external_value(r[1], node)
        if r[0] == "const":
            _, expr, mod = r
            ov = getattr(self.reg, "global_overrides", {}).get((mod.name, name))
            if ov is not None:
                return ov
            return self.eval_const_expr(expr, mod, node)
        raise Unsupported(f"cannot use global {name}", node)

    def external_value(self, dotted: str, node: Any = None) -> Any:
        ov = getattr(self.reg, "external_overrides", {}).get(dotted)
        if ov is not None:
            return ov
        if dotted.startswith("jelly."):
            nm = dotted[len("jelly."):]
            if nm in self.proto["constants"]:
                return self.proto["constants"][nm]
        return ExtVal(dotted)

    def eval_const_expr(self, expr: ast.expr, mod: Module, node: Any = None) -> Any:
        """Module-level constant: evaluated with an empty state (must not fork or touch the heap)."""
        key = (mod.name, id(expr))
        cache = self.__dict__.setdefault("_const_cache", {})
        if key in cache:
            return cache[key]
        if isinstance(expr, (ast.Dict, ast.Set, ast.List)):
            v: Any = ("display", expr, mod)     # evaluated by the consumers (tables)
        else:
            res = list(self.eval(expr, State(), Ctx(mod)))
            if len(res) != 1 or isinstance(res[0][1], Raised) or res[0][0].heap:
                if len(res) == 1 and isinstance(res[0][1], Ref):
                    v = ("heapconst", expr, mod)
                else:
                    raise Unsupported(f"module constant too complex: {ast.unparse(expr)[:60]}", node)
            else:
                v = res[0][1]
        cache[key] = v
        return v

    def eval_class_attr(self, cls: ClassInfo, expr: ast.expr) -> Any:
        return self.eval_const_expr(expr, cls.module)

    # ------------------------------------------------------------------- eval
    def eval(self, e: ast.expr, st: State, ctx: Ctx) -> Res:
        m = getattr(self, "eval_" + type(e).__name__, None)
        if m is None:
            raise Unsupported(f"expression {type(e).__name__}", e)
        return m(e, st, ctx)

    def evals(self, es: list[ast.expr], st: State, ctx: Ctx) -> Res:
        """Evaluate expressions left to right; yields (state, [values])."""
        if not es:
            yield st, []
            return
        head, rest = es[0], es[1:]
        for st1, v in self.eval(head, st, ctx):
            if isinstance(v, Raised):
                yield st1, v
                continue
            for st2, vs in self.evals(rest, st1, ctx):
                if isinstance(vs, Raised):
                    yield st2, vs
                else:
                    yield st2, [v] + vs

    def eval_Constant(self, e: ast.Constant, st: State, ctx: Ctx) -> Res:
        v = e.value
        if isinstance(v, bytes):
            yield st, v
        elif v is Ellipsis:
            raise Unsupported("Ellipsis", e)
        else:
            yield st, v

    def eval_Name(self, e: ast.Name, st: State, ctx: Ctx) -> Res:
        yield st, self.lookup(st, e.id, ctx, e)

    def eval_JoinedStr(self, e: ast.JoinedStr, st: State, ctx: Ctx) -> Res:
        # f-strings only build exception messages / reprs: opaque string; inner calls Enum.Name(x) may raise
        parts = [v.value for v in e.values if isinstance(v, ast.FormattedValue)]
        calls = [p for p in parts if any(isinstance(n, ast.Call) for n in ast.walk(p))]

        def go(st: State, i: int) -> Res:
            if i == len(calls):
                yield st, V.fresh_str("fstr")
                return
            for st1, v in self.eval(calls[i], st, ctx):
                if isinstance(v, Raised):
                    yield st1, v
                else:
                    yield from go(st1, i + 1)
        yield from go(st, 0)

    def eval_Tuple(self, e: ast.Tuple, st: State, ctx: Ctx) -> Res:
        if any(isinstance(x, ast.Starred) for x in e.elts):
            raise Unsupported("starred in tuple display", e)
        for st1, vs in self.evals(e.elts, st, ctx):
            yield st1, (vs if isinstance(vs, Raised) else Tup(tuple(vs)))

    def eval_List(self, e: ast.List, st: State, ctx: Ctx) -> Res:
        # supports [a, b] and [*xs]
        def go(st: State, i: int, acc: tuple) -> Res:
            if i == len(e.elts):
                st2, r = self.alloc(st, "list", None, items=acc)
                yield st2, r
                return
            el = e.elts[i]
            if isinstance(el, ast.Starred):
                for st1, v in self.eval(el.value, st, ctx):
                    if isinstance(v, Raised):
                        yield st1, v
                        continue
                    for st2, items in self.iterate_all(st1, v, el):
                        if isinstance(items, Raised):
                            yield st2, items
                        else:
                            yield from go(st2, i + 1, acc + tuple(items))
            else:
                for st1, v in self.eval(el, st, ctx):
                    if isinstance(v, Raised):
                        yield st1, v
                    else:
                        yield from go(st1, i + 1, acc + (v,))
        yield from go(st, 0, ())

    def eval_Dict(self, e: ast.Dict, st: State, ctx: Ctx) -> Res:
        if all(k is not None and isinstance(k, ast.Constant) for k in e.keys):
            for st1, vs in self.evals(list(e.values), st, ctx):
                if isinstance(vs, Raised):
                    yield st1, vs
                    continue
                keys = [k.value for k in e.keys]  # type: ignore[union-attr]
                st2, r = self.alloc(st1, "pydict", None, keys=tuple(keys), vals=tuple(vs))
                yield st2, r
            return
        raise Unsupported("dict display with non-constant keys", e)

    def eval_DictComp(self, e: ast.DictComp, st: State, ctx: Ctx) -> Res:
        """only the dispatch-table idiom `{t: getattr(self, name) for t, name in self.<TABLE>.items()}`: the result is the
        `handlers` object of pyvc.models.HandlersModel (lookups resolve through the class-level table to bound methods)"""
        ok = (len(e.generators) == 1 and not e.generators[0].ifs and isinstance(e.generators[0].target, ast.Tuple)
              and len(e.generators[0].target.elts) == 2 and all(isinstance(x, ast.Name) for x in e.generators[0].target.elts))
        if ok:
            t, name = (x.id for x in e.generators[0].target.elts)   # type: ignore[attr-defined]
            it = e.generators[0].iter
            ok = (isinstance(e.key, ast.Name) and e.key.id == t and isinstance(e.value, ast.Call)
                  and isinstance(e.value.func, ast.Name) and e.value.func.id == "getattr" and len(e.value.args) == 2
                  and isinstance(e.value.args[0], ast.Name) and e.value.args[0].id == "self"
                  and isinstance(e.value.args[1], ast.Name) and e.value.args[1].id == name
                  and isinstance(it, ast.Call) and isinstance(it.func, ast.Attribute) and it.func.attr == "items" and not it.args
                  and isinstance(it.func.value, ast.Attribute) and isinstance(it.func.value.value, ast.Name)
                  and it.func.value.value.id == "self")
        if not ok:
            raise Unsupported("dict comprehension (only the handler-table idiom is modelled)", e)
        table = e.generators[0].iter.func.value.attr   # type: ignore[attr-defined]
        owner = st.locals.get("self")
        if not isinstance(owner, Ref) or st.obj(owner).cls.find_class_attr(table) is None:
            raise Unsupported(f"handler table {table} not found on the class of self", e)
        st2, r = self.alloc(st, "handlers", "dict", table=table, owner=None)
        yield st2, r

    def eval_IfExp(self, e: ast.IfExp, st: State, ctx: Ctx) -> Res:
        for st1, c in self.eval(e.test, st, ctx):
            if isinstance(c, Raised):
                yield st1, c
                continue
            for st2, b in self.branch(st1, self.truth(st1, c, e), f"L{e.lineno}ifexp"):
                yield from self.eval(e.body if b else e.orelse, st2, ctx)

    def eval_NamedExpr(self, e: ast.NamedExpr, st: State, ctx: Ctx) -> Res:
        for st1, v in self.eval(e.value, st, ctx):
            if isinstance(v, Raised):
                yield st1, v
            else:
                yield st1.set_local(e.target.id, v), v

    def eval_BoolOp(self, e: ast.BoolOp, st: State, ctx: Ctx) -> Res:
        is_and = isinstance(e.op, ast.And)

        def go(st: State, i: int) -> Res:
            for st1, v in self.eval(e.values[i], st, ctx):
                if isinstance(v, Raised) or i == len(e.values) - 1:
                    yield st1, v
                    continue
                for st2, b in self.branch(st1, self.truth(st1, v, e), f"L{e.lineno}bool{i}"):
                    if b == is_and:
                        yield from go(st2, i + 1)
                    else:
                        yield st2, self.concretize_truth(v, b)
        yield from go(st, 0)

    def concretize_truth(self, v: Any, b: bool) -> Any:
        # the value of `x or y` when x is truthy is x itself; keep x
        if is_z3(v) and z3.is_bool(v):
            return b
        return v

    def eval_UnaryOp(self, e: ast.UnaryOp, st: State, ctx: Ctx) -> Res:
        for st1, v in self.eval(e.operand, st, ctx):
            if isinstance(v, Raised):
                yield st1, v
            elif isinstance(e.op, ast.Not):
                t = self.truth(st1, v, e)
                yield st1, Not(t)
            elif isinstance(e.op, ast.USub):
                if V.is_int(v):
                    yield st1, -v
                else:
                    raise Unsupported("unary minus on non-int", e)
            else:
                raise Unsupported(f"unary {type(e.op).__name__}", e)

    def eval_BinOp(self, e: ast.BinOp, st: State, ctx: Ctx) -> Res:
        for st1, vs in self.evals([e.left, e.right], st, ctx):
            if isinstance(vs, Raised):
                yield st1, vs
                continue
            a, b = vs
            yield from self.binop(st1, e.op, a, b, e)

    def binop(self, st: State, op: ast.operator, a: Any, b: Any, node: Any) -> Res:
        if isinstance(a, Opt) or isinstance(b, Opt):
            # resolve None-ness first
            o = a if isinstance(a, Opt) else b
            for st1, isn in self.branch(st, o.isnone, f"L{getattr(node, 'lineno', 0)}opt"):
                if isn:
                    if isinstance(op, ast.BitOr):
                        raise Unsupported("| on None", node)
                    yield st1, Raised(ExcVal("TypeError"))
                else:
                    a2 = o.val if a is o else a
                    b2 = o.val if b is o else b
                    yield from self.binop(st1, op, a2, b2, node)
            return
        if isinstance(op, ast.Add):
            if V.is_int(a) and V.is_int(b):
                yield st, a + b
                return
            if V.is_str(a) and V.is_str(b):
                if isinstance(a, str) and isinstance(b, str):
                    yield st, a + b
                else:
                    yield st, z3.Concat(to_z3(a), to_z3(b))
                return
            if isinstance(a, Tup) and isinstance(b, Tup):
                yield st, Tup(a.items + b.items)
                return
            if isinstance(a, Ref) and isinstance(b, Ref) and st.obj(a).kind == "list" and st.obj(b).kind == "list":
                st2, r = self.alloc(st, "list", None, items=tuple(st.obj(a).get("items")) + tuple(st.obj(b).get("items")))
                yield st2, r      # a new list: the elements of both, in order
                return
        if isinstance(op, ast.Sub) and V.is_int(a) and V.is_int(b):
            yield st, a - b
            return
        if isinstance(op, ast.Mult):
            if V.is_int(a) and V.is_int(b):
                if is_z3(a) and is_z3(b):
                    raise Unsupported("nonlinear multiplication", node)
                yield st, a * b
                return
            if isinstance(a, Tup) and V.is_int(b):
                if isinstance(b, int):
                    yield st, Tup(a.items * b)
                    return
                if len(a.items) == 1:
                    # (x,) * n  -> repeated tuple of symbolic length max(n, 0)
                    st2, r = self.alloc(st, "reptuple", None, item=a.items[0], n=z3.If(b >= 0, b, 0))
                    yield st2, r
                    return
            if isinstance(a, Ref) and st.obj(a).kind == "list" and isinstance(b, int):
                items = st.obj(a).get("items") * b
                st2, r = self.alloc(st, "list", None, items=items)
                yield st2, r
                return
        if isinstance(op, ast.Mod) and V.is_int(a) and V.is_int(b):
            if isinstance(b, int) and b > 0:
                yield st, a % b      # z3 mod with positive constant divisor == Python %
                return
            raise Unsupported("% with non-constant or non-positive divisor", node)
        if isinstance(op, ast.FloorDiv) and V.is_int(a) and isinstance(b, int) and b > 0:
            yield st, (a // b if isinstance(a, int) else a / b)
            return
        raise Unsupported(f"binary {type(op).__name__} on {_kind(a)}/{_kind(b)}", node)

    def eval_Compare(self, e: ast.Compare, st: State, ctx: Ctx) -> Res:
        operands = [e.left] + list(e.comparators)

        def go(st: State, i: int, left: Any, acc: Any) -> Res:
            if i == len(e.ops):
                yield st, acc
                return
            for st1, right in self.eval(operands[i + 1], st, ctx):
                if isinstance(right, Raised):
                    yield st1, right
                    continue
                for st2, r in self.compare(st1, e.ops[i], left, right, e, ctx):
                    if isinstance(r, Raised):
                        yield st2, r
                    elif i == len(e.ops) - 1:
                        yield st2, And(acc, r)
                    else:
                        # chained comparison short-circuits
                        for st3, b in self.branch(st2, r, f"L{e.lineno}cmp{i}"):
                            if b:
                                yield from go(st3, i + 1, right, acc)
                            else:
                                yield st3, False
        for st0, left in self.eval(e.left, st, ctx):
            if isinstance(left, Raised):
                yield st0, left
            else:
                yield from go(st0, 0, left, True)

    def compare(self, st: State, op: ast.cmpop, a: Any, b: Any, node: Any, ctx: Ctx) -> Res:
        if isinstance(op, (ast.Eq, ast.NotEq)):
            for st1, r in self.py_eq(st, a, b, node, ctx):
                if isinstance(r, Raised):
                    yield st1, r
                else:
                    yield st1, (r if isinstance(op, ast.Eq) else Not(r))
            return
        if isinstance(op, (ast.Is, ast.IsNot)):
            r = self.identical(st, a, b, node)
            yield st, (r if isinstance(op, ast.Is) else Not(r))
            return
        if isinstance(op, (ast.Lt, ast.LtE, ast.Gt, ast.GtE)):
            if isinstance(a, Opt) or isinstance(b, Opt):
                raise Unsupported("ordering on optional", node)
            if V.is_int(a) and V.is_int(b):
                if isinstance(op, ast.Lt):
                    yield st, a < b
                elif isinstance(op, ast.LtE):
                    yield st, a <= b
                elif isinstance(op, ast.Gt):
                    yield st, a > b
                else:
                    yield st, a >= b
                return
            raise Unsupported(f"ordering on {_kind(a)}/{_kind(b)}", node)
        if isinstance(op, (ast.In, ast.NotIn)):
            for st1, r in self.contains(st, b, a, node, ctx):
                if isinstance(r, Raised):
                    yield st1, r
                else:
                    yield st1, (r if isinstance(op, ast.In) else Not(r))
            return
        raise Unsupported(f"comparison {type(op).__name__}", node)

    def py_eq(self, st: State, a: Any, b: Any, node: Any, ctx: Ctx) -> Res:
        """`a == b` with user-defined __eq__ dispatch where the class is known."""
        yield st, self.equal(st, a, b, node)

    def identical(self, st: State, a: Any, b: Any, node: Any) -> Any:
        if a is None or b is None:
            other = b if a is None else a
            if other is None:
                return True
            if isinstance(other, Opt):
                return other.isnone
            return False
        if isinstance(a, Ref) and isinstance(b, Ref):
            return a == b
        if isinstance(a, (ClassVal, FuncVal, ExtVal)) and isinstance(b, (ClassVal, FuncVal, ExtVal)):
            return a == b
        if isinstance(a, bool) and isinstance(b, bool):
            return a == b
        if V.is_bool(a) and V.is_bool(b):
            return to_z3(a) == to_z3(b)
        raise Unsupported(f"`is` between {_kind(a)} and {_kind(b)}", node)

    def contains(self, st: State, container: Any, x: Any, node: Any, ctx: Ctx) -> Res:
        if isinstance(container, Tup):
            yield st, Or(*[self.equal(st, x, it, node) for it in container.items])
            return
        if isinstance(container, tuple) and container and container[0] == "display":
            items = self.display_items(container, node)
            yield st, Or(*[self.equal(st, x, it, node) for it in items])
            return
        if isinstance(container, Ref):
            o = st.obj(container)
            model = self.reg.models.get(o.kind)
            if model is not None and hasattr(model, "contains"):
                yield from model.contains(self, st, container, x, node)
                return
        raise Unsupported(f"`in` on {_kind(container)}", node)

    def display_items(self, disp: Any, node: Any = None) -> list:
        _, expr, mod = disp
        if isinstance(expr, (ast.Set, ast.List)):
            out = []
            for el in expr.elts:
                res = list(self.eval(el, State(), Ctx(mod)))
                if len(res) != 1 or isinstance(res[0][1], Raised):
                    raise Unsupported("display element too complex", node)
                out.append(res[0][1])
            return out
        raise Unsupported("membership in dict display", node)

    def display_dict(self, disp: Any, node: Any = None) -> list[tuple[Any, Any]]:
        _, expr, mod = disp
        if not isinstance(expr, ast.Dict):
            raise Unsupported("not a dict display", node)
        out = []
        for k, v in zip(expr.keys, expr.values):
            if k is None:
                raise Unsupported("** in dict display", node)
            rk = list(self.eval(k, State(), Ctx(mod)))
            rv = list(self.eval(v, State(), Ctx(mod)))
            if len(rk) != 1 or len(rv) != 1:
                raise Unsupported("dict display too complex", node)
            out.append((rk[0][1], rv[0][1]))
        return out

    # -------------------------------------------------------------- attribute
    def eval_Attribute(self, e: ast.Attribute, st: State, ctx: Ctx) -> Res:
        for st1, v in self.eval(e.value, st, ctx):
            if isinstance(v, Raised):
                yield st1, v
            else:
                yield from self.getattr(st1, v, e.attr, e, ctx)

    def getattr(self, st: State, v: Any, attr: str, node: Any, ctx: Ctx) -> Res:
        if isinstance(v, ModuleVal):
            m = self.tree.module(v.name)
            r = self.tree.resolve(m, attr)
            if r is None:
                raise Unsupported(f"module {v.name} has no {attr}", node)
            yield st, self.global_value(r, Ctx(m), attr, node)
            return
        if isinstance(v, ExtVal):
            yield st, self.external_value(f"{v.name}.{attr}", node)
            return
        if isinstance(v, ClassVal):
            ci = v.info
            found = ci.find_class_attr(attr)
            if found is not None:
                if "Enum" in found[0].external_bases():
                    # a member of an enum.Enum subclass: a constant identified by its name (only identity is used)
                    yield st, ExtVal(f"enum:{found[0].key}.{attr}")
                    return
                yield st, self.eval_const_expr(found[1], found[0].module, node)
                return
            mth = ci.find_method(attr)
            if mth is not None:
                if mth.is_classmethod:
                    yield st, BoundMethod(v, mth)
                else:
                    yield st, FuncVal(mth)
                return
            if attr == "__name__":
                yield st, ci.name
                return
            raise Unsupported(f"class attribute {ci.name}.{attr}", node)
        if isinstance(v, Opt):
            for st1, isn in self.branch(st, v.isnone, f"L{getattr(node, 'lineno', 0)}none"):
                if isn:
                    yield st1, Raised(ExcVal("AttributeError"))
                else:
                    yield from self.getattr(st1, v.val, attr, node, ctx)
            return
        if v is None:
            yield st, Raised(ExcVal("AttributeError"))
            return
        if isinstance(v, Tup):
            if v.cls is not None:
                yield from self.tuple_attr(st, v, attr, node, ctx)
                return
            raise Unsupported(f"attribute {attr} on plain tuple", node)
        if isinstance(v, Rec):
            yield st, v.get(attr)
            return
        if isinstance(v, ADT):
            fam = self.reg.adts[v.family]
            yield from fam.getattr(self, st, v, attr, node, ctx)
            return
        if isinstance(v, Ref):
            o = st.obj(v)
            if o.kind == "obj":
                yield from self.obj_attr(st, v, o, attr, node, ctx)
                return
            model = self.reg.models.get(o.kind)
            if model is not None and hasattr(model, "getattr"):
                yield from model.getattr(self, st, v, attr, node, ctx)
                return
            yield st, BuiltinMethod(v, attr)
            return
        if is_z3(v) or isinstance(v, (str, int, bytes)):
            yield st, BuiltinMethod(v, attr)
            return
        raise Unsupported(f"attribute {attr} on {_kind(v)}", node)

    def tuple_attr(self, st: State, v: Tup, attr: str, node: Any, ctx: Ctx) -> Res:
        ci: ClassInfo = v.cls
        if ci.is_namedtuple:
            if attr in ci.field_order:
                yield st, v.items[ci.field_order.index(attr)]
                return
        mth = ci.find_method(attr)
        if mth is not None:
            if mth.is_property:
                yield from self.call_function(st, mth, [v], {}, node, ctx)
            else:
                yield st, BoundMethod(v, mth)
            return
        raise Unsupported(f"attribute {attr} on tuple class {ci.name}", node)

    def obj_attr(self, st: State, r: Ref, o: HObj, attr: str, node: Any, ctx: Ctx) -> Res:
        if o.has(attr):
            yield st, o.get(attr)
            return
        cls = o.cls
        if isinstance(cls, ClassInfo):
            mth = cls.find_method(attr)
            if mth is not None:
                if mth.is_property:
                    yield from self.call_function(st, mth, [r], {}, node, ctx)
                elif mth.is_classmethod:
                    yield st, BoundMethod(ClassVal(cls), mth)
                elif mth.is_staticmethod:
                    yield st, FuncVal(mth)
                else:
                    yield st, BoundMethod(r, mth)
                return
            found = cls.find_class_attr(attr)
            if found is not None:
                yield st, self.eval_const_expr(found[1], found[0].module, node)
                return
            if attr == "__class__":
                yield st, ClassVal(cls)
                return
            for ext in cls.external_bases():
                model = self.reg.models.get("base:" + ext)
                if model is not None:
                    yield from model.getattr(self, st, r, attr, node, ctx)
                    return
        # the field does not exist on this symbolic object.  If some method of the class assigns it, the declared
        # shape is merely behind the code (new field): undecidable here, never a violation.
        if isinstance(cls, ClassInfo) and self.class_assigns_field(cls, attr):
            raise Unsupported(f"field {cls.name}.{attr} is assigned by the class but is not in the declared shape "
                              f"(contract shapes need updating)", node)
        yield st.with_note(f"missing attribute {attr}"), Raised(ExcVal("AttributeError", attr))

    def class_assigns_field(self, cls: ClassInfo, attr: str) -> bool:
        for c in cls.mro():
            if not isinstance(c, ClassInfo):
                continue
            if attr in c.annotations:
                return True
            for m in c.methods.values():
                for n in ast.walk(m.node):
                    if isinstance(n, ast.Attribute) and n.attr == attr and isinstance(n.ctx, ast.Store) \
                            and isinstance(n.value, ast.Name) and n.value.id == "self":
                        return True
        return False

    # -------------------------------------------------------------- subscript
    def eval_Subscript(self, e: ast.Subscript, st: State, ctx: Ctx) -> Res:
        if isinstance(e.slice, ast.Slice):
            raise Unsupported("slice", e)
        for st1, vs in self.evals([e.value, e.slice], st, ctx):
            if isinstance(vs, Raised):
                yield st1, vs
            else:
                yield from self.getitem(st1, vs[0], vs[1], e, ctx)

    def getitem(self, st: State, c: Any, i: Any, node: Any, ctx: Ctx) -> Res:
        if isinstance(c, Tup):
            if isinstance(i, int):
                if -len(c.items) <= i < len(c.items):
                    yield st, c.items[i]
                else:
                    yield st, Raised(ExcVal("IndexError"))
                return
            raise Unsupported("symbolic index into tuple", node)
        if isinstance(c, tuple) and c and c[0] == "display":
            # dict display lookup with KeyError
            pairs = self.display_dict(c, node)
            yield from self.table_lookup(st, pairs, i, node)
            return
        if isinstance(c, ClassVal):
            # generic alias like OrderedDict[str, int] handled at call
            yield st, c
            return
        if isinstance(c, ExtVal):
            yield st, c
            return
        if isinstance(c, Ref):
            o = st.obj(c)
            if o.kind == "list":
                items = o.get("items")
                if isinstance(i, int) and not any(isinstance(x, Seg) for x in items):
                    if -len(items) <= i < len(items):
                        yield st, items[i]
                    else:
                        yield st, Raised(ExcVal("IndexError"))
                    return
                if isinstance(i, int) and 0 <= i < len(items) and not any(isinstance(x, Seg) for x in items[: i + 1]):
                    yield st, items[i]      # a concrete prefix before the opaque rest
                    return
                raise Unsupported("symbolic index into list", node)
            model = self.reg.models.get(o.kind)
            if model is not None and hasattr(model, "getitem"):
                yield from model.getitem(self, st, c, i, node, ctx)
                return
        raise Unsupported(f"subscript on {_kind(c)}", node)

    def table_lookup(self, st: State, pairs: list[tuple[Any, Any]], key: Any, node: Any) -> Res:
        """d[key] for a literal dict table: case split over the entries, KeyError otherwise."""
        remaining = st
        for k, v in pairs:
            c = self.equal(remaining, key, k, node)
            miss = None
            for st1, b in self.branch(remaining, c, f"L{getattr(node, 'lineno', 0)}tbl"):
                if b:
                    yield st1, v
                else:
                    miss = st1
            if miss is None:
                return          # the key certainly equals this entry (the "no match" branch is infeasible)
            remaining = miss
        yield remaining, Raised(ExcVal("KeyError"))

    def eval_Lambda(self, e: ast.Lambda, st: State, ctx: Ctx) -> Res:
        st2, r = self.alloc(st, "lambda", None, node=e, module=ctx.module)
        yield st2, r

    def eval_Starred(self, e: ast.Starred, st: State, ctx: Ctx) -> Res:
        raise Unsupported("starred expression", e)

    def iterate_all(self, st: State, v: Any, node: Any) -> Res:
        """Fully iterate a finite value; yields (state, [items]) where items may contain Seg markers."""
        if isinstance(v, Tup):
            yield st, list(v.items)
            return
        if isinstance(v, Ref):
            o = st.obj(v)
            if o.kind in ("list",):
                yield st, list(o.get("items"))
                return
            model = self.reg.models.get(o.kind)
            if model is not None and hasattr(model, "iterate_all"):
                yield from model.iterate_all(self, st, v, node)
                return
            if o.kind == "obj" and isinstance(o.cls, ClassInfo):
                for ext in o.cls.external_bases():
                    model = self.reg.models.get("base:" + ext)
                    if model is not None and hasattr(model, "iterate_all"):
                        yield from model.iterate_all(self, st, v, node)
                        return
        raise Unsupported(f"cannot iterate {_kind(v)} completely", node)


def _kind(v: Any) -> str:
    if is_z3(v):
        return f"z3:{v.sort()}"
    return type(v).__name__
