"""Immutable symbolic state + views used by contract clauses."""
from __future__ import annotations

from typing import Any

import z3

from .values import ADT, HObj, Opt, Rec, Ref, Tup, Unsupported, is_z3


class State:
    __slots__ = ("pc", "locals", "heap", "out", "events", "note")

    def __init__(self, pc: tuple = (), locals_: dict | None = None, heap: dict | None = None,
                 out: tuple = (), events: tuple = (), note: tuple = ()) -> None:
        self.pc = pc
        self.locals = locals_ if locals_ is not None else {}
        self.heap = heap if heap is not None else {}
        self.out = out          # values yielded so far (generators)
        self.events = events    # ghost event trace
        self.note = note        # human-readable path notes (branch decisions)

    def assume(self, *conds: Any) -> "State":
        new = tuple(c for c in conds if c is not True)
        if not new:
            return self
        return State(self.pc + new, self.locals, self.heap, self.out, self.events, self.note)

    def with_note(self, s: str) -> "State":
        return State(self.pc, self.locals, self.heap, self.out, self.events, self.note + (s,))

    def set_local(self, name: str, v: Any) -> "State":
        d = dict(self.locals)
        d[name] = v
        return State(self.pc, d, self.heap, self.out, self.events, self.note)

    def del_local(self, name: str) -> "State":
        d = dict(self.locals)
        d.pop(name, None)
        return State(self.pc, d, self.heap, self.out, self.events, self.note)

    def with_locals(self, d: dict) -> "State":
        return State(self.pc, d, self.heap, self.out, self.events, self.note)

    def with_heap(self, h: dict) -> "State":
        return State(self.pc, self.locals, h, self.out, self.events, self.note)

    def heap_put(self, ref: Ref, obj: HObj) -> "State":
        h = dict(self.heap)
        h[ref.id] = obj
        return State(self.pc, self.locals, h, self.out, self.events, self.note)

    def heap_set(self, ref: Ref, field: str, v: Any) -> "State":
        return self.heap_put(ref, self.heap[ref.id].set(field, v))

    def obj(self, ref: Ref) -> HObj:
        return self.heap[ref.id]

    def emit(self, v: Any) -> "State":
        return State(self.pc, self.locals, self.heap, self.out + (v,), self.events, self.note)

    def event(self, ev: Any) -> "State":
        return State(self.pc, self.locals, self.heap, self.out, self.events + (ev,), self.note)


class Missing:
    """Marker for a field that does not exist on an object (a clause touching it cannot be proved)."""

    def __init__(self, what: str) -> None:
        self.what = what


class ClauseError(Exception):
    """A contract clause could not be evaluated in this state (e.g. a field the code no longer sets)."""


class View:
    """Read (and, for ghost updates, write) access to a heap object for contract clauses."""

    def __init__(self, env: "Env", ref: Ref, live: bool, heap: dict | None = None) -> None:
        object.__setattr__(self, "_env", env)
        object.__setattr__(self, "_ref", ref)
        object.__setattr__(self, "_live", live)
        object.__setattr__(self, "_heap", heap)

    def _h(self) -> dict:
        return self._env.st.heap if self._live else self._heap

    def _obj(self) -> HObj:
        return self._h()[self._ref.id]

    @property
    def kind(self) -> str:
        return self._obj().kind

    @property
    def cls(self) -> Any:
        return self._obj().cls

    def __getattr__(self, name: str) -> Any:
        if name.startswith("__"):
            raise AttributeError(name)
        o = self._obj()
        if not o.has(name):
            # class-level attribute?
            cls = o.cls
            if cls is not None and hasattr(cls, "find_class_attr"):
                found = cls.find_class_attr(name)
                if found is not None:
                    return self._env.eng.eval_class_attr(found[0], found[1])
            raise ClauseError(f"object {self._ref} of {getattr(o.cls, 'name', o.cls)} has no field {name!r}")
        return self._env.wrap(o.get(name), self._live, self._heap)

    def has_field(self, name: str) -> bool:
        return self._obj().has(name)

    def __setattr__(self, name: str, value: Any) -> None:
        if not self._live:
            raise ClauseError("cannot assign to old state")
        self._env.st = self._env.st.heap_set(self._ref, name, unwrap(value))

    def __eq__(self, other: Any) -> Any:  # identity
        if isinstance(other, View):
            return self._ref == other._ref
        return False

    def __hash__(self) -> int:
        return hash(self._ref)

    def __repr__(self) -> str:
        return f"View({self._ref})"

    # list-like helpers
    @property
    def items(self) -> list:
        o = self._obj()
        if o.kind not in ("list", "userlist", "iter"):
            raise ClauseError(f"{self._ref} is not a list")
        return [self._env.wrap(x, self._live, self._heap) for x in o.get("items")]


def unwrap(v: Any) -> Any:
    if isinstance(v, View):
        return v._ref
    return v


class Env:
    """Evaluation environment handed to contract clauses: e.<param>, e.old.<param>, e.result."""

    def __init__(self, eng: Any, st: State, binds: dict[str, Any]) -> None:
        object.__setattr__(self, "eng", eng)
        object.__setattr__(self, "st", st)
        object.__setattr__(self, "_binds", dict(binds))
        object.__setattr__(self, "_old_heap", None)
        object.__setattr__(self, "_old_binds", None)
        object.__setattr__(self, "result", None)
        object.__setattr__(self, "ghost", {})

    def snapshot_old(self) -> None:
        object.__setattr__(self, "_old_heap", self.st.heap)
        object.__setattr__(self, "_old_binds", dict(self._binds))

    def wrap(self, v: Any, live: bool = True, heap: dict | None = None) -> Any:
        if isinstance(v, Ref):
            return View(self, v, live, heap)
        if isinstance(v, Tup):
            return Tup(tuple(self.wrap(x, live, heap) for x in v.items), v.cls)
        if isinstance(v, Opt):
            return Opt(v.isnone, self.wrap(v.val, live, heap))
        if isinstance(v, ADT):
            return v.expr          # clauses work on the raw datatype term
        return v

    def __getattr__(self, name: str) -> Any:
        if name.startswith("__"):
            raise AttributeError(name)
        b = object.__getattribute__(self, "_binds")
        if name in b:
            return self.wrap(b[name])
        g = object.__getattribute__(self, "ghost")
        if name in g:
            return g[name]
        raise ClauseError(f"no parameter/local {name!r} in clause environment")

    def has(self, name: str) -> bool:
        return name in self._binds

    def bind(self, name: str, v: Any) -> None:
        self._binds[name] = unwrap(v)

    @property
    def old(self) -> "OldEnv":
        if self._old_heap is None:
            raise ClauseError("old state not available here")
        return OldEnv(self)

    def set_result(self, v: Any) -> None:
        object.__setattr__(self, "result", self.wrap(v))

    @property
    def yields(self) -> list:
        """what the generator has yielded on this path: values, and ("$...", ...) markers for opaque runs of yields"""
        return [v if (isinstance(v, tuple) and v and isinstance(v[0], str) and v[0].startswith("$")) else self.wrap(v)
                for v in self.st.out]

    @property
    def iter_yields(self) -> list:
        """what this loop iteration has yielded so far (everything after the loop-head marker)"""
        out = list(self.st.out)
        k = max((i for i, v in enumerate(out) if isinstance(v, tuple) and v and v[0] == "$yields"), default=-1)
        return [self.wrap(v) for v in out[k + 1:]]

    def __setattr__(self, name: str, value: Any) -> None:
        if name == "st":
            object.__setattr__(self, "st", value)
        else:
            raise ClauseError("clause environments are read-only except through views")


class OldEnv:
    def __init__(self, env: Env) -> None:
        self._env = env

    def __getattr__(self, name: str) -> Any:
        if name.startswith("__"):
            raise AttributeError(name)
        b = self._env._old_binds
        if name not in b:
            raise ClauseError(f"no parameter {name!r} in old environment")
        return self._env.wrap(b[name], False, self._env._old_heap)
