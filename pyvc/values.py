"""Value model of the symbolic executor (see DESIGN.md section 2.2)."""
from __future__ import annotations

import itertools
from dataclasses import dataclass, field
from typing import Any

import z3

_counter = itertools.count(1)


import re as _re

_BAD = _re.compile(r"[^A-Za-z0-9_.$]")


def fresh_name(base: str) -> str:
    # only characters legal in unquoted SMT-LIB symbols, so dumps parse in every back end
    return f"{_BAD.sub('_', base)}${next(_counter)}"


def fresh_int(base: str) -> z3.ArithRef:
    return z3.Int(fresh_name(base))


def fresh_bool(base: str) -> z3.BoolRef:
    return z3.Bool(fresh_name(base))


def fresh_str(base: str) -> z3.SeqRef:
    return z3.String(fresh_name(base))


def fresh_of_sort(base: str, sort: z3.SortRef) -> z3.ExprRef:
    return z3.Const(fresh_name(base), sort)


IntSort = z3.IntSort()
BoolSort = z3.BoolSort()
StrSort = z3.StringSort()


class Unsupported(Exception):
    """A construct outside the supported subset; never mapped to a violation."""

    def __init__(self, msg: str, node: Any = None) -> None:
        loc = ""
        if node is not None and hasattr(node, "lineno"):
            loc = f" (line {node.lineno})"
        super().__init__(msg + loc)


@dataclass(frozen=True)
class Ref:
    """Reference to a heap object."""
    id: int

    def __repr__(self) -> str:
        return f"@{self.id}"


@dataclass(frozen=True)
class Tup:
    """Immutable tuple value, possibly of a NamedTuple / tuple-subclass `cls`."""
    items: tuple
    cls: Any = None  # ClassInfo | None

    def __repr__(self) -> str:
        return f"Tup{self.items}"


@dataclass(frozen=True)
class Opt:
    """`T | None` whose None-ness is symbolic."""
    isnone: Any  # z3 Bool
    val: Any


@dataclass(frozen=True)
class Rec:
    """Immutable record of values (ghost/spec structs)."""
    name: str
    fields: tuple  # tuple of (name, value)

    def get(self, n: str) -> Any:
        for k, v in self.fields:
            if k == n:
                return v
        raise AttributeError(n)

    def __getattr__(self, n: str) -> Any:
        if n.startswith("__"):
            raise AttributeError(n)
        return self.get(n)

    def replace(self, **kw: Any) -> "Rec":
        return Rec(self.name, tuple((k, kw.get(k, v)) for k, v in self.fields))

    @staticmethod
    def make(name: str, **kw: Any) -> "Rec":
        return Rec(name, tuple(kw.items()))


@dataclass(frozen=True)
class Seg:
    """Opaque row segment of unknown length inside a list."""
    const: Any  # z3 const of sort SegSort
    tag: str = ""


SegSort = z3.DeclareSort("Seg")
seg_len = z3.Function("seg_len", SegSort, IntSort)


@dataclass(frozen=True)
class ClassVal:
    info: Any  # ClassInfo


@dataclass(frozen=True)
class FuncVal:
    info: Any  # FuncInfo


@dataclass(frozen=True)
class BoundMethod:
    recv: Any
    info: Any  # FuncInfo
    cls: Any = None  # static class used for lookup (super())


@dataclass(frozen=True)
class ModuleVal:
    name: str


@dataclass(frozen=True)
class ExtVal:
    """External (library) object identified by a dotted name, e.g. 'jelly.RdfIri', 'io.BufferedReader'."""
    name: str


@dataclass(frozen=True)
class BuiltinMethod:
    recv: Any
    name: str


@dataclass(frozen=True)
class ExcVal:
    cls: str           # exception class name
    msg: Any = None

    def __repr__(self) -> str:
        return f"Exc({self.cls})"


@dataclass(frozen=True)
class Raised:
    exc: ExcVal


@dataclass(frozen=True)
class ADT:
    """Value of a z3 algebraic datatype standing for a Python object of a closed class family."""
    expr: Any
    family: str


@dataclass(frozen=True)
class HObj:
    """Immutable heap cell; updates create a new cell."""
    kind: str                 # obj | list | od | deque | msg | dict | iter | cell | ...
    cls: Any                  # ClassInfo | str | None
    fields: tuple             # tuple of (name, value), small

    def get(self, n: str, default: Any = KeyError) -> Any:
        for k, v in self.fields:
            if k == n:
                return v
        if default is KeyError:
            raise KeyError(n)
        return default

    def has(self, n: str) -> bool:
        return any(k == n for k, _ in self.fields)

    def set(self, n: str, v: Any) -> "HObj":
        found = False
        out = []
        for k, old in self.fields:
            if k == n:
                out.append((k, v))
                found = True
            else:
                out.append((k, old))
        if not found:
            out.append((n, v))
        return HObj(self.kind, self.cls, tuple(out))

    def names(self) -> list[str]:
        return [k for k, _ in self.fields]


EXC_PARENTS = {
    "BaseException": None,
    "Exception": "BaseException",
    "ArithmeticError": "Exception",
    "AssertionError": "Exception",
    "AttributeError": "Exception",
    "LookupError": "Exception",
    "IndexError": "LookupError",
    "KeyError": "LookupError",
    "NotImplementedError": "RuntimeError",
    "RuntimeError": "Exception",
    "StopIteration": "Exception",
    "TypeError": "Exception",
    "ValueError": "Exception",
    "UnicodeEncodeError": "ValueError",
    "OSError": "Exception",
    "EOFError": "Exception",
    "DecodeError": "Exception",      # google.protobuf.message.DecodeError
    "MemoryError": "Exception",
    "OverflowError": "ArithmeticError",
    # pyjelly.errors (checked against the source by the engine on start-up)
    "JellyConformanceError": "Exception",
    "JellyAssertionError": "AssertionError",
    "JellyNotImplementedError": "NotImplementedError",
}


def exc_is_a(cls: str, parent: str) -> bool:
    c: str | None = cls
    while c is not None:
        if c == parent:
            return True
        c = EXC_PARENTS.get(c)
    return False


def is_z3(v: Any) -> bool:
    return isinstance(v, z3.ExprRef)


def is_int(v: Any) -> bool:
    return (isinstance(v, int) and not isinstance(v, bool)) or (is_z3(v) and z3.is_int(v))


def is_bool(v: Any) -> bool:
    return isinstance(v, bool) or (is_z3(v) and z3.is_bool(v))


def is_str(v: Any) -> bool:
    return isinstance(v, str) or (is_z3(v) and z3.is_string(v))


def to_z3(v: Any) -> z3.ExprRef:
    if is_z3(v):
        return v
    if isinstance(v, bool):
        return z3.BoolVal(v)
    if isinstance(v, int):
        return z3.IntVal(v)
    if isinstance(v, str):
        return z3.StringVal(v)
    raise Unsupported(f"cannot convert {v!r} to an SMT term")


def And(*xs: Any) -> Any:
    flat = []
    for x in xs:
        if isinstance(x, (list, tuple)):
            x = And(*x)
        if x is True:
            continue
        if x is False:
            return False
        flat.append(x)
    if not flat:
        return True
    if len(flat) == 1:
        return flat[0]
    return z3.And(*flat)


def Or(*xs: Any) -> Any:
    flat = []
    for x in xs:
        if isinstance(x, (list, tuple)):
            x = Or(*x)
        if x is False:
            continue
        if x is True:
            return True
        flat.append(x)
    if not flat:
        return False
    if len(flat) == 1:
        return flat[0]
    return z3.Or(*flat)


def Not(x: Any) -> Any:
    if isinstance(x, bool):
        return not x
    return z3.Not(x)


def Implies(a: Any, b: Any) -> Any:
    if a is True:
        return b
    if a is False:
        return True
    if b is True:
        return True
    if b is False:
        return Not(a)
    return z3.Implies(a, b)


def Iff(a: Any, b: Any) -> Any:
    if isinstance(a, bool) and isinstance(b, bool):
        return a == b
    return to_z3(a) == to_z3(b)


def Ite(c: Any, a: Any, b: Any) -> Any:
    if c is True:
        return a
    if c is False:
        return b
    return z3.If(c, to_z3(a), to_z3(b))


def bool_z3(x: Any) -> z3.BoolRef:
    if isinstance(x, bool):
        return z3.BoolVal(x)
    return x
