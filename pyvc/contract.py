"""
Sidecar contract registry.

A contract is a class decorated with ``@contract("<module>:<qualname>")``:

    @contract("pyjelly.serialize.lookup:Lookup.insert", serves=["C05", ...])
    class _:
        params   = {"self": OBJ(LOOKUP), "key": STR}      # sorts of the symbolic pre-state
        result   = INT
        modifies = ["self.data", "self._evicting", "self.key_at"]
        def requires(e): return ...                       # e.<param> views on the pre-state
        def raises(e): return {"IndexError": <cond over pre-state>}   # raised exactly when cond
        def ghost_exit(e): e.self.key_at = ...            # ghost updates on normal return
        def ensures(e): return {"label": <bool>, ...}     # e.old.<param> = pre-state, e.result
        def on_raise(e): return {"label": <bool>}         # post-state on exceptional exit (default: unchanged)

Clause functions run under python3-vt and build z3 terms from the views
(shallow embedding); the *code under verification* is never written here.
Lemma functions are registered with ``@lemma``; their bodies are Python source in
the supported subset and are symbolically executed like real code, with calls
going through contracts only.
"""
from __future__ import annotations

import inspect
from dataclasses import dataclass, field
from typing import Any, Callable

# ----------------------------------------------------------------- sort specs


@dataclass(frozen=True)
class Sort:
    kind: str
    arg: Any = None
    arg2: Any = None

    def __repr__(self) -> str:
        return f"{self.kind}({self.arg})" if self.arg is not None else self.kind


INT = Sort("int")
NAT = Sort("nat")            # int with the type invariant >= 0 assumed (uint32 fields, sizes)
UINT32 = Sort("uint32")      # 0 <= v < 2**32
BOOL = Sort("bool")
STR = Sort("str")
NONE = Sort("none")
OD = Sort("od")              # OrderedDict[str,int]
DEQUE = Sort("deque")        # deque[str|None] with maxlen
BYTES = Sort("bytes")
ROWS = Sort("rows")          # sequence of RdfStreamRow of unknown length (one opaque segment)
ANY = Sort("any")            # opaque Python object (only identity matters)


def OBJ(key: str) -> Sort:
    return Sort("obj", key)


def ROWS_UPTO(n: int) -> Sort:
    """list of 0..n RdfStreamRow messages (callers fork over the length)"""
    return Sort("rows_upto", n)


def NEWOBJ(key: str) -> Sort:
    """`self` of a constructor: a freshly allocated object of the class, no fields set yet."""
    return Sort("newobj", key)


def OPT(s: Sort) -> Sort:
    return Sort("opt", s)


def MSG(name: str) -> Sort:
    return Sort("msg", name)


def REC(name: str) -> Sort:
    return Sort("rec", name)


def TUP(*items: Sort) -> Sort:
    return Sort("tup", tuple(items))


def NTUP(key: str, *items: Sort) -> Sort:
    """instance of the NamedTuple class `key` with fields of these sorts"""
    return Sort("ntup", key, tuple(items))


def ADTS(family: str) -> Sort:
    return Sort("adt", family)


def ENUM(name: str) -> Sort:
    return Sort("enum", name)


def LISTOF(s: Sort, n: int) -> Sort:
    return Sort("listof", s, n)


def ITER(s: Sort, n: int) -> Sort:
    """an iterator that will deliver exactly n more items of sort s"""
    return Sort("iter", s, n)


def ARR(dom: Sort, rng: Sort) -> Sort:
    return Sort("arr", dom, rng)


class NEW:
    """in a `lists` case: one freshly created element of this sort (e.g. a new row message)"""
    def __init__(self, sort: Sort, name: str = "new") -> None:
        self.sort = sort
        self.name = name


def ABSITER(elem: Sort) -> Sort:
    """an iterable of unknown length whose items are of sort `elem` (consumed by loops that carry an invariant)"""
    return Sort("absiter", elem)


def ABSMAP(key: Sort, val: Sort) -> Sort:
    """a mapping of unknown size: only .items()/.values()/.keys() as abstract iterables"""
    return Sort("absmap", key, val)


def CONSTV(value: Any) -> Sort:
    return Sort("const", value)


# ------------------------------------------------------------------- registry


@dataclass
class Shape:
    key: str
    fields: dict[str, Sort]
    ghost: dict[str, Sort] = field(default_factory=dict)
    invariant: Callable[[Any], Any] | None = None   # type invariant assumed for every instance in a pre-state
    rebuild: Callable[[Any], None] | None = None     # replay only: recompute state-determined ghost fields from real ones


@dataclass
class RecShape:
    name: str
    fields: dict[str, Sort]


@dataclass
class Contract:
    key: str
    serves: list[str]
    params: dict[str, Sort]
    result: Sort | None
    modifies: list[str]
    requires: Callable[[Any], Any] | None
    ensures: Callable[[Any], dict[str, Any]] | None
    raises: Callable[[Any], dict[Any, Any]] | None
    ghost_exit: Callable[[Any], None] | None
    on_raise: Callable[[Any], dict[str, Any]] | None
    loops: dict[int, Any]
    trusted: bool = False          # assumed, not verified (library/external); listed in evidence
    inline: bool = False           # no contract: body is executed at call sites (trivial accessors only)
    pure: bool = False
    doc: str = ""
    file: str = ""
    tags: dict[str, list[str]] = field(default_factory=dict)  # ensures-label -> properties
    is_lemma: bool = False
    lemma_src: str = ""
    cover: Callable[[Any], dict[str, Any]] | None = None
    touches: list[str] = field(default_factory=list)   # message parameters the callee writes into (presence propagates)
    case_split: Callable[[Any], dict[str, Any]] | None = None   # call sites fork on these (exhaustive) cases: keeps queries small
    shards: int = 1       # discharge this function's obligations in that many worker processes
    advances: dict[str, int] = field(default_factory=dict)           # iterator parameter -> items consumed on normal return
    variants: list = field(default_factory=list)                     # list of {param: Sort} overrides; the body is verified once per variant
    inline_at_calls: bool = False                                    # verified against this contract, but call sites execute the body
    tag_suffix: dict[str, list[str]] = field(default_factory=dict)   # ensures-label suffix -> properties
    ghost_enter: Callable[[Any], None] | None = None                  # ghost prologue (body verification only)
    aliases: Callable[[Any], dict] | None = None          # {"self.f": value}: fields that hold exactly this (identical) object/value afterwards
    lists: Callable[[Any], list] | None = None            # structural post-state of row lists, by case (see engine.apply_list_cases)
    lists_on_raise: Callable[[Any], list] | None = None
    silent: Callable[[Any], bool] | None = None          # generators: when true for the arguments, the generator yields nothing at all (proved on the body; consumers record no yields)
    yields: Any = None            # generator functions: Sort of the items a consumer receives (consumer loops see an abstract iterable of them)
    linear: bool = False          # the Optional[message] result is a resource: whoever obtains one must yield/return it (frames are never dropped)
    yields_linear: bool = False   # generator body: every linear resource obtained on a path has been yielded when the iteration/generator ends


class Registry:
    def __init__(self) -> None:
        self.contracts: dict[str, Contract] = {}
        self.shapes: dict[str, Shape] = {}
        self.recs: dict[str, RecShape] = {}
        self.lemmas: dict[str, Contract] = {}
        self.tables: list[Any] = []
        self.adts: dict[str, Any] = {}
        self.models: dict[str, Any] = {}
        self.inline: set[str] = set()

    def add(self, c: Contract) -> None:
        if c.key in self.contracts:
            raise ValueError(f"duplicate contract for {c.key}")
        self.contracts[c.key] = c

    def for_property(self, pid: str) -> list[Contract]:
        return [c for c in list(self.contracts.values()) + list(self.lemmas.values()) if pid in c.serves]


REGISTRY = Registry()


def _fn(cls: type, name: str) -> Any:
    f = cls.__dict__.get(name)
    if isinstance(f, staticmethod):
        f = f.__func__
    return f


def contract(key: str, serves: list[str] | None = None, trusted: bool = False, inline: bool = False) -> Callable[[type], type]:
    def deco(cls: type) -> type:
        c = Contract(
            key=key,
            serves=list(serves or []),
            params=dict(cls.__dict__.get("params", {})),
            result=_fn(cls, "result") if isinstance(cls.__dict__.get("result"), staticmethod) else cls.__dict__.get("result"),
            modifies=list(cls.__dict__.get("modifies", [])),
            requires=_fn(cls, "requires"),
            ensures=_fn(cls, "ensures"),
            raises=_fn(cls, "raises"),
            ghost_exit=_fn(cls, "ghost_exit"),
            on_raise=_fn(cls, "on_raise"),
            loops=dict(cls.__dict__.get("loops", {})),
            trusted=trusted or bool(cls.__dict__.get("trusted", False)),
            inline=inline,
            doc=(cls.__doc__ or "").strip(),
            file=inspect.getsourcefile(cls) or "",
            tags=dict(cls.__dict__.get("tags", {})),
            cover=_fn(cls, "cover"),
            touches=list(cls.__dict__.get("touches", [])),
            case_split=_fn(cls, "case_split"),
            shards=int(cls.__dict__.get("shards", 1)),
            advances=dict(cls.__dict__.get("advances", {})),
            variants=list(cls.__dict__.get("variants", [])),
            inline_at_calls=bool(cls.__dict__.get("inline_at_calls", False)),
            tag_suffix=dict(cls.__dict__.get("tag_suffix", {})),
            ghost_enter=_fn(cls, "ghost_enter"),
            aliases=_fn(cls, "aliases"),
            lists=_fn(cls, "lists"),
            lists_on_raise=_fn(cls, "lists_on_raise"),
            silent=_fn(cls, "silent"),
            yields=cls.__dict__.get("yields"),
            linear=bool(cls.__dict__.get("linear", False)),
            yields_linear=bool(cls.__dict__.get("yields_linear", False)),
        )
        c.virtual = bool(cls.__dict__.get("virtual", False))
        REGISTRY.add(c)
        return cls
    return deco


def lemma(name: str, serves: list[str], src: str) -> Callable[[type], type]:
    """Register a lemma: `src` is the Python source of a function in the supported subset."""
    def deco(cls: type) -> type:
        c = Contract(
            key=f"lemma:{name}",
            serves=list(serves),
            params=dict(cls.__dict__.get("params", {})),
            result=cls.__dict__.get("result"),
            modifies=list(cls.__dict__.get("modifies", [])),
            requires=_fn(cls, "requires"),
            ensures=_fn(cls, "ensures"),
            raises=_fn(cls, "raises"),
            ghost_exit=_fn(cls, "ghost_exit"),
            on_raise=_fn(cls, "on_raise"),
            loops=dict(cls.__dict__.get("loops", {})),
            doc=(cls.__doc__ or "").strip(),
            file=inspect.getsourcefile(cls) or "",
            tags=dict(cls.__dict__.get("tags", {})),
            is_lemma=True,
            lemma_src=src,
            cover=_fn(cls, "cover"),
        )
        REGISTRY.lemmas[c.key] = c
        return cls
    return deco


def shape(key: str, fields: dict[str, Sort], ghost: dict[str, Sort] | None = None,
          invariant: Callable[[Any], Any] | None = None, rebuild: Callable[[Any], None] | None = None) -> None:
    REGISTRY.shapes[key] = Shape(key, dict(fields), dict(ghost or {}), invariant, rebuild)


def recshape(name: str, **fields: Sort) -> None:
    REGISTRY.recs[name] = RecShape(name, dict(fields))


@dataclass
class LoopSpec:
    """Specification of the loop with the given ordinal (source order, `for`/`while` statements) in a function.

    summary(e, item, j) -> dict label -> bool: what one iteration does, over e.old.<local> (state at the start of the
      iteration) and e.<local> (after it); used for `for` loops over concrete tuples: each iteration's body is verified
      against it, then the summary alone carries the state on (one path instead of a product of paths);
    raises(e_old, item, j) -> dict exception -> condition (exactly when the iteration raises);
    modifies: locals and heap paths (rooted at locals) the body may change."""
    summary: Callable[[Any, Any, int], dict[str, Any]] | None = None
    modifies: list[str] = field(default_factory=list)
    raises: Callable[[Any, Any, int], dict[Any, Any]] | None = None
    invariant: Callable[[Any], dict[str, Any]] | None = None
    appends: dict[str, Any] = field(default_factory=dict)   # list local -> Sort of the one element each iteration appends
    after_each: Callable[[Any], dict[str, Any]] | None = None   # invariant loops: holds at the end of every iteration (proved there, not assumed at the head)
    silent: Callable[[Any], bool] | None = None     # invariant loops in generators: when true (decided at the loop head) no iteration yields anything (proved per iteration; no opaque-yields marker is recorded)
    elem: Any = None      # invariant loops over a row list of unknown length: Sort of one element
    local_sorts: dict[str, Any] = field(default_factory=dict)   # invariant loops: Sort of a havoced local whose value changes kind (None -> object)
    extends: list[str] = field(default_factory=list)        # invariant loops: row lists that only ever grow (old items + unknown rest)


def inline(key: str) -> None:
    """No contract: the real body is executed at every call site (exact, non-modular). For small pure leaf functions
    whose only meaningful specification is the property-level lemma that calls them."""
    REGISTRY.inline.add(key)
