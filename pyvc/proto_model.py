"""
A-PROTO: model of protobuf (upb) message objects, generated from the descriptor dump of the tree under check.

heap kind 'msg', cls = message name; fields:
  <scalar>            value (proto3 default when never set)
  <message field>     Ref | None (None: child not materialised yet; reading materialises without setting presence)
  <repeated field>    Ref to a list
  $which:<oneof>      None | member name (concrete)  or  z3 Int tag (symbolic: 0 unset, i = 1-based member index)
  $has:<field>        presence of a non-oneof message field (bool / z3 Bool)
  $parent             None | (Ref, field)   -- presence propagates to the parent on any write
  $sym                True for symbolic (input) messages: unmaterialised children are fresh symbolic messages
"""
from __future__ import annotations

from typing import Any

import z3

from . import values as V
from .contract import REGISTRY, Sort
from .state import State
from .values import (And, BuiltinMethod, ExcVal, ExtVal, HObj, Not, Opt, Or, Raised, Ref, Seg, Tup, Unsupported, is_z3,
                     to_z3)

U32_MAX = 2 ** 32


def _line(node: Any) -> int:
    return getattr(node, "lineno", 0)


class ProtoModel:
    name = "A-PROTO protobuf message objects (upb)"
    kind = "msg"

    def __init__(self, proto: dict) -> None:
        self.proto = proto
        self.msgs = proto["messages"]
        self._rec: dict[str, bool] = {}

    def recursive(self, name: str, seen: tuple = ()) -> bool:
        """does message type `name` (transitively) contain itself?"""
        if name in self._rec:
            return self._rec[name]
        def reach(n: str, acc: set) -> set:
            for f in self.msgs[n]["fields"]:
                if f["type"] == "message" and not f["map"] and f["message"] not in acc:
                    acc.add(f["message"])
                    reach(f["message"], acc)
            return acc
        r = name in reach(name, set())
        self._rec[name] = r
        return r

    # ----------------------------------------------------------- descriptors
    def fdesc(self, msg: str, field: str) -> dict | None:
        for f in self.msgs[msg]["fields"]:
            if f["name"] == field:
                return f
        return None

    def oneofs(self, msg: str) -> dict[str, list[str]]:
        return self.msgs[msg]["oneofs"]

    def default(self, f: dict) -> Any:
        t = f["type"]
        if t in ("uint32", "uint64", "int32", "int64", "enum"):
            return 0
        if t == "bool":
            return False
        if t == "string":
            return ""
        if t == "bytes":
            return b""
        return None

    # ---------------------------------------------------------- construction
    def new(self, eng: Any, st: State, name: str, sym: bool = False, parent: Any = None, base: str = "",
            rec_depth: int = 1) -> tuple[State, Ref, list]:
        fields: dict[str, Any] = {}
        invs: list = []
        for f in self.msgs[name]["fields"]:
            if f["repeated"]:
                if f["map"]:
                    # a map field: opaque content; whether it is empty is unknown for a symbolic message, empty for a new one
                    st, r = eng.alloc(st, "pmap", None, id=V.fresh_int("map"), nonempty=(V.fresh_bool(f"{base}.{f['name']}.nonempty") if sym else False))
                    fields[f["name"]] = r
                elif sym:
                    seg = Seg(V.fresh_of_sort(f"{base}.{f['name']}", V.SegSort), f["name"])
                    st, r = eng.alloc(st, "list", None, items=(seg,))
                    invs.append(V.seg_len(seg.const) >= 0)
                    fields[f["name"]] = r
                else:
                    st, r = eng.alloc(st, "list", None, items=())
                    fields[f["name"]] = r
            elif f["type"] == "message":
                fields[f["name"]] = None
                if not f["oneof"]:
                    fields["$has:" + f["name"]] = V.fresh_bool(f"{base}.has_{f['name']}") if sym else False
            else:
                if sym:
                    fields[f["name"]], inv = self._fresh_scalar(f, f"{base}.{f['name']}")
                    invs += inv
                else:
                    fields[f["name"]] = self.default(f)
        for oname, members in self.oneofs(name).items():
            if sym:
                tag = V.fresh_int(f"{base}.which_{oname}")
                invs += [tag >= 0, tag <= len(members)]
                fields["$which:" + oname] = tag
            else:
                fields["$which:" + oname] = None
        fields["$parent"] = parent
        fields["$sym"] = sym
        fields["$written"] = False      # ghost: has any field of this message object been written since it was handed out?
        if name == "RdfTriple":
            # ghost: "decoding this message as a quoted triple is rejected" (opaque, see contracts/decode.py)
            fields["$qinvalid"] = V.fresh_bool(f"{base}.qinvalid") if sym else False
        st, r = eng.alloc(st, "msg", name, **fields)
        if sym:
            # children of non-recursive types are materialised eagerly so that contract clauses can read them
            for f in self.msgs[name]["fields"]:
                if f["type"] == "message" and not f["repeated"] and (not self.recursive(f["message"]) or rec_depth > 0):
                    st, c, inv2 = self.new(eng, st, f["message"], sym=True, parent=Tup((r, f["name"])),
                                           base=f"{base}.{f['name']}",
                                           rec_depth=rec_depth - (1 if self.recursive(f["message"]) else 0))
                    invs += inv2
                    st = st.heap_set(r, f["name"], c)
                    # an absent sub-message reads as the default instance
                    invs.append(V.Implies(Not(self.is_set(st, r, f["name"])), self.is_default(st, c)))
        return st, r, invs

    def is_default(self, st: State, r: Ref) -> Any:
        """message r has no field set (what protobuf hands out when an unset sub-message is read)"""
        o = st.obj(r)
        conj = []
        for f in self.msgs[o.cls]["fields"]:
            n = f["name"]
            if f["repeated"]:
                v = o.get(n)
                if isinstance(v, Ref) and st.obj(v).kind == "list":
                    for it in st.obj(v).get("items"):
                        conj.append(V.seg_len(it.const) == 0 if isinstance(it, Seg) else False)
            elif f["type"] == "message":
                c = o.get(n)
                if not f["oneof"]:
                    conj.append(Not(o.get("$has:" + n)))
                if isinstance(c, Ref):
                    conj.append(self.is_default(st, c))
            else:
                conj.append(eng_equal(o.get(n), self.default(f)))
        for oname in self.oneofs(o.cls):
            w = o.get("$which:" + oname)
            conj.append(w is None if (w is None or isinstance(w, str)) else w == 0)
        return And(*conj)

    def _fresh_scalar(self, f: dict, name: str) -> tuple[Any, list]:
        t = f["type"]
        if t in ("uint32",):
            x = V.fresh_int(name)
            return x, [x >= 0, x < U32_MAX]
        if t in ("uint64", "int32", "int64", "enum"):
            x = V.fresh_int(name)
            return x, ([x >= 0] if t != "int32" and t != "int64" else [])
        if t == "bool":
            return V.fresh_bool(name), []
        if t == "string":
            return V.fresh_str(name), []
        raise Unsupported(f"symbolic protobuf field of type {t}")

    def make(self, eng: Any, st: State, sort: Sort, name: str) -> tuple[State, Any, list]:
        st, r, invs = self.new(eng, st, sort.arg, sym=True, base=name)
        return st, r, invs

    def construct(self, eng: Any, st: State, name: str, args: list, kwargs: dict, node: Any, ctx: Any):
        if args:
            raise Unsupported("positional arguments to a protobuf constructor", node)
        st, r, _ = self.new(eng, st, name)

        def go(st: State, items: list):
            if not items:
                yield st, r
                return
            (k, v), rest = items[0], items[1:]
            for st1, out in self.setfield(eng, st, r, k, v, node, ctor=True):
                if out[0] == "normal":
                    yield from go(st1, rest)
                else:
                    yield st1, Raised(out[1])
        yield from go(st, list(kwargs.items()))

    # ---------------------------------------------------------------- access
    def which_value(self, st: State, r: Ref, oneof: str) -> Any:
        return st.obj(r).get("$which:" + oneof)

    def is_set(self, st: State, r: Ref, field: str) -> Any:
        """Bool (py or z3): is oneof member / message field `field` present?"""
        o = st.obj(r)
        f = self.fdesc(o.cls, field)
        if f is None:
            raise Unsupported(f"{o.cls} has no field {field}")
        if f["oneof"]:
            w = o.get("$which:" + f["oneof"])
            members = self.oneofs(o.cls)[f["oneof"]]
            if w is None or isinstance(w, str):
                return w == field
            return w == members.index(field) + 1
        if f["type"] == "message":
            return o.get("$has:" + field)
        raise Unsupported(f"presence of implicit-presence field {field}")

    def getattr(self, eng: Any, st: State, r: Ref, attr: str, node: Any, ctx: Any):
        o = st.obj(r)
        f = self.fdesc(o.cls, attr)
        if f is None:
            if attr in ("WhichOneof", "HasField", "CopyFrom", "SerializeToString", "SetInParent", "ByteSize", "Clear",
                        "ClearField", "ListFields", "MergeFrom", "ParseFromString"):
                yield st, BuiltinMethod(r, attr)
                return
            if attr == "DESCRIPTOR":
                raise Unsupported("DESCRIPTOR access", node)
            yield st, Raised(ExcVal("AttributeError", attr))
            return
        if f["repeated"]:
            yield st, o.get(attr)
            return
        if f["type"] == "message":
            child = o.get(attr)
            if child is None:
                st, child, invs = self.new(eng, st, f["message"], sym=bool(o.get("$sym")), parent=Tup((r, attr)),
                                           base=f"{attr}")
                st = st.assume(*invs).heap_set(r, attr, child)
                if o.get("$sym"):
                    st = st.assume(V.Implies(Not(self.is_set(st, r, attr)), self.is_default(st, child)))
            yield st, child
            return
        val = o.get(attr)
        if f["oneof"]:
            present = self.is_set(st, r, attr)
            if present is True:
                yield st, val
            elif present is False:
                yield st, self.default(f)
            else:
                yield st, z3.If(present, to_z3(val), to_z3(self.default(f)))
            return
        yield st, val

    def getattr_dyn(self, eng: Any, st: State, r: Ref, name: Any, node: Any, ctx: Any):
        raise Unsupported("getattr with symbolic field name on a message", node)

    def setattr(self, eng: Any, st: State, r: Ref, attr: str, v: Any, node: Any, ctx: Any):
        yield from self.setfield(eng, st, r, attr, v, node)

    def setfield(self, eng: Any, st: State, r: Ref, attr: str, v: Any, node: Any, ctor: bool = False):
        o = st.obj(r)
        f = self.fdesc(o.cls, attr)
        if f is None:
            yield st, ("raise", ExcVal("AttributeError" if not ctor else "ValueError", attr))
            return
        if isinstance(v, Opt):
            for st1, isn in eng.branch(st, v.isnone, f"L{_line(node)}protoNone"):
                if isn:
                    if ctor:
                        yield st1, ("normal",)      # keyword argument None == field left unset
                    else:
                        yield st1, ("raise", ExcVal("TypeError"))
                else:
                    yield from self.setfield(eng, st1, r, attr, v.val, node, ctor)
            return
        if v is None:
            if ctor:
                yield st, ("normal",)
            else:
                yield st, ("raise", ExcVal("TypeError"))
            return
        if f["repeated"]:
            if not ctor:
                raise Unsupported("assignment to a repeated field", node)
            if f["map"]:
                raise Unsupported("map field in constructor", node)
            for st1, items in eng.iterate_all(st, v, node):
                if isinstance(items, Raised):
                    yield st1, ("raise", items.exc)
                else:
                    lst = st1.obj(r).get(attr)
                    yield st1.heap_set(lst, "items", tuple(items)), ("normal",)
            return
        if f["type"] == "message":
            if not ctor:
                yield st, ("raise", ExcVal("AttributeError"))     # protobuf: composite fields cannot be assigned
                return
            if not (isinstance(v, Ref) and st.obj(v).kind == "msg" and st.obj(v).cls == f["message"]):
                yield st, ("raise", ExcVal("TypeError"))
                return
            st, child = self.deep_copy(eng, st, v, parent=Tup((r, attr)))
            st = st.heap_set(r, attr, child)
            st = self.mark_present(st, r, attr)
            yield st, ("normal",)
            return
        t = f["type"]
        if t in ("uint32", "uint64", "int32", "int64", "enum"):
            if V.is_bool(v) and not V.is_int(v):
                v = z3.If(V.bool_z3(v), 1, 0) if is_z3(v) else int(v)
            if not V.is_int(v):
                yield st, ("raise", ExcVal("TypeError"))
                return
            if t == "uint32":
                ok = And(v >= 0, v < U32_MAX)
            elif t == "enum":
                ok = And(v >= -2 ** 31, v < 2 ** 31)
            else:
                ok = True
            for st1, b in eng.branch(st, ok, f"L{_line(node)}u32range"):
                if b:
                    yield self._store_scalar(st1, r, f, attr, v), ("normal",)
                else:
                    yield st1, ("raise", ExcVal("ValueError"))
            return
        if t == "bool":
            if V.is_bool(v):
                yield self._store_scalar(st, r, f, attr, v), ("normal",)
            elif V.is_int(v):
                yield self._store_scalar(st, r, f, attr, v != 0), ("normal",)
            else:
                yield st, ("raise", ExcVal("TypeError"))
            return
        if t == "string":
            if not V.is_str(v):
                if isinstance(v, V.ADT):
                    fam = REGISTRY.adts[v.family]
                    if hasattr(fam, "as_str"):
                        sv = fam.as_str(eng, st, v)
                        if sv is not None:
                            yield self._store_scalar(st, r, f, attr, sv), ("normal",)
                            return
                yield st, ("raise", ExcVal("TypeError"))
                return
            # A-PROTO: every str handed to protobuf is UTF-8 encodable (no lone surrogates)
            yield self._store_scalar(st, r, f, attr, v), ("normal",)
            return
        raise Unsupported(f"assignment to protobuf field of type {t}", node)

    def _store_scalar(self, st: State, r: Ref, f: dict, attr: str, v: Any) -> State:
        st = st.heap_set(r, attr, v)
        if f["oneof"]:
            st = self.mark_present(st, r, attr)
        else:
            st = self.touch(st, r)
        return st

    def mark_present(self, st: State, r: Ref, field: str) -> State:
        o = st.obj(r)
        f = self.fdesc(o.cls, field)
        if f and f["oneof"]:
            st = st.heap_set(r, "$which:" + f["oneof"], field)
        elif f and f["type"] == "message":
            st = st.heap_set(r, "$has:" + field, True)
        return self.touch(st, r)

    def touch(self, st: State, r: Ref) -> State:
        """A write inside message r makes r present in its parent (and so on upwards)."""
        st = st.heap_set(r, "$written", True)
        p = st.obj(r).get("$parent")
        if p is None:
            return st
        pr, pf = p.items
        return self.mark_present(st, pr, pf)

    def deep_copy(self, eng: Any, st: State, src: Ref, parent: Any = None) -> tuple[State, Ref]:
        o = st.obj(src)
        fields = dict(o.fields)
        fields["$parent"] = parent
        st, r = eng.alloc(st, "msg", o.cls, **fields)
        for f in self.msgs[o.cls]["fields"]:
            v = o.get(f["name"])
            if f["repeated"] and isinstance(v, Ref) and st.obj(v).kind == "list":
                st, lr = eng.alloc(st, "list", None, items=st.obj(v).get("items"))
                st = st.heap_set(r, f["name"], lr)
            elif f["type"] == "message" and isinstance(v, Ref):
                st, c = self.deep_copy(eng, st, v, parent=Tup((r, f["name"])))
                st = st.heap_set(r, f["name"], c)
        return st, r

    def havoc(self, eng: Any, st: State, r: Ref, base: str) -> State:
        """callee may have written anything into message r: every field, oneof tag and presence bit becomes symbolic"""
        o = st.obj(r)
        name = o.cls
        pending_children: list[str] = []
        for f in self.msgs[name]["fields"]:
            n = f["name"]
            if f["repeated"]:
                v = o.get(n)
                if isinstance(v, Ref) and st.obj(v).kind == "list":
                    seg = Seg(V.fresh_of_sort(f"{base}.{n}", V.SegSort), n)
                    st = st.assume(V.seg_len(seg.const) >= 0).heap_set(v, "items", (seg,))
            elif f["type"] == "message":
                c = o.get(n)
                if isinstance(c, Ref):
                    st = self.havoc(eng, st, c, f"{base}.{n}")
                elif not self.recursive(f["message"]):
                    st, c, invs = self.new(eng, st, f["message"], sym=True, parent=Tup((r, n)), base=f"{base}.{n}")
                    st = st.assume(*invs).heap_set(r, n, c)
                if not f["oneof"]:
                    st = st.heap_set(r, "$has:" + n, V.fresh_bool(f"{base}.has_{n}"))
                pending_children.append(n)
            else:
                x, inv = self._fresh_scalar(f, f"{base}.{n}")
                st = st.assume(*inv).heap_set(r, n, x)
        for oname, members in self.oneofs(name).items():
            tag = V.fresh_int(f"{base}.which_{oname}")
            st = st.assume(tag >= 0, tag <= len(members)).heap_set(r, "$which:" + oname, tag)
        st = st.heap_set(r, "$sym", True).heap_set(r, "$written", V.fresh_bool(f"{base}.written"))
        for n in pending_children:
            c = st.obj(r).get(n)
            if isinstance(c, Ref):
                st = st.assume(V.Implies(Not(self.is_set(st, r, n)), self.is_default(st, c)))
        return st

    # --------------------------------------------------------------- methods
    def call_method(self, eng: Any, st: State, r: Ref, name: str, args: list, kwargs: dict, node: Any, ctx: Any):
        o = st.obj(r)
        if name == "WhichOneof":
            (oneof,) = args
            if not isinstance(oneof, str):
                raise Unsupported("WhichOneof with a non-constant group name", node)
            if oneof not in self.oneofs(o.cls):
                yield st, Raised(ExcVal("ValueError"))
                return
            w = o.get("$which:" + oneof)
            if w is None or isinstance(w, str):
                yield st, w
                return
            members = self.oneofs(o.cls)[oneof]
            for i, m in enumerate([None] + members):
                cond = w == i
                if eng.feasible(st, cond):
                    yield st.assume(cond).with_note(f"L{_line(node)}{oneof}={m}"), m
            return
        if name == "HasField":
            (field,) = args
            if not isinstance(field, str):
                raise Unsupported("HasField with a non-constant name", node)
            f = self.fdesc(o.cls, field)
            if f is None or (not f["oneof"] and f["type"] != "message") or f["repeated"]:
                yield st, Raised(ExcVal("ValueError"))
                return
            yield st, self.is_set(st, r, field)
            return
        if name == "CopyFrom":
            (src,) = args
            if not (isinstance(src, Ref) and st.obj(src).kind == "msg" and st.obj(src).cls == o.cls):
                yield st, Raised(ExcVal("TypeError"))
                return
            so = st.obj(src)
            new = HObj("msg", o.cls, so.fields).set("$parent", o.get("$parent"))
            st = st.heap_put(r, new)
            for f in self.msgs[o.cls]["fields"]:
                v = so.get(f["name"])
                if f["type"] == "message" and not f["repeated"] and isinstance(v, Ref):
                    st, c = self.deep_copy(eng, st, v, parent=Tup((r, f["name"])))
                    st = st.heap_set(r, f["name"], c)
                elif f["repeated"] and isinstance(v, Ref) and st.obj(v).kind == "list":
                    st, lr = eng.alloc(st, "list", None, items=st.obj(v).get("items"))
                    st = st.heap_set(r, f["name"], lr)
            st = self.touch(st, r)      # A-PROTO: CopyFrom marks the message present in its parent
            yield st, None
            return
        if name == "SetInParent":
            yield self.touch(st, r), None
            return
        if name == "SerializeToString":
            st2, b = eng.alloc(st, "wire", None, msg=r)
            yield st2, b
            return
        raise Unsupported(f"protobuf method {name}", node)

    def isinstance(self, eng: Any, st: State, r: Ref, name: str) -> Any:
        return name == "jelly." + st.obj(r).cls

    # ------------------------------------------------------------ equality
    def msg_equal(self, eng: Any, st: State, a: Ref, b: Ref) -> Any:
        oa, ob = st.obj(a), st.obj(b)
        if oa.cls != ob.cls:
            return False
        conj = []
        for f in self.msgs[oa.cls]["fields"]:
            n = f["name"]
            va, vb = oa.get(n), ob.get(n)
            if f["repeated"]:
                if f["map"]:
                    continue
                ia, ib = st.obj(va).get("items"), st.obj(vb).get("items")
                if len(ia) != len(ib) or any(isinstance(x, Seg) for x in ia + ib):
                    raise Unsupported("equality of messages with repeated fields of unknown length")
                conj += [eng.equal(st, x, y) for x, y in zip(ia, ib)]
            elif f["type"] == "message":
                pa, pb = self.is_set(st, a, n), self.is_set(st, b, n)
                if va is None and vb is None:
                    conj.append(V.Iff(pa, pb))
                elif va is None or vb is None:
                    raise Unsupported("equality of messages with unmaterialised children")
                else:
                    conj.append(And(V.Iff(pa, pb), V.Implies(pa, self.msg_equal(eng, st, va, vb))))
            elif f["oneof"]:
                pa, pb = self.is_set(st, a, n), self.is_set(st, b, n)
                conj.append(And(V.Iff(pa, pb), V.Implies(pa, eng.equal(st, va, vb))))
            else:
                conj.append(eng.equal(st, va, vb))
        return And(*conj)


def eng_equal(a: Any, b: Any) -> Any:
    if isinstance(a, (bool, int, str, bytes)) and isinstance(b, (bool, int, str, bytes)):
        return a == b
    return to_z3(a) == to_z3(b)


def install(eng: Any) -> ProtoModel:
    m = ProtoModel(eng.proto)
    eng.reg.models["msg"] = m
    eng.construct_msg = lambda st, name, args, kwargs, node, ctx: m.construct(eng, st, name, args, kwargs, node, ctx)
    eng.make_msg = lambda st, name, base: m.new(eng, st, name, sym=True, base=base)
    eng.msg_equal = lambda st, a, b: m.msg_equal(eng, st, a, b)
    eng.protomodel = m
    return m
