"""Replay of a counter-model against the real code (native subprocess) and concrete re-check of the contract."""
from __future__ import annotations

import hashlib
import json
import os
import subprocess
import tempfile
from typing import Any

import z3

from .contract import Contract
from .engine_base import Obligation, _aslist
from .state import ClauseError, Env, State
from .values import And, ExcVal, Not, Opt, Ref, exc_is_a, is_z3
from .witness import Extractor, NoWitness, build, overlay_ghost

HERE = os.path.dirname(os.path.dirname(os.path.abspath(__file__)))


def _holds(f: Any) -> bool | None:
    if isinstance(f, bool):
        return f
    s = z3.Solver()
    s.set("timeout", 5000)
    s.add(z3.Not(f))
    r = s.check()
    if r == z3.unsat:
        return True
    if r == z3.sat:
        return False
    return None


def run_native(tree_root: str, request: dict, timeout: int = 60) -> dict:
    with tempfile.NamedTemporaryFile("w", suffix=".json", delete=False) as f:
        json.dump(request, f)
        path = f.name
    try:
        env = dict(os.environ)
        env["PYTHONPATH"] = tree_root
        env["PYTHONHASHSEED"] = "0"
        p = subprocess.run(["/venv/bin/python", os.path.join(HERE, "native", "replay_runner.py"), path],
                           capture_output=True, text=True, timeout=timeout, cwd=tree_root, env=env)
        if p.returncode != 0:
            return {"error": (p.stderr or p.stdout)[-2000:]}
        return json.loads(p.stdout)
    except subprocess.TimeoutExpired:
        return {"error": "native replay timed out"}
    finally:
        os.unlink(path)


def _diff(a: Any, b: Any, path: str, out: list) -> None:
    if a == b:
        return
    if isinstance(a, dict) and isinstance(b, dict) and a.get("t") == b.get("t"):
        t = a.get("t")
        if t in ("obj", "userlist", "msg"):
            fa, fb = a.get("fields", {}), b.get("fields", {})
            for k in sorted(set(fa) | set(fb)):
                if k not in fa or k not in fb:
                    out.append(f"{path}.{k}")
                else:
                    _diff(fa[k], fb[k], f"{path}.{k}", out)
            if t == "userlist" and a.get("items") != b.get("items"):
                out.append(f"{path}.data")
            if t == "msg" and a.get("oneofs") != b.get("oneofs") and fa == fb:
                out.append(path)
            return
    out.append(path)


def replay(eng: Any, c: Contract, ob: Obligation, tree_root: str) -> dict:
    """Returns a dict with keys: status in {confirmed, not-reproduced, unfaithful, no-witness, error}, details."""
    info: dict = {"obligation": ob.name, "function": c.key, "status": "no-witness"}
    if ob.model is None or ob.ctx is None:
        info["why"] = "no model available"
        return info
    binds, heap = ob.ctx["binds"], ob.ctx["heap"]
    ex = Extractor(ob.model, [x for x in ob.pc if is_z3(x)] + ([ob.goal] if is_z3(ob.goal) else []))
    try:
        args_desc = {p: ex.describe(v, heap) for p, v in binds.items()}
    except NoWitness as e:
        info["why"] = str(e)
        return info
    except z3.Z3Exception as e:
        info["why"] = f"model evaluation failed: {e}"
        return info
    info["witness"] = args_desc
    request: dict = {"tree": tree_root, "args": args_desc}
    if c.is_lemma:
        request.update(lemma_src=c.lemma_src, lemma_name=c.key.split(":")[1],
                       lemma_imports=getattr(eng.reg, "lemma_imports", {}))
    else:
        request["func"] = c.key
    resp = run_native(tree_root, request)
    if "error" in resp:
        info["status"] = "error"
        info["why"] = resp["error"]
        return info
    info["native"] = {k: resp.get(k) for k in ("outcome", "result", "exc", "exc_msg")}
    try:
        return _judge(eng, c, ob, ex, binds, heap, resp, info)
    except (NoWitness, ClauseError) as e:
        info["status"] = "error"
        info["why"] = f"concrete re-check failed: {e}"
        return info


def _judge(eng: Any, c: Contract, ob: Obligation, ex: Extractor, binds: dict, heap: dict, resp: dict, info: dict) -> dict:
    # concrete pre-state (as the native side really built it) + ghost values from the model
    st = State()
    pre_binds: dict = {}
    for p, d in resp["pre"].items():
        st, v = build(eng, st, d)
        st = overlay_ghost(eng, ex, heap, binds[p], st, v)
        pre_binds[p] = v
    env_pre = Env(eng, st, pre_binds)
    pre = eng.eval_clause_dict(c.requires, env_pre)
    for lab, f in pre.items():
        h = _holds(f)
        if h is not True:
            info["status"] = "unfaithful"
            info["why"] = f"the concretised pre-state does not satisfy the precondition clause {lab!r}"
            return info
    env_pre.snapshot_old()
    raises = c.raises(env_pre) if c.raises else {}
    failures: list[str] = []
    # frame by descriptor comparison
    changed: list[str] = []
    for p in resp["pre"]:
        _diff(resp["pre"][p], resp["post"][p], p, changed)
    if resp["outcome"] == "raise":
        mro = resp.get("exc_mro", [resp["exc"]])
        matched = None
        for names, cond in raises.items():
            names_t = names if isinstance(names, tuple) else (names,)
            if any(n in mro for n in names_t):
                matched = And(*_aslist(cond))
                break
        if matched is None:
            failures.append(f"raised undeclared {resp['exc']}: {resp.get('exc_msg', '')}")
        else:
            h = _holds(matched)
            if h is False:
                failures.append(f"raised {resp['exc']} although the declared condition is false")
        allowed = c.modifies if c.on_raise is not None else []
        for path in changed:
            if not any(path == m or path.startswith(m + ".") for m in allowed):
                failures.append(f"on raise: {path} changed")
    else:
        for names, cond in raises.items():
            h = _holds(And(*_aslist(cond)))
            if h is True:
                failures.append(f"returned normally although {names} was required")
        for path in changed:
            if not any(path == m or path.startswith(m + ".") or m.startswith(path + ".") for m in c.modifies):
                failures.append(f"frame: {path} changed")
        # post-state
        post_binds: dict = {}
        for p, d in resp["post"].items():
            st, v = build(eng, st, d)
            st = overlay_ghost(eng, ex, heap, binds[p], st, v)   # ghost starts from its old value
            post_binds[p] = v
        st, res = build(eng, st, resp["result"])
        st = _rebuild_ghosts(eng, st)
        env = Env(eng, st, post_binds)
        object.__setattr__(env, "_old_heap", env_pre.st.heap)
        object.__setattr__(env, "_old_binds", pre_binds)
        if c.result is not None:
            conf = eng.result_conforms(st, c.result, res)
            if _holds(conf) is False:
                failures.append(f"result {resp['result']} does not have the declared sort {c.result}")
            res = eng.coerce_result(st, c.result, res)
        env.set_result(res)
        if not failures or True:
            try:
                if c.ghost_exit is not None:
                    c.ghost_exit(env)
                post = eng.eval_clause_dict(c.ensures, env)
                for lab, f in post.items():
                    h = _holds(f)
                    if h is False:
                        failures.append(f"ensures {lab!r} is false on the real result")
            except (ClauseError, AttributeError, TypeError, z3.Z3Exception) as e:
                failures.append(f"postcondition not evaluable on the real result: {type(e).__name__}: {e}")
    if failures:
        relevant = failures
        if ob.kind == "ensures":
            relevant = [f for f in failures if repr(ob.label) in f or not f.startswith("ensures ")]
        info["failures"] = failures
        info["status"] = "confirmed" if relevant else "not-reproduced"
    else:
        info["status"] = "not-reproduced"
    return info


def _rebuild_ghosts(eng: Any, st: State) -> State:
    from .source import ClassInfo
    env = Env(eng, st, {})
    for rid, o in list(st.heap.items()):
        if o.kind == "obj" and isinstance(o.cls, ClassInfo):
            sh = eng.reg.shapes.get(o.cls.key)
            if sh is not None and sh.rebuild is not None:
                sh.rebuild(env.wrap(Ref(rid)))
    return env.st


def write_replay_file(outdir: str, prop: str, payload: dict) -> str:
    os.makedirs(outdir, exist_ok=True)
    h = hashlib.sha256(json.dumps(payload, sort_keys=True, default=str).encode()).hexdigest()[:10]
    safe = payload.get("obligation", "ob").replace("/", "_").replace(":", "_").replace(" ", "")[:80]
    path = os.path.join(outdir, f"{prop}-{safe}-{h}.json")
    with open(path, "w") as f:
        json.dump(payload, f, indent=1, default=str)
    return path
