"""A-IO: binary sources and the protobuf wire parser, as far as pyjelly/parse/ioutils.py uses them (trusted models).

bytesrc   a binary source with ghost content `data` (a bytes value) and a read position.
          seekable sources (files, BytesIO): read(n) returns min(n, remaining) bytes, read() the rest, seek(off, SEEK_CUR)
          moves the position, seekable() is True.
          non-seekable sources (pipes, sockets, raw streams): seekable() is False; pyjelly wraps them in io.BufferedReader.
bufreader io.BufferedReader over a bytesrc: peek(n) returns *some* non-empty prefix of what is left - at least one byte if
          any is left, not necessarily n (the documented behaviour: "the number of bytes returned may be less or more than
          requested") - without advancing; read() returns the rest.
parse_length_prefixed(cls, src) / parse(cls, data): the upb wire parser: an arbitrary frame message (either without rows
          or with at least one row), None at end of input for the length-prefixed form; may raise DecodeError.
"""
from __future__ import annotations

from typing import Any

import z3

from . import values as V
from .contract import Sort
from .state import State
from .values import BuiltinMethod, ExcVal, Opt, Raised, Ref, Seg, Unsupported


def _slice(eng: Any, st: State, data: Ref, start: Any, n: Any, name: str) -> tuple[State, Ref]:
    d = st.obj(data)
    i = z3.Int("i$slice")
    arr = z3.Lambda([i], z3.Select(d.get("b"), start + i))
    return eng.alloc(st, "bytes", "bytes", len=n, b=arr)


class ByteSrcModel:
    name = "A-IO binary source"
    kind = "bytesrc"

    def make(self, eng: Any, st: State, sort: Sort, name: str) -> tuple[State, Any, list]:
        st, data, inv = eng.make(st, Sort("bytes"), name + ".content")
        st, r = eng.alloc(st, "bytesrc", "IO", data=data, pos=z3.IntVal(0), seekable=bool(sort.arg), peeked=z3.IntVal(-1))
        return st, r, inv

    def getattr(self, eng: Any, st: State, r: Ref, attr: str, node: Any, ctx: Any):
        yield st, BuiltinMethod(r, attr)

    def remaining(self, st: State, r: Ref) -> Any:
        o = st.obj(r)
        return st.obj(o.get("data")).get("len") - o.get("pos")

    def call_method(self, eng: Any, st: State, r: Ref, name: str, args: list, kwargs: dict, node: Any, ctx: Any):
        o = st.obj(r)
        if name == "seekable" and not args:
            yield st, o.get("seekable")
            return
        if not o.get("seekable"):
            raise Unsupported(f"{name}() directly on a non-seekable source (pyjelly reads those through BufferedReader)", node)
        rem = self.remaining(st, r)
        if name == "read":
            n = args[0] if args else None
            k = rem if n is None else z3.If(rem < n, rem, V.to_z3(n))
            st2, b = _slice(eng, st, o.get("data"), o.get("pos"), k, "read")
            yield st2.heap_set(r, "pos", o.get("pos") + k), b
            return
        if name == "seek" and len(args) == 2:
            # only the relative form used by pyjelly: seek(-k, os.SEEK_CUR)
            yield st.heap_set(r, "pos", o.get("pos") + V.to_z3(args[0])), None
            return
        raise Unsupported(f"IO.{name}", node)


class BufReaderModel:
    name = "A-IO io.BufferedReader (peek may return fewer bytes than asked)"
    kind = "bufreader"

    def call(self, eng: Any, st: State, args: list, kwargs: dict, node: Any, ctx: Any):
        (src,) = args
        if not (isinstance(src, Ref) and st.obj(src).kind == "bytesrc"):
            raise Unsupported("BufferedReader over something that is not a binary source", node)
        st2, r = eng.alloc(st, "bufreader", "BufferedReader", src=src)
        yield st2, r

    def getattr(self, eng: Any, st: State, r: Ref, attr: str, node: Any, ctx: Any):
        yield st, BuiltinMethod(r, attr)

    def call_method(self, eng: Any, st: State, r: Ref, name: str, args: list, kwargs: dict, node: Any, ctx: Any):
        src = st.obj(r).get("src")
        so = st.obj(src)
        rem = st.obj(so.get("data")).get("len") - so.get("pos")
        if name == "peek":
            k = V.fresh_int("peeked")
            st2 = st.assume(k >= 0, k <= rem, z3.Implies(rem > 0, k >= 1))
            st3, b = _slice(eng, st2, so.get("data"), so.get("pos"), k, "peek")
            yield st3.heap_set(src, "peeked", k), b      # ghost: how much the last peek delivered
            return
        if name == "read" and not args:
            st2, b = _slice(eng, st, so.get("data"), so.get("pos"), rem, "read")
            yield st2.heap_set(src, "pos", so.get("pos") + rem), b
            return
        raise Unsupported(f"BufferedReader.{name}", node)


def _frames(eng: Any, st: State, name: str):
    """the two shapes a parsed frame can have: no rows / at least one row"""
    st1, fr, inv = eng.make_msg(st, "RdfStreamFrame", name)
    lst = st1.obj(fr).get("rows")
    yield st1.assume(*inv).heap_set(lst, "items", ()), fr
    st2, fr2, inv2 = eng.make(st, Sort("frame1", "parsed"), name)     # A-IO-ENUM, see engine_base.make
    yield st2.assume(*inv2), fr2


class ParseLPModel:
    name = "A-IO/A-PROTO google.protobuf.proto.parse_length_prefixed"

    def call(self, eng: Any, st: State, args: list, kwargs: dict, node: Any, ctx: Any):
        cls, src = args
        under = src
        if isinstance(src, Ref) and st.obj(src).kind == "bufreader":
            under = st.obj(src).get("src")
        if not (isinstance(under, Ref) and st.obj(under).kind == "bytesrc"):
            raise Unsupported("parse_length_prefixed from something that is not a binary source", node)
        npos = V.fresh_int("pos'")
        st = st.assume(npos >= st.obj(under).get("pos")).heap_set(under, "pos", npos)
        yield st.with_note("parse_lp:eof"), None
        yield st.with_note("parse_lp:error"), Raised(ExcVal("DecodeError"))
        for st1, fr in _frames(eng, st, "frame"):
            yield st1, fr


class ParseModel:
    name = "A-IO/A-PROTO google.protobuf.proto.parse"

    def call(self, eng: Any, st: State, args: list, kwargs: dict, node: Any, ctx: Any):
        yield st.with_note("parse:error"), Raised(ExcVal("DecodeError"))
        for st1, fr in _frames(eng, st, "frame"):
            yield st1, fr


class ChainModel:
    """itertools.chain: the parts in order, lazily (kind `chained`; consumers in the code under contract only hand it on)"""
    name = "A-CPY itertools.chain"

    def call(self, eng: Any, st: State, args: list, kwargs: dict, node: Any, ctx: Any):
        st2, r = eng.alloc(st, "chained", None, parts=tuple(args))
        yield st2, r


def install(reg: Any) -> None:
    reg.models["bytesrc"] = ByteSrcModel()
    br = BufReaderModel()
    reg.models["bufreader"] = br
    reg.models["ext:io.BufferedReader"] = br
    reg.models["ext:google.protobuf.proto.parse_length_prefixed"] = ParseLPModel()
    reg.models["ext:google.protobuf.proto.parse"] = ParseModel()
    install_output(reg)


# ------------------------------------------------------------------------------------------------------ output side
class ByteSinkModel:
    """A-IO: a binary output; what is tracked is the sequence of writes as (how, frame) pairs in the ghost list `writes`:
    how = "delimited" for serialize_length_prefixed(frame, out), "single" for out.write(frame.SerializeToString(...))."""
    name = "A-IO binary output (frames written, in order, with their framing)"
    kind = "bytesink"

    def make(self, eng: Any, st: State, sort: Sort, name: str) -> tuple[State, Any, list]:
        st, r = eng.alloc(st, "bytesink", "IO", writes=())
        return st, r, []

    def getattr(self, eng: Any, st: State, r: Ref, attr: str, node: Any, ctx: Any):
        yield st, BuiltinMethod(r, attr)

    def havoc(self, eng: Any, st: State, r: Ref, name: str) -> State:
        # an unknown number of earlier writes: one opaque entry
        return st.heap_set(r, "writes", (("$earlier", V.fresh_int(name)),))

    def call_method(self, eng: Any, st: State, r: Ref, name: str, args: list, kwargs: dict, node: Any, ctx: Any):
        if name == "write" and len(args) == 1:
            v = args[0]
            if isinstance(v, Ref) and st.obj(v).kind == "wire":
                yield st.heap_set(r, "writes", st.obj(r).get("writes") + (("single", st.obj(v).get("msg")),)), None
                return
            raise Unsupported("write() of something that is not a serialised message", node)
        raise Unsupported(f"IO.{name} on an output", node)


class SerializeLPModel:
    name = "A-IO/A-PROTO google.protobuf.proto.serialize_length_prefixed"

    def call(self, eng: Any, st: State, args: list, kwargs: dict, node: Any, ctx: Any):
        msg, out = args
        if not (isinstance(out, Ref) and st.obj(out).kind == "bytesink"):
            raise Unsupported("serialize_length_prefixed to something that is not a binary output", node)
        yield st.heap_set(out, "writes", st.obj(out).get("writes") + (("delimited", msg),)), None


def install_output(reg: Any, proto_model: Any = None) -> None:
    reg.models["bytesink"] = ByteSinkModel()
    reg.models["ext:google.protobuf.proto.serialize_length_prefixed"] = SerializeLPModel()
