"""
Counter-model -> concrete Python values (witness), and native results -> concrete engine states.

descriptor format (JSON):
  {"t":"int"|"str"|"bool","v":...} | {"t":"none"} | {"t":"obj","cls":"mod:Class","fields":{...}} |
  {"t":"new","cls":...} | {"t":"od","items":[[k,v],...]} (oldest first) | {"t":"deque","items":[str|null,...],"maxlen":n} |
  {"t":"list","items":[...]} | {"t":"tuple","items":[...]} | {"t":"opaque","why":...}
"""
from __future__ import annotations

from typing import Any

import z3

from . import values as V
from .source import ClassInfo
from .state import State
from .values import ADT, HObj, Opt, Rec, Ref, Seg, Tup, is_z3

MAX_ENUM = 64


class NoWitness(Exception):
    pass


def _consts_of_sort(exprs: list, sort: z3.SortRef) -> list:
    seen: set[int] = set()
    out = []
    stack = [e for e in exprs if is_z3(e)]
    while stack:
        x = stack.pop()
        i = x.get_id()
        if i in seen:
            continue
        seen.add(i)
        if z3.is_quantifier(x):
            stack.append(x.body())
            continue
        if z3.is_app(x):
            if x.num_args() == 0 and x.decl().kind() == z3.Z3_OP_UNINTERPRETED and x.sort() == sort:
                out.append(x)
            stack.extend(x.children())
    return out


def _store_indices(a: z3.ExprRef) -> list:
    out = []
    seen = set()
    stack = [a]
    while stack:
        x = stack.pop()
        if x.get_id() in seen:
            continue
        seen.add(x.get_id())
        if z3.is_app(x):
            if x.decl().kind() == z3.Z3_OP_STORE:
                out.append(x.arg(1))
            stack.extend(x.children())
        elif z3.is_quantifier(x):
            stack.append(x.body())
    return out


class Extractor:
    def __init__(self, model: z3.ModelRef, exprs: list) -> None:
        self.m = model
        self.exprs = exprs
        self.str_candidates: list[str] | None = None

    def ev(self, e: Any) -> Any:
        return self.m.eval(e, model_completion=True)

    def py(self, e: Any) -> Any:
        if not is_z3(e):
            return e
        v = self.ev(e)
        if z3.is_int_value(v):
            return v.as_long()
        if z3.is_true(v):
            return True
        if z3.is_false(v):
            return False
        if z3.is_string_value(v):
            return v.as_string()
        raise NoWitness(f"cannot concretise {v.sort()} value {str(v)[:80]}")

    def strings(self, extra_arrays: list) -> list[str]:
        cands: set[str] = set()
        for c in _consts_of_sort(self.exprs, V.StrSort):
            try:
                cands.add(self.py(c))
            except NoWitness:
                pass
        for a in extra_arrays:
            av = self.ev(a)
            for idx in _store_indices(av):
                if z3.is_string_value(idx):
                    cands.add(idx.as_string())
        if hasattr(self.m, "string_values"):
            cands |= self.m.string_values()
        cands.add("")
        return sorted(cands)

    def describe(self, v: Any, heap: dict) -> Any:
        if v is None:
            return {"t": "none"}
        if isinstance(v, bool):
            return {"t": "bool", "v": v}
        if isinstance(v, int):
            return {"t": "int", "v": v}
        if isinstance(v, str):
            return {"t": "str", "v": v}
        if is_z3(v):
            p = self.py(v)
            return {"t": "bool" if isinstance(p, bool) else "int" if isinstance(p, int) else "str", "v": p}
        if isinstance(v, Opt):
            if self.py(V.bool_z3(v.isnone)):
                return {"t": "none"}
            return self.describe(v.val, heap)
        if isinstance(v, Tup):
            return {"t": "tuple", "items": [self.describe(x, heap) for x in v.items],
                    "cls": v.cls.key if v.cls is not None else None}
        if isinstance(v, Rec):
            return {"t": "ghost"}
        if isinstance(v, ADT):
            from .contract import REGISTRY
            fam = REGISTRY.adts[v.family]
            if hasattr(fam, "describe"):
                return fam.describe(self, v)
            raise NoWitness(f"no concretiser for ADT family {v.family}")
        if isinstance(v, Ref):
            o: HObj = heap[v.id]
            if o.kind == "obj":
                cls = o.cls
                if not o.fields:
                    return {"t": "new", "cls": cls.key if isinstance(cls, ClassInfo) else str(cls)}
                from .contract import REGISTRY
                shape = REGISTRY.shapes.get(cls.key if isinstance(cls, ClassInfo) else str(cls))
                ghost = set(shape.ghost) if shape else set()
                return {"t": "obj", "cls": cls.key if isinstance(cls, ClassInfo) else str(cls),
                        "fields": {k: self.describe(x, heap) for k, x in o.fields if k not in ghost and not k.startswith("$")}}
            if o.kind == "od":
                mem, val, rank = o.get("mem"), o.get("val"), o.get("rank")
                keys = [s for s in self.strings([mem, val, rank]) if self.py(z3.Select(mem, z3.StringVal(s)))]
                n = self.py(o.get("n"))
                if len(keys) != n:
                    raise NoWitness(f"model of OrderedDict has len {n} but {len(keys)} enumerable members (over-approximated corner)")
                keys.sort(key=lambda s: self.py(z3.Select(rank, z3.StringVal(s))))
                return {"t": "od", "items": [[s, self.py(z3.Select(val, z3.StringVal(s)))] for s in keys]}
            if o.kind == "deque":
                n = self.py(o.get("len"))
                if n > MAX_ENUM:
                    raise NoWitness(f"deque of length {n} too long to enumerate")
                items = []
                for i in range(n):
                    if self.py(z3.Select(o.get("isnone"), z3.IntVal(i))):
                        items.append(None)
                    else:
                        items.append(self.py(z3.Select(o.get("val"), z3.IntVal(i))))
                return {"t": "deque", "items": items, "maxlen": n}
            if o.kind == "list":
                items = o.get("items")
                if any(isinstance(x, Seg) for x in items):
                    raise NoWitness("list with opaque segment")
                return {"t": "list", "items": [self.describe(x, heap) for x in items]}
            from .contract import REGISTRY
            model = REGISTRY.models.get(o.kind)
            if model is not None and hasattr(model, "describe"):
                return model.describe(self, v, heap)
            raise NoWitness(f"no concretiser for heap kind {o.kind}")
        raise NoWitness(f"no concretiser for {type(v).__name__}")


# ------------------------------------------------------------ descriptor -> state
def _od_from_items(items: list) -> dict:
    mem = z3.K(V.StrSort, z3.BoolVal(False))
    val = z3.K(V.StrSort, z3.IntVal(0))
    rank = z3.K(V.StrSort, z3.IntVal(0))
    for i, (k, v) in enumerate(items):
        ks = z3.StringVal(k)
        mem = z3.Store(mem, ks, z3.BoolVal(True))
        val = z3.Store(val, ks, z3.IntVal(v))
        rank = z3.Store(rank, ks, z3.IntVal(i + 1))
    return dict(mem=mem, val=val, n=z3.IntVal(len(items)), rank=rank, top=z3.IntVal(len(items)),
                mark=z3.IntVal(0), t=z3.IntVal(len(items)))


def build(eng: Any, st: State, d: Any) -> tuple[State, Any]:
    """descriptor -> concrete engine value (allocating heap objects)."""
    t = d["t"]
    if t == "none":
        return st, None
    if t in ("int", "str", "bool"):
        return st, d["v"]
    if t == "tuple":
        items = []
        for x in d["items"]:
            st, v = build(eng, st, x)
            items.append(v)
        cls = eng.tree.get_class(d["cls"]) if d.get("cls") else None
        return st, Tup(tuple(items), cls)
    if t == "list":
        items = []
        for x in d["items"]:
            st, v = build(eng, st, x)
            items.append(v)
        st, r = eng.alloc(st, "list", None, items=tuple(items))
        return st, r
    if t == "od":
        st, r = eng.alloc(st, "od", "OrderedDict", **_od_from_items(d["items"]))
        return st, r
    if t == "deque":
        isn = z3.K(V.IntSort, z3.BoolVal(True))
        val = z3.K(V.IntSort, z3.StringVal(""))
        for i, x in enumerate(d["items"]):
            if x is not None:
                isn = z3.Store(isn, z3.IntVal(i), z3.BoolVal(False))
                val = z3.Store(val, z3.IntVal(i), z3.StringVal(x))
        st, r = eng.alloc(st, "deque", "deque", isnone=isn, val=val, len=z3.IntVal(len(d["items"])))
        return st, r
    if t in ("obj", "new"):
        cls = eng.tree.get_class(d["cls"])
        st, r = eng.alloc(st, "obj", cls)
        for k, x in d.get("fields", {}).items():
            st, v = build(eng, st, x)
            st = st.heap_set(r, k, v)
        return st, r
    from .contract import REGISTRY
    for model in REGISTRY.models.values():
        if hasattr(model, "build") and t in getattr(model, "desc_types", ()):
            return model.build(eng, st, d)
    raise NoWitness(f"cannot rebuild descriptor of type {t}")


def overlay_ghost(eng: Any, ex: Extractor | None, sym_heap: dict, sym_v: Any, st: State, conc_v: Any) -> State:
    """Copy ghost fields (evaluated in the model) from the symbolic pre-state onto the concrete objects."""
    from .contract import REGISTRY
    if isinstance(sym_v, Ref) and isinstance(conc_v, Ref):
        so = sym_heap[sym_v.id]
        if so.kind != "obj":
            return st
        cls = so.cls
        shape = REGISTRY.shapes.get(cls.key if isinstance(cls, ClassInfo) else str(cls))
        for k, x in so.fields:
            if shape is not None and k in shape.ghost:
                st = st.heap_set(conc_v, k, _eval_value(ex, x))
            elif isinstance(x, Ref) and st.obj(conc_v).has(k):
                st = overlay_ghost(eng, ex, sym_heap, x, st, st.obj(conc_v).get(k))
    return st


def _eval_value(ex: Extractor | None, v: Any) -> Any:
    if ex is None:
        return v
    if is_z3(v):
        return ex.ev(v)
    if isinstance(v, Rec):
        return Rec(v.name, tuple((k, _eval_value(ex, x)) for k, x in v.fields))
    if isinstance(v, Opt):
        return Opt(_eval_value(ex, V.bool_z3(v.isnone)), _eval_value(ex, v.val))
    return v
