"""Loops: per-iteration summaries for loops over concrete tuples, invariants for loops over abstract iterables, generators."""
from __future__ import annotations

import ast
from typing import Any

import z3

from . import values as V
from .contract import LoopSpec, Sort
from .engine_expr import Ctx
from .state import ClauseError, Env, State
from .values import And, ExcVal, Not, Opt, Raised, Ref, Seg, Tup, Unsupported, exc_is_a

NORMAL = ("normal",)


def loop_spec(eng: Any, s: Any, ctx: Ctx) -> Any:
    if ctx.contract is None or ctx.loop_ordinals is None:
        return None
    k = ctx.loop_ordinals.get(id(s))
    return ctx.contract.loops.get(k)


def _locals_env(eng: Any, st: State, extra: dict | None = None) -> Env:
    binds = {k: v for k, v in st.locals.items() if not k.startswith("$")}
    if extra:
        binds.update(extra)
    return Env(eng, st, binds)


def summarised_for(eng: Any, s: ast.For, items: list, st: State, ctx: Ctx, spec: Any):
    """`for x in <concrete tuple>` with a per-iteration summary: each iteration's body is verified against the summary
    from the state reached so far, then the summary alone carries the state to the next iteration (one path)."""
    cur = st
    for j, item in enumerate(items):
        # ---- verify iteration j from `cur`
        for st0, out0 in eng.assign(s.target, item, cur, ctx):
            if out0[0] != "normal":
                yield st0, out0
                continue
            env_old = _locals_env(eng, st0)
            env_old.snapshot_old()
            rs = spec.raises(env_old, item, j) if spec.raises else {}
            for st1, out in eng.exec_block(s.body, st0, ctx):
                if out[0] in ("normal", "continue"):
                    env = _locals_env(eng, st1)
                    object.__setattr__(env, "_old_heap", st0.heap)
                    object.__setattr__(env, "_old_binds", dict(env_old._binds))
                    try:
                        post = eng.eval_clause_dict(lambda e: spec.summary(e, item, j), env)
                    except ClauseError as ex:
                        post = {f"clause-evaluable({ex})": False}
                    for lab, g in post.items():
                        eng.oblige(st1, f"loop@L{s.lineno}.iter{j}.{lab}", "invariant", g, s)
                    for names, cond in rs.items():
                        if isinstance(names, tuple) and names and names[0] == "?":
                            continue      # "may raise": no claim on normal paths
                        nm = names if isinstance(names, str) else "|".join(names)
                        eng.oblige(st1, f"loop@L{s.lineno}.iter{j}.no-{nm}-on-normal-path", "raises", Not(And(cond)), s)
                elif out[0] == "raise":
                    exc: ExcVal = out[1]
                    matched = None
                    for names, cond in rs.items():
                        names_t = names if isinstance(names, tuple) else (names,)
                        if any(exc.cls == n or exc_is_a(exc.cls, n) for n in names_t if n != "?"):
                            matched = And(cond) if matched is None else V.Or(matched, And(cond))
                    eng.oblige(st1, f"loop@L{s.lineno}.iter{j}.{exc.cls}-only-when-declared", "raises",
                               matched if matched is not None else False, s)
                    # (the raising path itself is continued from the summary below, so that there is one of it)
                else:
                    raise Unsupported(f"{out[0]} inside a summarised loop", s)
        # ---- continue from the summary
        res = list(eng.assign(s.target, item, cur, ctx))
        if len(res) != 1 or res[0][1][0] != "normal":
            raise Unsupported("loop target assignment forks", s)
        st0 = res[0][0]
        env_old = _locals_env(eng, st0)
        env_old.snapshot_old()
        rs = spec.raises(env_old, item, j) if spec.raises else {}
        conds = []
        for names, cond in rs.items():
            names_t = names if isinstance(names, tuple) else (names,)
            may = names_t[0] == "?"
            if may:
                names_t = names_t[1:]
            c = And(cond)
            if not may:
                conds.append(c)
            if c is False:
                continue
            if eng.feasible(st0, c if c is not True else True):
                yield st0.assume(c).with_note(f"L{s.lineno}.iter{j} raises {names_t[0]}"), ("raise", ExcVal(names_t[0]))
        st_n = st0.assume(*[Not(c) for c in conds if c is not False])
        # havoc what the body modifies
        for path in spec.modifies:
            parts = path.split(".")
            if len(parts) == 1:
                if parts[0] not in st_n.locals:
                    continue      # a temporary of the body that does not exist yet (and is not read after the loop)
                v = st_n.locals[parts[0]]
                if isinstance(v, Ref):
                    st_n = eng.havoc_obj(st_n, v, f"{parts[0]}'")
                else:
                    st_n, nv = eng.fresh_like(st_n, v, f"{parts[0]}'")
                    st_n = st_n.set_local(parts[0], nv)
            else:
                st_n = eng.havoc_path(st_n, path, dict(st_n.locals), ctx.contract)
        for lname, esort in spec.appends.items():
            lref = st_n.locals.get(lname)
            if not isinstance(lref, Ref):
                raise Unsupported(f"appends: {lname} is not a list", s)
            st_n, v, inv = eng.make(st_n, esort, f"{lname}[+]")
            old_items = st0.obj(lref).get("items")       # elements already there are not touched by an append
            st_n = st_n.assume(*inv).heap_set(lref, "items", tuple(old_items) + (v,))
        env = _locals_env(eng, st_n)
        object.__setattr__(env, "_old_heap", st0.heap)
        object.__setattr__(env, "_old_binds", dict(env_old._binds))
        post = eng.eval_clause_dict(lambda e: spec.summary(e, item, j), env)
        cur = env.st.assume(*post.values())
    if s.orelse:
        yield from eng.exec_block(s.orelse, cur, ctx)
    else:
        yield cur, NORMAL


def loop_cut(eng: Any, s: Any, st: State, ctx: Ctx, it: Any = None):
    """`for x in <abstract iterable>` / `while`: cut by the invariant of the LoopSpec with this loop's ordinal.

      establish:  the invariant holds on entry;
      preserve:   from an arbitrary state satisfying it (everything in `modifies` havoced), one more iteration
                  re-establishes it - and every frame produced in the iteration has been yielded;
      use:        the code after the loop runs from an arbitrary state satisfying it.
    Yields inside the body are recorded as an opaque run of yields (st.out gets a marker)."""
    spec = loop_spec(eng, s, ctx)
    if spec is None or spec.invariant is None:
        raise Unsupported("loop over an abstract iterable / while loop without an invariant in the contract", s)
    is_for = isinstance(s, ast.For)
    elem_sort = None
    if is_for:
        if isinstance(it, Ref) and st.obj(it).kind == "absiter":
            elem_sort = st.obj(it).get("elem")
        elif isinstance(it, Ref) and st.obj(it).kind == "list" and spec.elem is not None:
            elem_sort = spec.elem      # a list with an opaque segment: arbitrarily many elements of the declared sort
        else:
            raise Unsupported("for-loop over a value that is neither a concrete sequence nor an abstract iterable", s)
    # establish
    env0 = _locals_env(eng, st)
    env0.snapshot_old()
    try:
        inv0 = eng.eval_clause_dict(spec.invariant, env0)
    except ClauseError as ex:
        inv0 = {f"clause-evaluable({ex})": False}
    for lab, g in inv0.items():
        eng.oblige(st, f"loop@L{s.lineno}.establish.{lab}", "invariant", g, s)
    # arbitrary iteration state
    st_h = st
    for path in spec.modifies:
        parts = path.split(".")
        if len(parts) == 1:
            if parts[0] not in st_h.locals:
                continue
            v = st_h.locals[parts[0]]
            if parts[0] in spec.local_sorts:
                st_h, nv, inv = eng.make(st_h, spec.local_sorts[parts[0]], f"{parts[0]}'")
                st_h = st_h.assume(*inv).set_local(parts[0], nv)
            elif isinstance(v, Ref):
                st_h = eng.havoc_obj(st_h, v, f"{parts[0]}'")
            else:
                st_h, nv = eng.fresh_like(st_h, v, f"{parts[0]}'")
                st_h = st_h.set_local(parts[0], nv)
        else:
            st_h = eng.havoc_path(st_h, path, dict(st_h.locals), ctx.contract)
    for path in spec.extends:
        parts = path.split(".")
        cur = st.locals.get(parts[0])
        for p_ in parts[1:]:
            if not isinstance(cur, Ref):
                raise Unsupported(f"extends path {path}: {p_} is not reachable", s)
            cur = st.obj(cur).get(p_)
        if not (isinstance(cur, Ref) and st.obj(cur).kind == "list"):
            raise Unsupported(f"extends path {path} is not a list", s)
        seg = Seg(V.fresh_of_sort(f"{parts[-1]}+", V.SegSort), f"{parts[-1]}+")
        st_h = st_h.assume(V.seg_len(seg.const) >= 0).heap_set(cur, "items", tuple(st.obj(cur).get("items")) + (seg,))
    env_h = _locals_env(eng, st_h)
    object.__setattr__(env_h, "_old_heap", st.heap)
    object.__setattr__(env_h, "_old_binds", dict(env0._binds))
    inv_h = eng.eval_clause_dict(spec.invariant, env_h)
    st_h = env_h.st.assume(*inv_h.values())
    silent = bool(spec.silent(env_h)) if spec.silent is not None else False
    if not silent:
        st_h = st_h.emit(("$yields", f"loop@L{s.lineno}"))
    # one more iteration
    if is_for:
        # `elem_sort` may be a tuple of sorts: the item is of one of them (the iteration is verified for each)
        starts = []
        alts = list(elem_sort) if isinstance(elem_sort, (tuple, list)) else [elem_sort]
        for ai, es in enumerate(alts):
            st_i, elem, inv = eng.make(st_h, es, f"item@L{s.lineno}")
            st_i = st_i.assume(*inv)
            tag = f"L{s.lineno}:iteration" + (f"#{ai}" if len(alts) > 1 else "")
            starts += list(eng.assign(s.target, elem, st_i.with_note(tag), ctx))
    else:
        starts = []
        for st_c, c in eng.eval(s.test, st_h, ctx):
            if isinstance(c, Raised):
                yield st_c, ("raise", c.exc)
                continue
            for st_b, b in eng.branch(st_c, eng.truth(st_c, c, s), f"L{s.lineno}while"):
                if b:
                    starts.append((st_b.with_note(f"L{s.lineno}:iteration"), NORMAL))
    for st_s, out_s in starts:
        if out_s[0] != "normal":
            yield st_s, out_s
            continue
        ev0 = len(st_s.events)
        for st1, out in eng.exec_block(s.body, st_s, ctx):
            if out[0] in ("normal", "continue"):
                eng.check_linear(st1, None, s, f"loop@L{s.lineno}.", since=ev0)
                if silent:
                    eng.oblige(st1, f"loop@L{s.lineno}.silent-iteration-yields-nothing", "invariant", len(st1.out) == len(st_h.out), s)
                env1 = _locals_env(eng, st1)
                object.__setattr__(env1, "_old_heap", st.heap)
                object.__setattr__(env1, "_old_binds", dict(env0._binds))
                try:
                    inv1 = eng.eval_clause_dict(spec.invariant, env1)
                except ClauseError as ex:
                    inv1 = {f"clause-evaluable({ex})": False}
                for lab, g in inv1.items():
                    eng.oblige(st1, f"loop@L{s.lineno}.preserve.{lab}", "invariant", g, s)
                if spec.after_each is not None:
                    env2 = _locals_env(eng, st1)       # `e.old` = the state at the start of this iteration
                    object.__setattr__(env2, "_old_heap", st_s.heap)
                    object.__setattr__(env2, "_old_binds", {k: v for k, v in st_s.locals.items() if not k.startswith("$")})
                    try:
                        ae = eng.eval_clause_dict(spec.after_each, env2)
                    except ClauseError as ex:
                        ae = {f"clause-evaluable({ex})": False}
                    for lab, g in ae.items():
                        eng.oblige(st1, f"loop@L{s.lineno}.after-each.{lab}", "invariant", g, s)
            elif out[0] == "raise":
                yield st1, out
            elif out[0] == "return":
                yield st1, out
            elif out[0] == "break":
                yield st1, NORMAL
    # exit
    if is_for:
        st_x = st_h.with_note(f"L{s.lineno}:exhausted")
        if s.orelse:
            yield from eng.exec_block(s.orelse, st_x, ctx)
        else:
            yield st_x, NORMAL
    else:
        for st_c, c in eng.eval(s.test, st_h, ctx):
            if isinstance(c, Raised):
                continue
            for st_b, b in eng.branch(st_c, eng.truth(st_c, c, s), f"L{s.lineno}while-exit"):
                if not b:
                    yield st_b.with_note(f"L{s.lineno}:exit"), NORMAL


def resolve_iterable(eng: Any, st: State, v: Any, node: Any, ctx: Ctx):
    """what a for-loop / `yield from` really iterates over -> [(state, iterable | Raised)]
      - an object whose class defines __iter__: the result of calling it;
      - a suspended *transparent* generator (its body is the single statement `yield from <expr>`): <expr>, evaluated
        in the generator's own bindings at the point of consumption (generators are lazy);
      - a suspended generator with a contract declaring `yields`: the contract takes effect here (A-GENDRAIN: the effects
        of the generator do not interleave observably with the consumer) and the consumer sees an abstract iterable."""
    if isinstance(v, Ref):
        o = st.obj(v)
        if o.kind == "obj" and hasattr(o.cls, "find_method"):
            m = o.cls.find_method("__iter__")
            if m is not None:
                for st1, r in eng.call_function(st, m, [v], {}, node, ctx):
                    if isinstance(r, Raised):
                        yield st1, r
                    else:
                        yield from resolve_iterable(eng, st1, r, node, ctx)
                return
        mdl = eng.reg.models.get(o.kind)
        if mdl is not None and hasattr(mdl, "iter") and o.kind not in ("absiter", "list"):
            for st1, r in mdl.iter(eng, st, v, node, ctx):
                if isinstance(r, Raised):
                    yield st1, r
                else:
                    yield from resolve_iterable(eng, st1, r, node, ctx)
            return
        if o.kind == "gen":
            fi = o.get("fi")
            body = [b for b in fi.node.body if not (isinstance(b, ast.Expr) and isinstance(b.value, ast.Constant))]
            if len(body) == 1 and isinstance(body[0], ast.Expr) and isinstance(body[0].value, ast.YieldFrom):
                saved = st.locals
                gctx = Ctx(fi.module, fi, fi.cls)
                for st1, r in eng.eval(body[0].value.value, st.with_locals(dict(o.get("binds"))), gctx):
                    st1 = st1.with_locals(saved)
                    if isinstance(r, Raised):
                        yield st1, r
                    else:
                        yield from resolve_iterable(eng, st1, r, node, ctx)
                return
            c = eng.find_contract(fi)
            if c is not None and c.yields is not None:
                for st1, res in eng.apply_contract(st, c, dict(o.get("binds")), node, fi):
                    if isinstance(res, Raised):
                        yield st1, res
                    else:
                        st2, it, inv = eng.make(st1, Sort("absiter", c.yields), f"items-of-{fi.key.split(':')[-1]}")
                        yield st2.assume(*inv), it
                return
            raise Unsupported(f"generator {fi.key} is consumed here but is neither transparent nor has a contract with `yields`", node)
    yield st, v


def make_generator(eng: Any, st: State, fi: Any, args: list, kwargs: dict, node: Any, ctx: Ctx):
    """calling a generator function creates a suspended generator: nothing runs yet"""
    st, binds = eng.bind_params(st, fi, args, kwargs, node)
    st2, r = eng.alloc(st, "gen", None, fi=fi, binds=tuple(binds.items()), started=False)
    yield st2, r


def exec_yield(eng: Any, e: Any, st: State, ctx: Ctx):
    if isinstance(e, ast.Yield):
        if e.value is None:
            yield st.emit(None), NORMAL
            return
        for st1, v in eng.eval(e.value, st, ctx):
            if isinstance(v, Raised):
                yield st1, ("raise", v.exc)
            else:
                yield st1.emit(v), NORMAL
        return
    # yield from X
    for st0, v0 in eng.eval(e.value, st, ctx):
      if isinstance(v0, Raised):
          yield st0, ("raise", v0.exc)
          continue
      if isinstance(v0, Ref) and st0.obj(v0).kind == "gen" and _has_plain_contract(eng, st0.obj(v0).get("fi")):
          yield from drain_generator(eng, st0, v0, e, ctx, emit=True)
          continue
      for st1, v in resolve_iterable(eng, st0, v0, e, ctx):
        if isinstance(v, Raised):
            yield st1, ("raise", v.exc)
            continue
        items = eng.concrete_items(st1, v)
        if items is not None:
            st2 = st1
            for it in items:
                st2 = st2.emit(it)
            yield st2, NORMAL
            continue
        if isinstance(v, Ref) and st1.obj(v).kind == "absiter":
            # everything the source holds is passed on, in order
            yield st1.emit(("$yield-from", v)), NORMAL
            continue
        raise Unsupported("yield from a value that is neither a sequence, an abstract iterable nor a generator", e)


def _has_plain_contract(eng: Any, fi: Any) -> bool:
    c = eng.find_contract(fi)
    return c is not None and not c.inline and not c.inline_at_calls


def drain_generator(eng: Any, st: State, g: Ref, node: Any, ctx: Ctx, emit: bool):
    """run a suspended generator to exhaustion through its contract (A-GENDRAIN: consumers drain or abandon)"""
    o = st.obj(g)
    fi = o.get("fi")
    c = eng.find_contract(fi)
    if c is None:
        raise Unsupported(f"generator {fi.key} is consumed here but has no contract", node)
    binds = dict(o.get("binds"))
    for st1, res in eng.apply_contract(st, c, binds, node, fi):
        if isinstance(res, Raised):
            yield st1, ("raise", res.exc)
        else:
            quiet = False
            if c.silent is not None:
                from .state import Env as _Env
                quiet = bool(c.silent(_Env(eng, st1, binds)))
            yield (st1.emit(("$yields-of", fi.key)) if emit and not quiet else st1), NORMAL
