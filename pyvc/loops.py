"""Loops: per-iteration summaries for loops over concrete tuples, invariants for loops over abstract iterables, generators."""
from __future__ import annotations

import ast
from typing import Any

import z3

from . import values as V
from .contract import LoopSpec
from .engine_expr import Ctx
from .state import ClauseError, Env, State
from .values import And, ExcVal, Not, Opt, Raised, Ref, Seg, Tup, Unsupported, exc_is_a

NORMAL = ("normal",)


def loop_spec(eng: Any, s: Any, ctx: Ctx) -> Any:
    if ctx.contract is None or ctx.loop_ordinals is None:
        return None
    k = ctx.loop_ordinals.get(id(s))
    return ctx.contract.loops.get(k)


def _locals_env(eng: Any, st: State, extra: dict | None = None) -> Env:
    binds = {k: v for k, v in st.locals.items() if not k.startswith("$")}
    if extra:
        binds.update(extra)
    return Env(eng, st, binds)


def summarised_for(eng: Any, s: ast.For, items: list, st: State, ctx: Ctx, spec: Any):
    """`for x in <concrete tuple>` with a per-iteration summary: each iteration's body is verified against the summary
    from the state reached so far, then the summary alone carries the state to the next iteration (one path)."""
    cur = st
    for j, item in enumerate(items):
        # ---- verify iteration j from `cur`
        for st0, out0 in eng.assign(s.target, item, cur, ctx):
            if out0[0] != "normal":
                yield st0, out0
                continue
            env_old = _locals_env(eng, st0)
            env_old.snapshot_old()
            rs = spec.raises(env_old, item, j) if spec.raises else {}
            for st1, out in eng.exec_block(s.body, st0, ctx):
                if out[0] in ("normal", "continue"):
                    env = _locals_env(eng, st1)
                    object.__setattr__(env, "_old_heap", st0.heap)
                    object.__setattr__(env, "_old_binds", dict(env_old._binds))
                    try:
                        post = eng.eval_clause_dict(lambda e: spec.summary(e, item, j), env)
                    except ClauseError as ex:
                        post = {f"clause-evaluable({ex})": False}
                    for lab, g in post.items():
                        eng.oblige(st1, f"loop@L{s.lineno}.iter{j}.{lab}", "invariant", g, s)
                    for names, cond in rs.items():
                        nm = names if isinstance(names, str) else "|".join(names)
                        eng.oblige(st1, f"loop@L{s.lineno}.iter{j}.no-{nm}-on-normal-path", "raises", Not(And(cond)), s)
                elif out[0] == "raise":
                    exc: ExcVal = out[1]
                    matched = None
                    for names, cond in rs.items():
                        names_t = names if isinstance(names, tuple) else (names,)
                        if any(exc.cls == n or exc_is_a(exc.cls, n) for n in names_t):
                            matched = And(cond)
                            break
                    eng.oblige(st1, f"loop@L{s.lineno}.iter{j}.{exc.cls}-only-when-declared", "raises",
                               matched if matched is not None else False, s)
                    # (the raising path itself is continued from the summary below, so that there is one of it)
                else:
                    raise Unsupported(f"{out[0]} inside a summarised loop", s)
        # ---- continue from the summary
        res = list(eng.assign(s.target, item, cur, ctx))
        if len(res) != 1 or res[0][1][0] != "normal":
            raise Unsupported("loop target assignment forks", s)
        st0 = res[0][0]
        env_old = _locals_env(eng, st0)
        env_old.snapshot_old()
        rs = spec.raises(env_old, item, j) if spec.raises else {}
        conds = []
        for names, cond in rs.items():
            names_t = names if isinstance(names, tuple) else (names,)
            c = And(cond)
            conds.append(c)
            if c is False:
                continue
            if eng.feasible(st0, c if c is not True else True):
                yield st0.assume(c).with_note(f"L{s.lineno}.iter{j} raises {names_t[0]}"), ("raise", ExcVal(names_t[0]))
        st_n = st0.assume(*[Not(c) for c in conds if c is not False])
        # havoc what the body modifies
        for path in spec.modifies:
            parts = path.split(".")
            if len(parts) == 1:
                if parts[0] not in st_n.locals:
                    continue      # a temporary of the body that does not exist yet (and is not read after the loop)
                v = st_n.locals[parts[0]]
                if isinstance(v, Ref):
                    st_n = eng.havoc_obj(st_n, v, f"{parts[0]}'")
                else:
                    st_n, nv = eng.fresh_like(st_n, v, f"{parts[0]}'")
                    st_n = st_n.set_local(parts[0], nv)
            else:
                st_n = eng.havoc_path(st_n, path, dict(st_n.locals), ctx.contract)
        for lname, esort in spec.appends.items():
            lref = st_n.locals.get(lname)
            if not isinstance(lref, Ref):
                raise Unsupported(f"appends: {lname} is not a list", s)
            st_n, v, inv = eng.make(st_n, esort, f"{lname}[+]")
            old_items = st0.obj(lref).get("items")       # elements already there are not touched by an append
            st_n = st_n.assume(*inv).heap_set(lref, "items", tuple(old_items) + (v,))
        env = _locals_env(eng, st_n)
        object.__setattr__(env, "_old_heap", st0.heap)
        object.__setattr__(env, "_old_binds", dict(env_old._binds))
        post = eng.eval_clause_dict(lambda e: spec.summary(e, item, j), env)
        cur = env.st.assume(*post.values())
    if s.orelse:
        yield from eng.exec_block(s.orelse, cur, ctx)
    else:
        yield cur, NORMAL


def loop_cut(eng: Any, s: Any, st: State, ctx: Ctx, it: Any = None):
    raise Unsupported("loop over an abstract iterable / while loop (no invariant support for this shape yet)", s)


def make_generator(eng: Any, st: State, fi: Any, args: list, kwargs: dict, node: Any, ctx: Ctx):
    raise Unsupported(f"call of generator function {fi.key}", node)


def exec_yield(eng: Any, e: Any, st: State, ctx: Ctx):
    raise Unsupported("yield", e)
