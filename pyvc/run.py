"""Development runner: python3-vt -m pyvc.run <tree> [contract-key-substring ...]"""
from __future__ import annotations

import json
import subprocess
import sys
import time

from . import models
from .contract import REGISTRY
from .engine import Engine
from .solve import discharge
from .source import Tree


def load_proto(tree_root: str) -> dict:
    import os
    here = os.path.dirname(os.path.dirname(os.path.abspath(__file__)))
    out = subprocess.run(["/venv/bin/python", os.path.join(here, "native", "proto_dump.py"), tree_root],
                         capture_output=True, text=True, check=True, cwd="/")
    return json.loads(out.stdout)


def main() -> None:
    root = sys.argv[1]
    pats = sys.argv[2:]
    tree = Tree(root)
    proto = load_proto(root)
    models.install()
    import contracts  # noqa: F401
    eng = Engine(tree, REGISTRY, proto)
    todo = list(REGISTRY.contracts.values()) + list(REGISTRY.lemmas.values())
    if pats:
        todo = [c for c in todo if any(p in c.key for p in pats)]
    bad = 0
    for c in todo:
        if c.trusted or c.inline:
            continue
        t0 = time.time()
        obs = eng.verify(c)
        from .solve import reset_budget
        reset_budget(6)
        from .solve import discharge_all
        discharge_all(obs)
        n = len(obs)
        ok = sum(1 for o in obs if o.status == "proved")
        print(f"{c.key}: {ok}/{n} proved, paths={eng.func_stats[c.key].get('paths')} in {time.time()-t0:.2f}s")
        for o in obs:
            if o.status != "proved":
                bad += 1
                print(f"   {o.status.upper():10s} {o.kind}.{o.label} line {o.line} note={o.note} {o.detail[:300]}")
                if o.model is not None and "-m" in sys.argv:
                    print("      model:", str(o.model)[:1500])
    print("not proved:", bad)


if __name__ == "__main__":
    main()
