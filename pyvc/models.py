"""
Library models (assumed contracts, DESIGN.md section 4): OrderedDict, deque, str, tuple repetition.
Each model is the *trusted* semantics of a library type; conformance tests live in native/conformance.py.
"""
from __future__ import annotations

from typing import Any

import z3

from . import values as V
from .contract import REGISTRY, Sort
from .state import State
from .values import (ADT, And, BuiltinMethod, ExcVal, Implies, Not, Opt, Or, Raised, Ref, Tup, Unsupported, is_z3, to_z3)

StrArrBool = z3.ArraySort(V.StrSort, V.BoolSort)
StrArrInt = z3.ArraySort(V.StrSort, V.IntSort)
IntArrBool = z3.ArraySort(V.IntSort, V.BoolSort)
IntArrStr = z3.ArraySort(V.IntSort, V.StrSort)


def _line(node: Any) -> int:
    return getattr(node, "lineno", 0)


# ------------------------------------------------------------------ OrderedDict
def _key(eng: Any, st: State, k: Any, node: Any) -> Any:
    """dict key as an SMT string; an optional value is accepted when the path condition excludes None"""
    if isinstance(k, Opt):
        if eng.feasible(st, V.bool_z3(k.isnone)):
            raise Unsupported("possibly-None dictionary key", node)
        k = k.val
    return to_z3(k)


class ODModel:
    """A-OD: collections.OrderedDict[str, int] as (mem, val, n, rank, top).

    mem/val: membership and value maps; n = len; rank: recency order (larger = more recent), top = max rank so far.
    """
    name = "A-OD collections.OrderedDict"
    kind = "od"

    def empty(self, eng: Any, st: State) -> tuple[State, Ref]:
        return eng.alloc(st, "od", "OrderedDict", mem=z3.K(V.StrSort, z3.BoolVal(False)),
                         val=z3.K(V.StrSort, z3.IntVal(0)), n=z3.IntVal(0), rank=z3.K(V.StrSort, z3.IntVal(0)),
                         top=z3.IntVal(0), mark=z3.IntVal(0), t=z3.IntVal(0))

    def make(self, eng: Any, st: State, sort: Sort, name: str) -> tuple[State, Any, list]:
        st, r = eng.alloc(st, "od", "OrderedDict", mem=V.fresh_of_sort(name + ".mem", StrArrBool),
                          val=V.fresh_of_sort(name + ".val", StrArrInt), n=V.fresh_int(name + ".n"),
                          rank=V.fresh_of_sort(name + ".rank", StrArrInt), top=V.fresh_int(name + ".top"),
                          mark=V.fresh_int(name + ".mark"), t=V.fresh_int(name + ".t"))
        return st, r, self.invariant(eng, st, r)

    def invariant(self, eng: Any, st: State, r: Ref) -> list:
        o = st.obj(r)
        k = z3.String("k$od")
        k2 = z3.String("k2$od")
        mem, rank, top, n = o.get("mem"), o.get("rank"), o.get("top"), o.get("n")
        # ghost: `mark` is a rank threshold, `t` counts the members with rank > mark (cardinality facts, A-OD)
        return [0 <= o.get("t"), o.get("t") <= n, o.get("mark") <= top, n >= 0,
                z3.ForAll([k], z3.Implies(z3.Select(mem, k), z3.And(n >= 1, z3.Select(rank, k) <= top))),
                z3.ForAll([k, k2], z3.Implies(z3.And(z3.Select(mem, k), z3.Select(mem, k2), k != k2),
                                             z3.Select(rank, k) != z3.Select(rank, k2)))]

    def call(self, eng: Any, st: State, args: list, kwargs: dict, node: Any, ctx: Any):
        if args or kwargs:
            raise Unsupported("OrderedDict(...) with arguments", node)
        st2, r = self.empty(eng, st)
        yield st2, r

    def getattr(self, eng: Any, st: State, r: Ref, attr: str, node: Any, ctx: Any):
        yield st, BuiltinMethod(r, attr)

    def length(self, eng: Any, st: State, r: Ref) -> Any:
        return st.obj(r).get("n")

    def contains(self, eng: Any, st: State, r: Ref, x: Any, node: Any):
        yield st, z3.Select(st.obj(r).get("mem"), _key(eng, st, x, node))

    def getitem(self, eng: Any, st: State, r: Ref, k: Any, node: Any, ctx: Any):
        o = st.obj(r)
        kz = _key(eng, st, k, node)
        for st1, b in eng.branch(st, z3.Select(o.get("mem"), kz), f"L{_line(node)}od[k]"):
            if b:
                yield st1, z3.Select(o.get("val"), kz)
            else:
                yield st1, Raised(ExcVal("KeyError"))

    def setitem(self, eng: Any, st: State, r: Ref, k: Any, v: Any, node: Any, ctx: Any):
        o = st.obj(r)
        kz = _key(eng, st, k, node)
        if not V.is_int(v):
            raise Unsupported("OrderedDict value must be int here", node)
        for st1, b in eng.branch(st, z3.Select(o.get("mem"), kz), f"L{_line(node)}od[k]="):
            if b:
                yield st1.heap_put(r, o.set("val", z3.Store(o.get("val"), kz, to_z3(v)))), ("normal",)
            else:
                top2 = o.get("top") + 1
                o2 = o.set("mem", z3.Store(o.get("mem"), kz, z3.BoolVal(True))) \
                      .set("val", z3.Store(o.get("val"), kz, to_z3(v))) \
                      .set("n", o.get("n") + 1).set("rank", z3.Store(o.get("rank"), kz, top2)).set("top", top2) \
                      .set("t", o.get("t") + 1)
                yield st1.heap_put(r, o2), ("normal",)

    def call_method(self, eng: Any, st: State, r: Ref, name: str, args: list, kwargs: dict, node: Any, ctx: Any):
        o = st.obj(r)
        if name == "move_to_end":
            if len(args) != 1 or kwargs:
                raise Unsupported("move_to_end(key, last=...)", node)
            kz = _key(eng, st, args[0], node)
            for st1, b in eng.branch(st, z3.Select(o.get("mem"), kz), f"L{_line(node)}move_to_end"):
                if b:
                    top2 = o.get("top") + 1
                    t2 = o.get("t") + z3.If(z3.Select(o.get("rank"), kz) <= o.get("mark"), 1, 0)
                    yield st1.heap_put(r, o.set("rank", z3.Store(o.get("rank"), kz, top2)).set("top", top2).set("t", t2)), None
                else:
                    yield st1, Raised(ExcVal("KeyError"))
            return
        if name == "get":
            kz = _key(eng, st, args[0], node)
            default = args[1] if len(args) > 1 else kwargs.get("default")
            for st1, b in eng.branch(st, z3.Select(o.get("mem"), kz), f"L{_line(node)}od.get"):
                yield st1, (z3.Select(o.get("val"), kz) if b else default)
            return
        if name == "popitem":
            last = kwargs.get("last", args[0] if args else True)
            if not isinstance(last, bool):
                raise Unsupported("popitem(last=<symbolic>)", node)
            for st1, b in eng.branch(st, o.get("n") > 0, f"L{_line(node)}popitem"):
                if not b:
                    yield st1, Raised(ExcVal("KeyError"))
                    continue
                v = V.fresh_str("victim")
                k = z3.String("k$pop")
                mem, rank = o.get("mem"), o.get("rank")
                if last:
                    order = z3.ForAll([k], z3.Implies(z3.Select(mem, k), z3.Select(rank, k) <= z3.Select(rank, v)))
                else:
                    order = z3.ForAll([k], z3.Implies(z3.Select(mem, k), z3.Select(rank, v) <= z3.Select(rank, k)))
                # cardinality fact (A-OD): if fewer than n members are above the mark, some member is at or below it,
                # and the least recently used one certainly is
                card = z3.Implies(o.get("t") < o.get("n"), z3.Select(rank, v) <= o.get("mark")) if not last else z3.BoolVal(True)
                st2 = st1.assume(z3.Select(mem, v), order, card)
                t2 = o.get("t") - z3.If(z3.Select(rank, v) > o.get("mark"), 1, 0)
                o2 = o.set("mem", z3.Store(mem, v, z3.BoolVal(False))).set("n", o.get("n") - 1).set("t", t2)
                yield st2.heap_put(r, o2), Tup((v, z3.Select(o.get("val"), v)))
            return
        raise Unsupported(f"OrderedDict.{name}", node)


# ------------------------------------------------------------------------ deque
class DequeModel:
    """A-DEQUE: deque[str|None] of fixed length (only indexing is used by pyjelly)."""
    name = "A-DEQUE collections.deque"
    kind = "deque"

    def make(self, eng: Any, st: State, sort: Sort, name: str) -> tuple[State, Any, list]:
        n = V.fresh_int(name + ".len")
        st, r = eng.alloc(st, "deque", "deque", isnone=V.fresh_of_sort(name + ".isnone", IntArrBool),
                          val=V.fresh_of_sort(name + ".val", IntArrStr), len=n)
        return st, r, [n >= 0]

    def invariant(self, eng: Any, st: State, r: Ref) -> list:
        return [st.obj(r).get("len") >= 0]

    def call(self, eng: Any, st: State, args: list, kwargs: dict, node: Any, ctx: Any):
        maxlen = kwargs.get("maxlen", args[1] if len(args) > 1 else None)
        src = args[0] if args else None
        if maxlen is None and src is None:
            # an unbounded, initially empty deque used as a store: only append / len matter
            st2, r = eng.alloc(st, "absbag", "deque", n=z3.IntVal(0), arity0=V.fresh_int("arity0"))
            yield st2, r
            return
        if maxlen is None or not V.is_int(maxlen):
            raise Unsupported("deque without integer maxlen", node)
        if not (isinstance(src, Ref) and st.obj(src).kind == "reptuple" and st.obj(src).get("item") is None):
            if isinstance(src, Tup) and all(x is None for x in src.items):
                n: Any = z3.IntVal(len(src.items))
            else:
                raise Unsupported("deque(iterable) with iterable other than (None,)*n", node)
        else:
            n = st.obj(src).get("n")
        for st1, neg in eng.branch(st, maxlen < 0, f"L{_line(node)}deque-maxlen"):
            if neg:
                yield st1, Raised(ExcVal("ValueError"))
            else:
                ln = z3.If(n <= maxlen, n, to_z3(maxlen))
                st2, r = eng.alloc(st1, "deque", "deque", isnone=z3.K(V.IntSort, z3.BoolVal(True)),
                                   val=z3.K(V.IntSort, z3.StringVal("")), len=ln)
                yield st2, r

    def getattr(self, eng: Any, st: State, r: Ref, attr: str, node: Any, ctx: Any):
        yield st, BuiltinMethod(r, attr)

    def length(self, eng: Any, st: State, r: Ref) -> Any:
        return st.obj(r).get("len")

    def _index(self, eng: Any, st: State, r: Ref, i: Any, node: Any):
        o = st.obj(r)
        ln = o.get("len")
        if not V.is_int(i):
            raise Unsupported("deque index must be int", node)
        ok = And(i >= -ln, i < ln)
        for st1, b in eng.branch(st, ok, f"L{_line(node)}deque-idx"):
            if b:
                yield st1, z3.If(i < 0, i + ln, to_z3(i))
            else:
                yield st1, None

    def getitem(self, eng: Any, st: State, r: Ref, i: Any, node: Any, ctx: Any):
        for st1, idx in self._index(eng, st, r, i, node):
            if idx is None:
                yield st1, Raised(ExcVal("IndexError"))
            else:
                o = st1.obj(r)
                yield st1, Opt(z3.Select(o.get("isnone"), idx), z3.Select(o.get("val"), idx))

    def setitem(self, eng: Any, st: State, r: Ref, i: Any, v: Any, node: Any, ctx: Any):
        for st1, idx in self._index(eng, st, r, i, node):
            if idx is None:
                yield st1, ("raise", ExcVal("IndexError"))
                continue
            o = st1.obj(r)
            if v is None:
                o2 = o.set("isnone", z3.Store(o.get("isnone"), idx, z3.BoolVal(True)))
            elif isinstance(v, Opt):
                o2 = o.set("isnone", z3.Store(o.get("isnone"), idx, V.bool_z3(v.isnone))) \
                      .set("val", z3.Store(o.get("val"), idx, to_z3(v.val)))
            elif V.is_str(v):
                o2 = o.set("isnone", z3.Store(o.get("isnone"), idx, z3.BoolVal(False))) \
                      .set("val", z3.Store(o.get("val"), idx, to_z3(v)))
            else:
                raise Unsupported("deque element must be str|None", node)
            yield st1.heap_put(r, o2), ("normal",)

    def call_method(self, eng: Any, st: State, r: Ref, name: str, args: list, kwargs: dict, node: Any, ctx: Any):
        raise Unsupported(f"deque.{name}", node)


# -------------------------------------------------------------------------- str
class StrModel:
    """A-STR: the str methods pyjelly uses."""
    name = "A-STR str.rpartition/removeprefix"

    def call_method(self, eng: Any, st: State, s: Any, name: str, args: list, kwargs: dict, node: Any, ctx: Any):
        if name == "rpartition":
            (sep,) = args
            if not (isinstance(sep, str) and len(sep) == 1):
                raise Unsupported("rpartition with non-constant or multi-char separator", node)
            if isinstance(s, str):
                yield st, Tup(tuple(s.rpartition(sep)))
                return
            sz = to_z3(s)
            sepz = z3.StringVal(sep)
            i = z3.LastIndexOf(sz, sepz)
            n = z3.Length(sz)
            for st1, b in eng.branch(st, i >= 0, f"L{_line(node)}rpartition"):
                if b:
                    a, c = z3.SubString(sz, 0, i), z3.SubString(sz, i + 1, n - i - 1)
                    # A-STR: head ++ sep ++ tail is the string, and the tail is free of the separator
                    st2 = st1.assume(sz == z3.Concat(a, sepz, c), z3.Not(z3.Contains(c, sepz)), i < n)
                    yield st2, Tup((a, sep, c))
                else:
                    yield st1.assume(z3.Not(z3.Contains(sz, sepz))), Tup(("", "", s))
            return
        if name == "partition":
            (sep,) = args
            if not (isinstance(sep, str) and len(sep) == 1):
                raise Unsupported("partition with non-constant or multi-char separator", node)
            sz = to_z3(s)
            sepz = z3.StringVal(sep)
            for st1, b in eng.branch(st, z3.Contains(sz, sepz), f"L{_line(node)}partition"):
                if b:
                    a, c = V.fresh_str("p_head"), V.fresh_str("p_tail")
                    st2 = st1.assume(sz == z3.Concat(a, sepz, c), z3.Not(z3.Contains(a, sepz)))
                    yield st2, Tup((a, sep, c))
                else:
                    yield st1, Tup((s, "", ""))
            return
        if name == "removeprefix":
            (p,) = args
            sz, pz = to_z3(s), to_z3(p)
            yield st, z3.If(z3.PrefixOf(pz, sz), z3.SubString(sz, z3.Length(pz), z3.Length(sz) - z3.Length(pz)), sz)
            return
        if name in ("startswith", "endswith") and len(args) == 1 and V.is_str(args[0]):
            sz, pz = to_z3(s), to_z3(args[0])
            yield st, (z3.PrefixOf(pz, sz) if name == "startswith" else z3.SuffixOf(pz, sz))
            return
        raise Unsupported(f"str.{name}", node)


# ------------------------------------------------------------------------ bytes
class BytesModel:
    """immutable bytes of symbolic length: len + Array Int->Int with every element in 0..255"""
    name = "A-CPY bytes indexing"
    kind = "bytes"

    def make(self, eng: Any, st: State, sort: Sort, name: str) -> tuple[State, Any, list]:
        n = V.fresh_int(name + ".len")
        st, r = eng.alloc(st, "bytes", "bytes", len=n, b=V.fresh_of_sort(name + ".b", z3.ArraySort(V.IntSort, V.IntSort)))
        return st, r, [n >= 0]

    def invariant(self, eng: Any, st: State, r: Ref) -> list:
        return [st.obj(r).get("len") >= 0]

    def length(self, eng: Any, st: State, r: Ref) -> Any:
        return st.obj(r).get("len")

    def getitem(self, eng: Any, st: State, r: Ref, i: Any, node: Any, ctx: Any):
        o = st.obj(r)
        ln = o.get("len")
        if not V.is_int(i):
            raise Unsupported("bytes index must be int", node)
        for st1, ok in eng.branch(st, And(i >= -ln, i < ln), f"L{_line(node)}bytes-idx"):
            if ok:
                idx = z3.If(i < 0, i + ln, to_z3(i)) if is_z3(i) else (i if i >= 0 else i + ln)
                v = z3.Select(o.get("b"), to_z3(idx))
                yield st1.assume(v >= 0, v <= 255), v
            else:
                yield st1, Raised(ExcVal("IndexError"))

    def call_method(self, eng: Any, st: State, r: Ref, name: str, args: list, kwargs: dict, node: Any, ctx: Any):
        raise Unsupported(f"bytes.{name}", node)

    def describe(self, ex: Any, v: Ref, heap: dict) -> Any:
        o = heap[v.id]
        n = ex.py(o.get("len"))
        if n > 64:
            raise Exception("bytes too long")
        return {"t": "bytes", "v": [ex.py(z3.Select(o.get("b"), z3.IntVal(i))) % 256 for i in range(n)]}

    desc_types = ("bytes",)

    def build(self, eng: Any, st: State, d: Any) -> tuple[State, Any]:
        b = z3.K(V.IntSort, z3.IntVal(0))
        for i, x in enumerate(d["v"]):
            b = z3.Store(b, z3.IntVal(i), z3.IntVal(x))
        return eng.alloc(st, "bytes", "bytes", len=z3.IntVal(len(d["v"])), b=b)


# ------------------------------------------------------- small dict keyed by a fixed set of strings (repeated terms)
class SlotDictModel:
    """dict[str, term] over the fixed keys subject/predicate/object/graph (Decoder.repeated_terms): one optional value per key"""
    name = "A-CPY dict with constant string keys"
    kind = "slotdict"
    KEYS = ("subject", "predicate", "object", "graph")

    def make(self, eng: Any, st: State, sort: Sort, name: str) -> tuple[State, Any, list]:
        fields = {}
        invs: list = []
        for k in self.KEYS:
            st, v, inv = eng.make(st, Sort("opt", sort.arg), f"{name}[{k}]")
            fields[k] = v
            invs += inv
        st, r = eng.alloc(st, "slotdict", "dict", **fields)
        return st, r, invs

    def empty(self, eng: Any, st: State) -> tuple[State, Ref]:
        return eng.alloc(st, "slotdict", "dict", **{k: Opt(True, None) for k in self.KEYS})

    def getattr(self, eng: Any, st: State, r: Ref, attr: str, node: Any, ctx: Any):
        yield st, BuiltinMethod(r, attr)

    def getitem(self, eng: Any, st: State, r: Ref, k: Any, node: Any, ctx: Any):
        if not isinstance(k, str) or k not in self.KEYS:
            raise Unsupported("repeated-terms dict used with a key outside subject/predicate/object/graph", node)
        v = st.obj(r).get(k)
        for st1, isn in eng.branch(st, v.isnone, f"L{_line(node)}rep[{k}]"):
            if isn:
                yield st1, Raised(ExcVal("KeyError"))
            else:
                yield st1, v.val

    def setitem(self, eng: Any, st: State, r: Ref, k: Any, v: Any, node: Any, ctx: Any):
        if not isinstance(k, str) or k not in self.KEYS:
            raise Unsupported("repeated-terms dict used with a key outside subject/predicate/object/graph", node)
        if v is None:
            raise Unsupported("None stored as a repeated term", node)
        yield st.heap_set(r, k, v if isinstance(v, Opt) else Opt(False, v)), ("normal",)

    def call_method(self, eng: Any, st: State, r: Ref, name: str, args: list, kwargs: dict, node: Any, ctx: Any):
        raise Unsupported(f"dict.{name} on the repeated-terms dict", node)


class HandlersModel:
    """`{type: getattr(self, name) ...}` built from a class-level table: .get(type(x)) resolves to the bound method"""
    name = "dispatch table built from a class-level {type: method name} literal"
    kind = "handlers"

    def make(self, eng: Any, st: State, sort: Sort, name: str) -> tuple[State, Any, list]:
        st, r = eng.alloc(st, "handlers", "dict", table=sort.arg, owner=None)
        return st, r, []

    def getattr(self, eng: Any, st: State, r: Ref, attr: str, node: Any, ctx: Any):
        yield st, BuiltinMethod(r, attr)

    def call_method(self, eng: Any, st: State, r: Ref, name: str, args: list, kwargs: dict, node: Any, ctx: Any):
        if name != "get" or len(args) != 1:
            raise Unsupported(f"handlers.{name}", node)
        key = args[0]
        owner = st.locals.get("self")
        if not isinstance(owner, Ref):
            raise Unsupported("dispatch table used outside a method", node)
        cls = st.obj(owner).cls
        found = cls.find_class_attr(st.obj(r).get("table"))
        if found is None:
            raise Unsupported(f"class-level table {st.obj(r).get('table')} not found", node)
        disp = eng.eval_const_expr(found[1], found[0].module, node)
        pairs = eng.display_dict(disp, node)
        for k, mname in pairs:
            if key == k:
                m = cls.find_method(mname)
                if m is None:
                    raise Unsupported(f"handler {mname} not found", node)
                yield st, V.BoundMethod(owner, m)
                return
        yield st, None


class AbsIterModel:
    """A-ABSITER: an iterable of unknown length delivering items of a known sort; it is only ever consumed by a loop
    that carries an invariant, by `yield from`, or handed on. Nothing is assumed about its length or its items beyond
    their sort (so the loop is verified for every input sequence)."""
    name = "A-ABSITER abstract iterable"
    kind = "absiter"

    def make(self, eng: Any, st: State, sort: Sort, name: str) -> tuple[State, Any, list]:
        st, r = eng.alloc(st, "absiter", None, elem=sort.arg, id=V.fresh_int(name))
        return st, r, []

    def getattr(self, eng: Any, st: State, r: Ref, attr: str, node: Any, ctx: Any):
        raise Unsupported(f"attribute {attr} of an abstract iterable", node)

    def truth(self, eng: Any, st: State, r: Ref) -> Any:
        return True           # generators/iterators are truthy


class AbsBagModel:
    """A-ABSITER for stores: a growing container of which only the number of elements is tracked (append, len, bool)"""
    name = "A-ABSITER abstract store"
    kind = "absbag"

    def make(self, eng: Any, st: State, sort: Sort, name: str) -> tuple[State, Any, list]:
        n = V.fresh_int(name + ".n")
        a = V.fresh_int(name + ".arity0")
        st, r = eng.alloc(st, "absbag", "deque", n=n, arity0=a)     # ghost: arity of the first stored statement
        return st, r, [n >= 0, a >= 0]

    def getattr(self, eng: Any, st: State, r: Ref, attr: str, node: Any, ctx: Any):
        yield st, BuiltinMethod(r, attr)

    def length(self, eng: Any, st: State, r: Ref) -> Any:
        return st.obj(r).get("n")

    def truth(self, eng: Any, st: State, r: Ref) -> Any:
        return st.obj(r).get("n") > 0

    def call_method(self, eng: Any, st: State, r: Ref, name: str, args: list, kwargs: dict, node: Any, ctx: Any):
        if name == "append" and len(args) == 1:
            yield st.heap_set(r, "n", st.obj(r).get("n") + 1), None
            return
        raise Unsupported(f"deque.{name} on an abstract store", node)

    def getitem(self, eng: Any, st: State, r: Ref, i: Any, node: Any, ctx: Any):
        # only store[0]: some stored statement, of which only the arity (ghost `arity0` of the store) is known
        if not (isinstance(i, int) and i == 0):
            raise Unsupported("indexing an abstract store other than [0]", node)
        o = st.obj(r)
        for st1, nonempty in eng.branch(st, o.get("n") > 0, f"L{_line(node)}store[0]"):
            if nonempty:
                st2, it = eng.alloc(st1, "absstmt", None, n=st1.obj(r).get("arity0"))
                yield st2, it
            else:
                yield st1, Raised(ExcVal("IndexError"))


class AbsStmtModel:
    """an element of an abstract store: only its length is known"""
    name = "A-ABSITER element of an abstract store"
    kind = "absstmt"

    def length(self, eng: Any, st: State, r: Ref) -> Any:
        return st.obj(r).get("n")


class PMapModel:
    """protobuf map field: opaque content, symbolic emptiness"""
    name = "A-PROTO map field"
    kind = "pmap"

    def truth(self, eng: Any, st: State, r: Ref) -> Any:
        return st.obj(r).get("nonempty")

    def getattr(self, eng: Any, st: State, r: Ref, attr: str, node: Any, ctx: Any):
        raise Unsupported(f"attribute {attr} of a protobuf map field", node)


class CtxVarModel:
    """contextvars.ContextVar handed in by the caller: .set(v) makes v the current value (ghost field `current`)"""
    name = "A-CTXVAR contextvars.ContextVar.set"
    kind = "ctxvar"

    def make(self, eng: Any, st: State, sort: Sort, name: str) -> tuple[State, Any, list]:
        st, r = eng.alloc(st, "ctxvar", "ContextVar", current=None, sets=0)
        return st, r, []

    def getattr(self, eng: Any, st: State, r: Ref, attr: str, node: Any, ctx: Any):
        yield st, BuiltinMethod(r, attr)

    def call_method(self, eng: Any, st: State, r: Ref, name: str, args: list, kwargs: dict, node: Any, ctx: Any):
        if name == "set" and len(args) == 1:
            st2 = st.heap_set(r, "current", args[0]).heap_set(r, "sets", st.obj(r).get("sets") + 1)
            st3, tok = eng.alloc(st2, "opaque", None, id=V.fresh_int("token"))
            yield st3, tok
            return
        raise Unsupported(f"ContextVar.{name}", node)


class AbsMapModel:
    """A-ABSITER for mappings: a dict of unknown size, only .items()/.keys()/.values() (as abstract iterables)"""
    name = "A-ABSITER abstract mapping"
    kind = "absmap"

    def make(self, eng: Any, st: State, sort: Sort, name: str) -> tuple[State, Any, list]:
        st, r = eng.alloc(st, "absmap", "dict", key=sort.arg, val=sort.arg2, id=V.fresh_int(name))
        return st, r, []

    def getattr(self, eng: Any, st: State, r: Ref, attr: str, node: Any, ctx: Any):
        yield st, BuiltinMethod(r, attr)

    def call_method(self, eng: Any, st: State, r: Ref, name: str, args: list, kwargs: dict, node: Any, ctx: Any):
        o = st.obj(r)
        if name == "items" and not args:
            st, it = eng.alloc(st, "absiter", None, elem=Sort("tup", (o.get("key"), o.get("val"))), id=V.fresh_int("items"))
        elif name == "keys" and not args:
            st, it = eng.alloc(st, "absiter", None, elem=o.get("key"), id=V.fresh_int("keys"))
        elif name == "values" and not args:
            st, it = eng.alloc(st, "absiter", None, elem=o.get("val"), id=V.fresh_int("values"))
        else:
            raise Unsupported(f"dict.{name} on an abstract mapping", node)
        yield st, it


def install(reg: Any = REGISTRY) -> None:
    reg.models["absiter"] = AbsIterModel()
    reg.models["absmap"] = AbsMapModel()
    reg.models["absbag"] = AbsBagModel()
    reg.models["absstmt"] = AbsStmtModel()
    reg.models["pmap"] = PMapModel()
    reg.models["ctxvar"] = CtxVarModel()
    from .io_model import install as _io
    _io(reg)
    reg.models["slotdict"] = SlotDictModel()
    reg.models["handlers"] = HandlersModel()
    reg.models["bytes"] = BytesModel()
    reg.models["base:UserList"] = UserListModel()
    od = ODModel()
    reg.models["od"] = od
    reg.models["ext:collections.OrderedDict"] = od
    dq = DequeModel()
    reg.models["deque"] = dq
    reg.models["ext:collections.deque"] = dq
    reg.models["str"] = StrModel()


# --------------------------------------------------------------------- UserList
class UserListModel:
    """A-USERLIST: collections.UserList as an object with a `data` list (append/extend/clear/len/bool/iteration)."""
    name = "A-USERLIST collections.UserList"

    def init_fields(self, eng: Any, st: State, r: Ref) -> State:
        st, lst = eng.alloc(st, "list", None, items=())
        return st.heap_set(r, "data", lst)

    def _data(self, st: State, r: Ref) -> Ref:
        d = st.obj(r).get("data", None)
        if not isinstance(d, Ref):
            raise Unsupported("UserList object without a data list")
        return d

    def length(self, eng: Any, st: State, r: Ref) -> Any:
        return eng.list_len(st, self._data(st, r))

    def truth(self, eng: Any, st: State, r: Ref) -> Any:
        n = self.length(eng, st, r)
        return n > 0

    def getattr(self, eng: Any, st: State, r: Ref, attr: str, node: Any, ctx: Any):
        if attr in ("append", "extend", "clear", "__init__", "copy", "insert", "pop"):
            yield st, BuiltinMethod(r, attr)
            return
        yield st, Raised(ExcVal("AttributeError", attr))

    def call_method(self, eng: Any, st: State, r: Ref, name: str, args: list, kwargs: dict, node: Any, ctx: Any):
        if name == "__init__":
            init = args[0] if args else kwargs.get("initlist")
            if isinstance(init, Opt):
                for st1, isn in eng.branch(st, init.isnone, f"L{_line(node)}initlist"):
                    yield from self.call_method(eng, st1, r, "__init__", [None if isn else init.val], {}, node, ctx)
                return
            st, lst = eng.alloc(st, "list", None, items=())
            st = st.heap_set(r, "data", lst)
            if init is None:
                yield st, None
                return
            for st1, items in eng.iterate_all(st, init, node):
                if isinstance(items, Raised):
                    yield st1, items
                else:
                    yield st1.heap_set(lst, "items", tuple(items)), None
            return
        d = self._data(st, r)
        yield from eng.list_method(st, d, name, args, kwargs, node, ctx)

    def iterate_all(self, eng: Any, st: State, r: Ref, node: Any):
        yield st, list(st.obj(self._data(st, r)).get("items"))
