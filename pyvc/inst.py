"""
Counter-model search by index-set instantiation (array-property-fragment style) and validation.

The refutation queries have the shape  H1 /\\ ... /\\ Hn /\\ not G  with universally quantified hypotheses over array
(membership / value / table) state.  MBQI often answers `unknown` on the satisfiable ones, especially with strings.
Here every positive universal quantifier is replaced by its instances over the ground index terms of the query
(indices of select/store and guard bounds), negative ones are skolemised, and the resulting quantifier-free query is
solved.  A model of the instantiated query is only a *candidate*: it is accepted after every original assertion has
been checked to hold in it (model values substituted, `not A` unsatisfiable).  Accepted models are genuine.
"""
from __future__ import annotations

import itertools
from typing import Any

import z3

_fresh = itertools.count(1)


def _skolem(sort: z3.SortRef, ctx: Any) -> z3.ExprRef:
    return z3.Const(f"sk${next(_fresh)}", sort)


def _bound_vars(q: z3.QuantifierRef) -> list:
    return [(q.var_name(i), q.var_sort(i)) for i in range(q.num_vars())]


def skolemize(f: z3.ExprRef, pol: bool = True) -> z3.ExprRef:
    """replace quantifiers that are existential at this polarity by fresh constants; keep the others"""
    if z3.is_quantifier(f):
        universal = f.is_forall()
        if universal == pol:        # stays a universal quantifier (to be instantiated)
            body = skolemize(f.body(), pol)
            vs = [z3.Const(f"{n}", s) for n, s in _bound_vars(f)]
            # rebuild with same bound variables
            inst_body = z3.substitute_vars(body, *reversed(vs))
            return z3.ForAll(vs, inst_body) if pol else z3.Exists(vs, inst_body)
        consts = [_skolem(s, f.ctx) for _n, s in _bound_vars(f)]
        return skolemize(z3.substitute_vars(f.body(), *reversed(consts)), pol)
    if not z3.is_app(f) or not z3.is_bool(f):
        return f
    k = f.decl().kind()
    ch = f.children()
    if k == z3.Z3_OP_NOT:
        return z3.Not(skolemize(ch[0], not pol))
    if k == z3.Z3_OP_AND:
        return z3.And(*[skolemize(c, pol) for c in ch])
    if k == z3.Z3_OP_OR:
        return z3.Or(*[skolemize(c, pol) for c in ch])
    if k == z3.Z3_OP_IMPLIES:
        return z3.Implies(skolemize(ch[0], not pol), skolemize(ch[1], pol))
    return f


def _has_var(e: z3.ExprRef) -> bool:
    seen = set()
    stack = [e]
    while stack:
        x = stack.pop()
        if x.get_id() in seen:
            continue
        seen.add(x.get_id())
        if z3.is_var(x):
            return True
        if z3.is_quantifier(x):
            continue   # nested quantifier: its own variables
        if z3.is_app(x):
            stack.extend(x.children())
    return False


def index_terms(fs: list) -> dict:
    """ground terms used as array indices (and as bounds compared with anything inside quantifier bodies), per sort"""
    out: dict[Any, dict[int, z3.ExprRef]] = {}

    def add(t: z3.ExprRef) -> None:
        if _has_var(t):
            return
        out.setdefault(t.sort().name() if hasattr(t.sort(), "name") else str(t.sort()), {})[t.get_id()] = t

    seen: set[int] = set()

    def walk(x: z3.ExprRef, inq: bool) -> None:
        if x.get_id() in seen and not inq:
            return
        seen.add(x.get_id())
        if z3.is_quantifier(x):
            walk(x.body(), True)
            return
        if not z3.is_app(x):
            return
        k = x.decl().kind()
        if k == z3.Z3_OP_SELECT:
            add(x.arg(1))
        elif k == z3.Z3_OP_STORE:
            add(x.arg(1))
        elif inq and k in (z3.Z3_OP_LE, z3.Z3_OP_GE, z3.Z3_OP_LT, z3.Z3_OP_GT, z3.Z3_OP_EQ, z3.Z3_OP_DISTINCT):
            for c in x.children():
                if z3.is_int(c) or z3.is_string(c):
                    add(c)
        for c in x.children():
            walk(c, inq)
    for f in fs:
        walk(f, False)
    return out


def instantiate(f: z3.ExprRef, terms: dict, pol: bool = True, cap: int = 4000) -> z3.ExprRef:
    if z3.is_quantifier(f):
        if f.is_forall() == pol:
            vs = _bound_vars(f)
            doms = []
            for _n, s in vs:
                d = list(terms.get(s.name(), {}).values())
                d.append(z3.Const(f"other${s.name()}", s))
                doms.append(d)
            total = 1
            for d in doms:
                total *= len(d)
            if total > cap:
                doms = [d[: max(2, int(cap ** (1 / len(doms))))] for d in doms]
            out = []
            for combo in itertools.product(*doms):
                out.append(instantiate(z3.substitute_vars(f.body(), *reversed(combo)), terms, pol, cap))
            return (z3.And(*out) if pol else z3.Or(*out)) if out else z3.BoolVal(pol, f.ctx)
        return f
    if not z3.is_app(f) or not z3.is_bool(f):
        return f
    k = f.decl().kind()
    ch = f.children()
    if k == z3.Z3_OP_NOT:
        return z3.Not(instantiate(ch[0], terms, not pol, cap))
    if k == z3.Z3_OP_AND:
        return z3.And(*[instantiate(c, terms, pol, cap) for c in ch])
    if k == z3.Z3_OP_OR:
        return z3.Or(*[instantiate(c, terms, pol, cap) for c in ch])
    if k == z3.Z3_OP_IMPLIES:
        return z3.Implies(instantiate(ch[0], terms, not pol, cap), instantiate(ch[1], terms, pol, cap))
    return f


def _consts(fs: list) -> dict:
    seen: set[int] = set()
    out: dict[str, Any] = {}
    stack = list(fs)
    while stack:
        x = stack.pop()
        if x.get_id() in seen:
            continue
        seen.add(x.get_id())
        if z3.is_quantifier(x):
            stack.append(x.body())
            continue
        if z3.is_app(x):
            if x.num_args() == 0 and x.decl().kind() == z3.Z3_OP_UNINTERPRETED:
                out[str(x)] = x
            stack.extend(x.children())
    return out


def validate(model: z3.ModelRef, assertions: list, timeout_ms: int = 3000) -> bool:
    """every original assertion holds in the model (constants fixed to their model values)"""
    cs = _consts(assertions)
    fixes = []
    for c in cs.values():
        v = model.eval(c, model_completion=True)
        fixes.append(c == v)
    decls = [d for d in model.decls() if d.arity() > 0]
    for a in assertions:
        v = model.eval(a, model_completion=True)
        if z3.is_true(v):
            continue
        if z3.is_false(v):
            return False
        s = z3.Solver(ctx=a.ctx)
        s.set("timeout", timeout_ms)
        s.add(*fixes)
        for d in decls:     # uninterpreted functions: pin their interpretation on the arguments that occur
            pass
        s.add(z3.Not(a))
        if s.check() != z3.unsat:
            return False
    return True


def find_model(assertions: list, timeout_ms: int = 8000) -> Any:
    """returns (model, solver) of a validated model of /\\ assertions, or None"""
    sk = [skolemize(a, True) for a in assertions]
    terms = index_terms(sk)
    inst = [instantiate(a, terms, True) for a in sk]
    # second round: instantiation creates new ground index terms (e.g. key_at[val[k]])
    terms2 = index_terms(inst)
    grew = any(len(terms2.get(k, {})) > len(terms.get(k, {})) for k in terms2)
    if grew:
        inst = [instantiate(a, terms2, True) for a in sk]
    s = z3.Solver(ctx=assertions[0].ctx) if assertions else z3.Solver()
    s.set("timeout", timeout_ms)
    s.add(*inst)
    if s.check() != z3.sat:
        return None
    m = s.model()
    if not validate(m, sk):
        return None
    return m, s


import os as _os
_DBG = _os.environ.get("PYVC_DBG") == "1"


def cegar_model(assertions: list, scope: int = 3, rounds: int = 8, timeout_ms: int = 4000, total_s: float = 20.0) -> Any:
    """Counterexample-guided instantiation inside a small scope.
    Arrays are restricted to finite tables over `scope` shared string keys / the ints 0..scope+1 (boolean arrays default
    to False), universal hypotheses are instantiated over a growing finite domain, and every candidate model is checked
    against the original quantified assertions; a violated instance contributes its witness values to the domain.
    Returns (model, solver) of a validated model, or None."""
    import time
    t_end = time.time() + total_s
    sk = [skolemize(a, True) for a in assertions]
    return _cegar(sk, scope, rounds, timeout_ms, t_end)


def cegar_model_fresh_ctx(assertions: list, scope: int = 3, rounds: int = 8, timeout_ms: int = 4000, total_s: float = 20.0) -> Any:
    """same, in a fresh z3 context (a check interrupted by its timeout can leave the shared context producing incomplete
    models afterwards); returns (model, solver, ctx) or None"""
    import time
    ctx = z3.Context()
    tr = [a.translate(ctx) for a in assertions]
    r = _cegar([skolemize(a, True) for a in tr], scope, rounds, timeout_ms, time.time() + total_s, ctx)
    return None if r is None else (r[0], r[1], ctx)


def _cegar(sk: list, scope: int, rounds: int, timeout_ms: int, t_end: float, ctx: Any = None) -> Any:
    import time
    cs = _consts(sk)
    arrays = [(nm, c) for nm, c in sorted(cs.items()) if z3.is_array(c)]
    skeys = [z3.String(f"ss_key{i}", ctx) for i in range(scope)]
    extra = []
    for name, c in arrays:
        dom, rng = c.sort().domain(), c.sort().range()
        if dom == z3.StringSort(ctx):
            idx = skeys
        elif dom == z3.IntSort(ctx):
            idx = [z3.IntVal(i, ctx) for i in range(0, scope + 2)]
        else:
            continue
        a = z3.K(dom, z3.BoolVal(False, ctx)) if rng == z3.BoolSort(ctx) else z3.K(dom, z3.Const(f"ss_d_{name}", rng))
        for j, ix in enumerate(idx):
            a = z3.Store(a, ix, z3.Const(f"ss_v_{name}_{j}", rng))
        extra.append(c == a)
    strs = [c for c in cs.values() if c.sort() == z3.StringSort(ctx)]
    ints = [c for c in cs.values() if c.sort() == z3.IntSort(ctx)]
    dom_s = {t.get_id(): t for t in skeys + strs}
    dom_i = {t.get_id(): t for t in [z3.IntVal(i, ctx) for i in range(0, scope + 2)] + ints}
    quantified = [a for a in sk if _contains_quantifier(a)]
    for _ in range(rounds):
        if time.time() > t_end:
            return None
        terms = {"String": dom_s, "Int": dom_i}
        inst = [instantiate(a, terms, True) for a in sk]
        s = z3.Solver(ctx=ctx)
        s.set("timeout", timeout_ms)
        s.add(*inst)
        s.add(*extra)
        rc = s.check()
        if _DBG:
            print("   cegar round: check", rc, "dom", len(dom_s), len(dom_i))
        if rc != z3.sat:
            return None
        m = s.model()
        all_cs = dict(cs)
        fixes = [c == m.eval(c, model_completion=True) for c in all_cs.values()]
        grew = False
        for a in quantified:
            v = m.eval(a, model_completion=True)
            if z3.is_true(v):
                continue
            wit_consts: list = []
            neg = _negate_with_witnesses(a, wit_consts)
            sv = z3.Solver(ctx=ctx)
            sv.set("timeout", 2000)
            sv.add(*fixes)
            sv.add(neg)
            r = sv.check()
            if _DBG:
                print("     violated?", r, str(a)[:100].replace("\n", " "))
            if r == z3.unsat:
                continue
            if r != z3.sat:
                return None
            mv = sv.model()
            for w in wit_consts:
                val = mv.eval(w, model_completion=True)
                d = dom_s if val.sort() == z3.StringSort(ctx) else dom_i if val.sort() == z3.IntSort(ctx) else None
                if d is not None and val.get_id() not in d:
                    d[val.get_id()] = val
                    grew = True
            if not grew:
                return None
        if not grew:
            # nothing violated: every quantified assertion was checked by a solver under the model's values; the ground
            # ones hold because they are part of the instantiated query
            for a in sk:
                if not _contains_quantifier(a) and z3.is_false(m.eval(a, model_completion=True)):
                    if _DBG:
                        print("     ground assertion false in model:", str(a)[:300])
                    return None
            return m, s
    return None


def _contains_quantifier(e: z3.ExprRef) -> bool:
    stack = [e]
    seen = set()
    while stack:
        x = stack.pop()
        if x.get_id() in seen:
            continue
        seen.add(x.get_id())
        if z3.is_quantifier(x):
            return True
        if z3.is_app(x):
            stack.extend(x.children())
    return False


def _negate_with_witnesses(a: z3.ExprRef, wits: list) -> z3.ExprRef:
    """not a, with the universally quantified variables of `a` (positive polarity) replaced by fresh constants that
    are recorded in `wits`"""
    def neg(f: z3.ExprRef, pol: bool) -> z3.ExprRef:
        # returns a formula equivalent to f (pol=True) with outer positive universals opened by witnesses when negated
        if z3.is_quantifier(f) and f.is_forall() and not pol:
            consts = []
            for i in range(f.num_vars()):
                c = z3.Const(f"wit${next(_fresh)}", f.var_sort(i))
                consts.append(c)
                wits.append(c)
            return neg(z3.substitute_vars(f.body(), *reversed(consts)), pol)
        if z3.is_app(f) and z3.is_bool(f):
            k = f.decl().kind()
            ch = f.children()
            if k == z3.Z3_OP_NOT:
                return z3.Not(neg(ch[0], not pol))
            if k == z3.Z3_OP_AND:
                return z3.And(*[neg(c, pol) for c in ch])
            if k == z3.Z3_OP_OR:
                return z3.Or(*[neg(c, pol) for c in ch])
            if k == z3.Z3_OP_IMPLIES:
                return z3.Implies(neg(ch[0], not pol), neg(ch[1], pol))
        return f
    return z3.Not(neg(a, False))
