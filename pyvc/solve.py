"""Discharging obligations: z3 API first, then /usr/bin/cvc5 and /usr/bin/z3 (4.8) on an SMT-LIB dump."""
from __future__ import annotations

import os
import subprocess
import tempfile
import time
from typing import Any

import z3

from .engine_base import Obligation

Z3_TIMEOUT_MS = int(os.environ.get("PYVC_Z3_MS", "10000"))
FALLBACK_S = int(os.environ.get("PYVC_FALLBACK_S", "20"))


def _run_cli(cmd: list[str], smt2: str, timeout: int) -> str:
    with tempfile.NamedTemporaryFile("w", suffix=".smt2", delete=False) as f:
        f.write(smt2)
        path = f.name
    try:
        p = subprocess.run(cmd + [path], capture_output=True, text=True, timeout=timeout + 5)
        out = (p.stdout or "").strip().splitlines()
        return out[0].strip() if out else "unknown"
    except subprocess.TimeoutExpired:
        return "unknown"
    finally:
        os.unlink(path)


def fallback(smt2: str) -> tuple[str, str]:
    """Returns (verdict, backend) with verdict in sat/unsat/unknown."""
    r = _run_cli(["/usr/bin/cvc5", "--strings-exp", f"--tlimit={FALLBACK_S * 1000}"], smt2, FALLBACK_S)
    if r in ("sat", "unsat"):
        return r, "cvc5-1.0.3"
    r = _run_cli(["/usr/bin/z3", f"-T:{FALLBACK_S}"], smt2, FALLBACK_S)
    if r in ("sat", "unsat"):
        return r, "z3-4.8.12"
    return "unknown", ""


def discharge(ob: Obligation, want_model: bool = True, second_opinion: bool = False) -> None:
    if ob.status != "open":
        return
    t0 = time.time()
    s = z3.Solver()
    s.set("timeout", Z3_TIMEOUT_MS)
    for c in ob.pc:
        if c is True:
            continue
        if c is False:
            s.add(z3.BoolVal(False))
        else:
            s.add(c)
    if ob.kind == "cover":
        r = s.check()
        ob.ms = (time.time() - t0) * 1000
        ob.backend = "z3-5.1.0"
        if r == z3.unsat:
            ob.status = "refuted"
            ob.detail = "precondition/type invariants are contradictory (vacuous contract)"
        else:
            ob.status = "proved"
            ob.detail = "sat" if r == z3.sat else "not shown unsat"
        return
    s.add(z3.Not(ob.goal))
    r = s.check()
    ob.backend = "z3-5.1.0"
    if r == z3.unknown:
        v, be = fallback(s.to_smt2())
        if v == "unsat":
            r = z3.unsat
            ob.backend = be
        elif v == "sat":
            ob.status = "refuted"
            ob.backend = be
            ob.detail = "counter-model found by fallback solver (no model extracted)"
            ob.ms = (time.time() - t0) * 1000
            return
    ob.ms = (time.time() - t0) * 1000
    if r == z3.unsat:
        ob.status = "proved"
        if second_opinion:
            v, be = fallback(s.to_smt2())
            ob.detail = f"second opinion {be or 'none'}: {v}"
            if v == "sat":
                ob.status = "unknown"
                ob.detail = f"solver disagreement: z3 unsat, {be} sat"
    elif r == z3.sat:
        ob.status = "refuted"
        if want_model:
            ob.model = s.model()
    else:
        ob.status = "unknown"
        ob.detail = s.reason_unknown()
