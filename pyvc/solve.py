"""Discharging obligations: z3 API first, then /usr/bin/cvc5 and /usr/bin/z3 (4.8) on an SMT-LIB dump."""
from __future__ import annotations

import os
import subprocess
import tempfile
import time
from typing import Any

import z3

from .engine_base import Obligation

Z3_TIMEOUT_MS = int(os.environ.get("PYVC_Z3_MS", "10000"))
FALLBACK_S = int(os.environ.get("PYVC_FALLBACK_S", "20"))
CONFIRM_S = int(os.environ.get("PYVC_CONFIRM_S", "6"))


def _run_cli(cmd: list[str], smt2: str, timeout: int) -> str:
    with tempfile.NamedTemporaryFile("w", suffix=".smt2", delete=False) as f:
        f.write(smt2)
        path = f.name
    try:
        p = subprocess.run(cmd + [path], capture_output=True, text=True, timeout=timeout + 5)
        out = (p.stdout or "").strip().splitlines()
        return out[0].strip() if out else "unknown"
    except subprocess.TimeoutExpired:
        return "unknown"
    finally:
        os.unlink(path)


def fallback(smt2: str, limit_s: int | None = None) -> tuple[str, str]:
    """Returns (verdict, backend) with verdict in sat/unsat/unknown."""
    lim = FALLBACK_S if limit_s is None else limit_s
    r = _run_cli(["/usr/bin/cvc5", "--strings-exp", f"--tlimit={lim * 1000}"], smt2, lim)
    if r in ("sat", "unsat"):
        return r, "cvc5-1.0.3"
    r = _run_cli(["/usr/bin/z3", f"-T:{lim}"], smt2, lim)
    if r in ("sat", "unsat"):
        return r, "z3-4.8.12"
    return "unknown", ""


_KEEP: list = []


def _uninterp_consts(fs: list) -> dict:
    seen: set[int] = set()
    out: dict[str, Any] = {}
    stack = list(fs)
    while stack:
        x = stack.pop()
        i = x.get_id()
        if i in seen:
            continue
        seen.add(i)
        if z3.is_quantifier(x):
            stack.append(x.body())
            continue
        if z3.is_app(x):
            if x.num_args() == 0 and x.decl().kind() == z3.Z3_OP_UNINTERPRETED:
                out[str(x)] = x
            stack.extend(x.children())
    return out


class CtxModel:
    """A model living in its own z3 context (a solver interrupted by a timeout can leave the shared default context in
    a state where later models come back incomplete -- seen with z3 5.1.0); eval translates in and out."""

    def __init__(self, model: Any, ctx: Any, solver: Any) -> None:
        self.model, self.ctx, self.solver = model, ctx, solver
        self.main = z3.main_ctx()

    def eval(self, e: Any, model_completion: bool = True) -> Any:
        if self.ctx is None or self.ctx == self.main:
            return self.model.eval(e, model_completion=model_completion)
        r = self.model.eval(e.translate(self.ctx), model_completion=model_completion)
        return r.translate(self.main)

    def string_values(self) -> set:
        out: set[str] = set()
        for d in self.model.decls():
            v = self.model[d]
            if d.arity() == 0:
                if z3.is_string_value(v):
                    out.add(v.as_string())
            elif isinstance(v, z3.FuncInterp):
                for i in range(v.num_entries()):
                    en = v.entry(i)
                    for j in range(en.num_args()):
                        a = en.arg_value(j)
                        if z3.is_string_value(a):
                            out.add(a.as_string())
        return out

    def __str__(self) -> str:
        return str(self.model)


def small_scope(assertions: list, timeout_ms: int = 4000, scopes: tuple = (1, 2, 3, 4)) -> Any:
    """Counter-model search in a small scope: every uninterpreted array is restricted to an explicit finite table over
    N shared keys (strings) / the indices 0..N+1 (ints), boolean arrays default to False (finite sets).  The restriction
    only *adds* constraints, so a model found here is a genuine model of the original query; it is also small, which is
    what the native replay wants.  Every model is validated against the ground conjuncts before it is returned.
    Returns a CtxModel or None."""
    cs = _uninterp_consts(assertions)
    arrays = [(n, c) for n, c in sorted(cs.items()) if z3.is_array(c)]
    ctx = z3.Context()
    tr = [a.translate(ctx) for a in assertions]
    names = list(cs)
    for n in (scopes if arrays else (0,)):
        for bool_default in ((False, None) if arrays else (None,)):
            s = z3.Solver(ctx=ctx)
            s.set("timeout", timeout_ms)
            s.add(*tr)
            skeys = [z3.String(f"ss_key{i}", ctx) for i in range(n)]
            for name, c0 in arrays:
                c = c0.translate(ctx)
                dom, rng = c.sort().domain(), c.sort().range()
                if dom == z3.StringSort(ctx):
                    idx = skeys
                elif dom == z3.IntSort(ctx):
                    idx = [z3.IntVal(i, ctx) for i in range(0, n + 2)]
                else:
                    continue
                if rng == z3.BoolSort(ctx) and bool_default is not None:
                    a = z3.K(dom, z3.BoolVal(bool_default, ctx))
                else:
                    a = z3.K(dom, z3.Const(f"ss_d_{name}", rng))
                for j, ix in enumerate(idx):
                    a = z3.Store(a, ix, z3.Const(f"ss_v_{name}_{j}", rng))
                s.add(c == a)
            if s.check() == z3.sat:
                m = s.model()
                have = {str(d) for d in m.decls()}
                if any(nm not in have for nm in names):
                    continue      # incomplete model: do not trust it
                if any(z3.is_false(m.eval(a, model_completion=True)) for a in tr):
                    continue      # model validation failed
                return CtxModel(m, ctx, s)
    return None


def split_goal(g: Any, limit: int = 24) -> list:
    """A => (b1 /\ ... /\ bn)  ~>  [A => b1, ..., A => bn]   (recursively; conjunctions only)"""
    if not z3.is_expr(g) or not z3.is_app(g):
        return [g]
    k = g.decl().kind()
    if k == z3.Z3_OP_AND:
        out: list = []
        for c in g.children():
            out += split_goal(c, limit)
        return out if len(out) <= limit else [g]
    if k == z3.Z3_OP_IMPLIES:
        a, b = g.children()
        parts = split_goal(b, limit)
        if len(parts) > 1:
            return [z3.Implies(a, p) for p in parts]
    return [g]


def discharge_all(obs: list, second_opinion: bool = False) -> None:
    """Discharge a function's obligations; those sharing a path condition share one incremental solver."""
    groups: dict[int, list] = {}
    for ob in obs:
        if ob.status == "open" and ob.kind != "cover":
            groups.setdefault(id(ob.pc), []).append(ob)
    for grp in groups.values():
        s = z3.Solver()
        s.set("timeout", 1500)
        s.set("smt.mbqi", False)      # proofs here need E-matching only; MBQI (model finding) just burns the budget
        for c in grp[0].pc:
            if c is True:
                continue
            s.add(z3.BoolVal(False) if c is False else c)
        for ob in grp:
            t0 = time.time()
            ok = True
            for part in split_goal(ob.goal):
                s.push()
                s.add(z3.Not(part))
                r = s.check()
                s.pop()
                if r != z3.unsat:
                    ok = False
                    break
            if ok:
                ob.status = "proved"
                ob.backend = "z3-5.1.0"
                ob.ms = (time.time() - t0) * 1000
    for ob in obs:
        discharge(ob, second_opinion=second_opinion)
    retry_unknown(obs)


def retry_unknown(obs: list, timeout_ms: int = int(os.environ.get("PYVC_RETRY_MS", "20000")), limit: int = 6) -> None:
    """Verdicts must not flip because the machine is busy: an obligation left `unknown` by a timeout is tried again, proof
    only, conjunct by conjunct in a fresh context with a much longer budget. Only `unsat` changes anything."""
    n = 0
    for ob in obs:
        if ob.status != "unknown" or ob.kind == "cover" or n >= limit:
            continue
        if not any(w in (ob.detail or "") for w in ("timeout", "canceled", "budget", "unknown", "incomplete")) and ob.detail:
            continue
        n += 1
        t0 = time.time()
        try:
            ctx2 = z3.Context()
            pc2 = [(z3.BoolVal(False, ctx2) if c is False else c.translate(ctx2)) for c in ob.pc if c is not True]
            ok = True
            for part in split_goal(ob.goal):
                proved = False
                for mbqi in (False, True):
                    sp = z3.Solver(ctx=ctx2)
                    sp.set("timeout", timeout_ms)
                    sp.set("smt.mbqi", mbqi)
                    sp.add(*pc2)
                    sp.add(z3.Not(part.translate(ctx2)))
                    if sp.check() == z3.unsat:
                        proved = True
                        break
                if not proved:
                    ok = False
                    break
            if ok:
                ob.status = "proved"
                ob.backend = "z3-5.1.0 (retry with long budget)"
                ob.detail = f"first attempt: {ob.detail}"
        except z3.Z3Exception:
            pass
        ob.ms += (time.time() - t0) * 1000


_BUDGET = {"expensive_left": 6}


def reset_budget(n: int = 6) -> None:
    _BUDGET["expensive_left"] = n


def discharge(ob: Obligation, want_model: bool = True, second_opinion: bool = False) -> None:
    if ob.status != "open":
        return
    t0 = time.time()
    s = z3.Solver()
    s.set("timeout", Z3_TIMEOUT_MS)
    for c in ob.pc:
        if c is True:
            continue
        if c is False:
            s.add(z3.BoolVal(False))
        else:
            s.add(c)
    if ob.kind == "cover":
        ob.backend = "z3-5.1.0"
        if any(c is False for c in ob.pc):
            ob.status = "refuted"
            ob.detail = "the path condition contains a literal False (vacuous)"
            ob.ms = (time.time() - t0) * 1000
            return
        if small_scope([c for c in ob.pc if c is not True and c is not False], 2000, (1, 2, 3)) is not None:
            ob.status = "proved"
            ob.detail = "sat (small-scope witness of the precondition)"
            ob.ms = (time.time() - t0) * 1000
            return
        s.set("timeout", 3000)
        r = s.check()
        ob.ms = (time.time() - t0) * 1000
        if r == z3.unsat:
            ob.status = "refuted"
            ob.detail = "precondition/type invariants are contradictory (vacuous contract)"
        else:
            ob.status = "proved"
            ob.detail = "sat" if r == z3.sat else "not shown unsat"
        return
    if z3.is_false(ob.goal) and not any(c is False for c in ob.pc):
        # the clause is structurally false on this path (a list of the wrong shape, a frame handed on twice, ...): what is
        # left to decide is whether the path is reachable - the same question as for a precondition's cover check
        m0 = small_scope([c for c in ob.pc if c is not True], 3000, (1, 2, 3))
        if m0 is not None:
            ob.status = "refuted"
            ob.backend = "z3-5.1.0 (clause structurally false; path shown reachable by a small-scope witness)"
            ob.model = m0
            ob.ms = (time.time() - t0) * 1000
            return
    s.add(z3.Not(ob.goal))
    # NB: Solver.assertions() may hand back proxy literals (k!N) instead of the formulas; keep our own list
    assertions = [c for c in ob.pc if c is not True and c is not False] + [z3.Not(ob.goal)]
    if any(c is False for c in ob.pc):
        assertions.append(z3.BoolVal(False))
    # conjunct by conjunct, a fresh solver each (incremental solvers degrade on these quantified queries)
    parts = split_goal(ob.goal)
    if len(parts) > 1:
        all_ok = True
        ctx2 = z3.Context()          # a fresh context: solver behaviour on these queries depends on context history
        pc2 = [(z3.BoolVal(False, ctx2) if c is False else c.translate(ctx2)) for c in ob.pc if c is not True]
        for part in parts:
            sp = z3.Solver(ctx=ctx2)
            sp.set("timeout", min(6000, Z3_TIMEOUT_MS))
            sp.set("smt.mbqi", False)
            sp.add(*pc2)
            sp.add(z3.Not(part.translate(ctx2)))
            if sp.check() != z3.unsat:
                all_ok = False
                break
        if all_ok:
            ob.status = "proved"
            ob.ms = (time.time() - t0) * 1000
            return
    s.set("timeout", min(4000, Z3_TIMEOUT_MS))
    s.set("smt.mbqi", False)
    r = s.check()
    if r != z3.unsat:
        s.set("smt.mbqi", True)
        s.set("timeout", min(3000, Z3_TIMEOUT_MS))
        r = s.check()
    ob.backend = "z3-5.1.0"
    budget = _BUDGET
    if r != z3.unsat and budget["expensive_left"] <= 0:
        ob.status = "unknown" if r == z3.unknown else "refuted"
        ob.detail = "counter-model search budget of this function exhausted" if r == z3.unknown else \
            "sat, but no validated small model (counter-model not replayable)"
        ob.ms = (time.time() - t0) * 1000
        return
    if r != z3.unsat:
        budget["expensive_left"] -= 1
        from .inst import cegar_model_fresh_ctx
        for scope in (2, 3):
            try:
                fm = cegar_model_fresh_ctx(assertions, scope=scope, total_s=8.0)
            except z3.Z3Exception:
                fm = None
            if fm is not None:
                ob.status = "refuted"
                ob.backend = "z3-5.1.0 (small-scope counterexample-guided instantiation, model validated)"
                ob.model = CtxModel(fm[0], fm[2], fm[1])
                ob.ms = (time.time() - t0) * 1000
                return
        m = small_scope(assertions, 2000, (1, 2, 3))
        if m is not None:
            ob.status = "refuted"
            ob.backend = "z3-5.1.0 (small-scope model search)"
            ob.model = m
            ob.ms = (time.time() - t0) * 1000
            return
    if r == z3.unknown and second_opinion:
        s.set("timeout", Z3_TIMEOUT_MS)
        r = s.check()
    if r == z3.unknown and second_opinion:
        v, be = fallback(s.to_smt2())
        if v == "unsat":
            r = z3.unsat
            ob.backend = be
        elif v == "sat":
            # a bare `sat` from a command-line back end comes without a model we can validate or replay:
            # it is not evidence of a violation (string solvers do answer sat wrongly); the obligation stays undecided
            ob.status = "unknown"
            ob.backend = be
            ob.detail = f"{be} answered sat but no validated counter-model exists; z3: {s.reason_unknown()}"
            ob.ms = (time.time() - t0) * 1000
            return
    ob.ms = (time.time() - t0) * 1000
    if r == z3.unsat:
        ob.status = "proved"
        if second_opinion:
            v, be = fallback(s.to_smt2(), limit_s=CONFIRM_S)      # confirmation of a proof: a short budget is enough to hear a `sat`
            ob.detail = f"second opinion {be or 'none'}: {v}"
            if v == "sat":
                ob.status = "unknown"
                ob.detail = f"solver disagreement: z3 unsat, {be} sat"
    elif r == z3.sat:
        ob.status = "refuted"
        ob.detail = "sat, but no validated small model (counter-model not replayable)"
    else:
        ob.status = "unknown"
        ob.detail = s.reason_unknown()
