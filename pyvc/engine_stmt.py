"""Statement execution of the symbolic executor."""
from __future__ import annotations

import ast
from typing import Any, Iterator

import z3

from . import values as V
from .engine_expr import Ctx, ExprMixin, Res, _kind
from .source import ClassInfo
from .state import State
from .values import (ADT, And, BoundMethod, ClassVal, ExcVal, ExtVal, FuncVal, Not, Opt, Raised, Rec, Ref, Seg, Tup,
                     Unsupported, exc_is_a, is_z3)

import os as _os
_TRACE = _os.environ.get("PYVC_TRACE") == "1"
Out = Iterator[tuple[State, tuple]]
NORMAL = ("normal",)


class StmtMixin(ExprMixin):
    def exec_block(self, stmts: list[ast.stmt], st: State, ctx: Ctx) -> Out:
        if not stmts:
            yield st, NORMAL
            return
        head, rest = stmts[0], stmts[1:]
        for st1, out in self.exec_stmt(head, st, ctx):
            if out[0] == "normal":
                yield from self.exec_block(rest, st1, ctx)
            else:
                yield st1, out

    def exec_stmt(self, s: ast.stmt, st: State, ctx: Ctx) -> Out:
        self.stmts_executed += 1
        if _TRACE:
            print(f"[trace] {'  ' * self.call_depth}L{s.lineno} {type(s).__name__}: {ast.unparse(s).splitlines()[0][:100]}", flush=True)
        m = getattr(self, "exec_" + type(s).__name__, None)
        if m is None:
            raise Unsupported(f"statement {type(s).__name__}", s)
        return m(s, st, ctx)

    # ------------------------------------------------------------ simple ones
    def exec_Pass(self, s: ast.Pass, st: State, ctx: Ctx) -> Out:
        yield st, NORMAL

    def exec_Expr(self, s: ast.Expr, st: State, ctx: Ctx) -> Out:
        if isinstance(s.value, ast.Constant):   # docstring
            yield st, NORMAL
            return
        if isinstance(s.value, (ast.Yield, ast.YieldFrom)):
            yield from self.exec_yield(s.value, st, ctx)
            return
        for st1, v in self.eval(s.value, st, ctx):
            if isinstance(v, Raised):
                yield st1, ("raise", v.exc)
            else:
                yield st1, NORMAL

    def exec_yield(self, e: Any, st: State, ctx: Ctx) -> Out:
        raise Unsupported("yield (generator support not loaded)", e)

    def exec_Return(self, s: ast.Return, st: State, ctx: Ctx) -> Out:
        if s.value is None:
            yield st, ("return", None)
            return
        for st1, v in self.eval(s.value, st, ctx):
            if isinstance(v, Raised):
                yield st1, ("raise", v.exc)
            else:
                yield st1, ("return", v)

    def exec_Break(self, s: ast.Break, st: State, ctx: Ctx) -> Out:
        yield st, ("break",)

    def exec_Continue(self, s: ast.Continue, st: State, ctx: Ctx) -> Out:
        yield st, ("continue",)

    def exec_Import(self, s: ast.Import, st: State, ctx: Ctx) -> Out:
        raise Unsupported("import inside function", s)

    def exec_ImportFrom(self, s: ast.ImportFrom, st: State, ctx: Ctx) -> Out:
        mod = s.module or ""
        for a in s.names:
            if mod in self.tree.modules:
                r = self.tree.resolve(self.tree.module(mod), a.name)
                if r is None:
                    raise Unsupported(f"cannot import {a.name} from {mod}", s)
                st = st.set_local(a.asname or a.name, self.global_value(r, Ctx(self.tree.module(mod)), a.name, s))
            else:
                st = st.set_local(a.asname or a.name, ExtVal(f"{mod}.{a.name}"))
        yield st, NORMAL

    def exec_Assert(self, s: ast.Assert, st: State, ctx: Ctx) -> Out:
        # CPython without -O (assumption A-NOOPT): a false assert raises AssertionError
        for st1, v in self.eval(s.test, st, ctx):
            if isinstance(v, Raised):
                yield st1, ("raise", v.exc)
                continue
            for st2, b in self.branch(st1, self.truth(st1, v, s), f"L{s.lineno}assert"):
                if b:
                    yield st2, NORMAL
                else:
                    yield st2, ("raise", ExcVal("AssertionError"))

    def exec_Raise(self, s: ast.Raise, st: State, ctx: Ctx) -> Out:
        if s.exc is None:
            cur = st.locals.get("$exc")
            if cur is None:
                raise Unsupported("bare raise outside handler", s)
            yield st, ("raise", cur)
            return
        for st1, v in self.eval(s.exc, st, ctx):
            if isinstance(v, Raised):
                yield st1, ("raise", v.exc)
            elif isinstance(v, ExcVal):
                yield st1, ("raise", v)
            elif isinstance(v, ExtVal) and v.name.startswith("builtins."):
                yield st1, ("raise", ExcVal(v.name.split(".")[-1]))
            elif isinstance(v, ClassVal):
                yield st1, ("raise", ExcVal(v.info.name))
            else:
                raise Unsupported(f"raise of {_kind(v)}", s)

    # ------------------------------------------------------------- assignment
    def exec_Assign(self, s: ast.Assign, st: State, ctx: Ctx) -> Out:
        for st1, v in self.eval(s.value, st, ctx):
            if isinstance(v, Raised):
                yield st1, ("raise", v.exc)
                continue

            def go(st: State, i: int) -> Out:
                if i == len(s.targets):
                    yield st, NORMAL
                    return
                for st2, out in self.assign(s.targets[i], v, st, ctx):
                    if out[0] == "normal":
                        yield from go(st2, i + 1)
                    else:
                        yield st2, out
            yield from go(st1, 0)

    def exec_AnnAssign(self, s: ast.AnnAssign, st: State, ctx: Ctx) -> Out:
        if s.value is None:
            yield st, NORMAL
            return
        for st1, v in self.eval(s.value, st, ctx):
            if isinstance(v, Raised):
                yield st1, ("raise", v.exc)
            else:
                yield from self.assign(s.target, v, st1, ctx)

    def exec_AugAssign(self, s: ast.AugAssign, st: State, ctx: Ctx) -> Out:
        load = _as_load(s.target)
        for st1, vs in self.evals([load, s.value], st, ctx):
            if isinstance(vs, Raised):
                yield st1, ("raise", vs.exc)
                continue
            for st2, r in self.binop(st1, s.op, vs[0], vs[1], s):
                if isinstance(r, Raised):
                    yield st2, ("raise", r.exc)
                else:
                    yield from self.assign(s.target, r, st2, ctx)

    def assign(self, target: ast.expr, v: Any, st: State, ctx: Ctx) -> Out:
        if isinstance(target, ast.Name):
            yield st.set_local(target.id, v), NORMAL
            return
        if isinstance(target, ast.Attribute):
            for st1, recv in self.eval(target.value, st, ctx):
                if isinstance(recv, Raised):
                    yield st1, ("raise", recv.exc)
                else:
                    yield from self.setattr(st1, recv, target.attr, v, target, ctx)
            return
        if isinstance(target, ast.Subscript):
            for st1, vs in self.evals([target.value, target.slice], st, ctx):
                if isinstance(vs, Raised):
                    yield st1, ("raise", vs.exc)
                else:
                    yield from self.setitem(st1, vs[0], vs[1], v, target, ctx)
            return
        if isinstance(target, (ast.Tuple, ast.List)):
            star = [i for i, t in enumerate(target.elts) if isinstance(t, ast.Starred)]
            for st1, items in self.iterate_all(st, v, target):
                if isinstance(items, Raised):
                    yield st1, ("raise", items.exc)
                    continue
                if star:
                    if len(target.elts) != 1:
                        # `a, *rest, z = seq`: fixed elements from both ends, the starred target takes what is between
                        i, n = star[0], len(target.elts)
                        front, back = list(items[:i]), list(items[len(items) - (n - i - 1):]) if n - i - 1 else []
                        if len(star) != 1 or any(isinstance(x, Seg) for x in front + back) or len(items) < n - 1:
                            if len(items) < n - 1 and not any(isinstance(x, Seg) for x in items):
                                yield st1, ("raise", ExcVal("ValueError"))
                                continue
                            raise Unsupported("starred unpacking around a segment of unknown length", target)
                        mid = items[i:len(items) - (n - i - 1)]
                        st2, r = self.alloc(st1, "list", None, items=tuple(mid))
                        vals = front + [r] + back

                        def go2(st: State, k: int) -> Out:
                            if k == n:
                                yield st, NORMAL
                                return
                            tk = target.elts[k].value if isinstance(target.elts[k], ast.Starred) else target.elts[k]  # type: ignore[attr-defined]
                            for st3, out in self.assign(tk, vals[k], st, ctx):
                                if out[0] == "normal":
                                    yield from go2(st3, k + 1)
                                else:
                                    yield st3, out
                        yield from go2(st2, 0)
                        continue
                    st2, r = self.alloc(st1, "list", None, items=tuple(items))
                    yield from self.assign(target.elts[0].value, r, st2, ctx)  # type: ignore[attr-defined]
                    continue
                if any(isinstance(x, Seg) for x in items):
                    raise Unsupported("unpacking a sequence of unknown length", target)
                if len(items) != len(target.elts):
                    yield st1, ("raise", ExcVal("ValueError"))
                    continue

                def go(st: State, i: int) -> Out:
                    if i == len(target.elts):
                        yield st, NORMAL
                        return
                    for st2, out in self.assign(target.elts[i], items[i], st, ctx):
                        if out[0] == "normal":
                            yield from go(st2, i + 1)
                        else:
                            yield st2, out
                yield from go(st1, 0)
            return
        raise Unsupported(f"assignment target {type(target).__name__}", target)

    def setattr(self, st: State, recv: Any, attr: str, v: Any, node: Any, ctx: Ctx) -> Out:
        if isinstance(recv, Opt):
            for st1, isn in self.branch(st, recv.isnone, f"L{getattr(node, 'lineno', 0)}none"):
                if isn:
                    yield st1, ("raise", ExcVal("AttributeError"))
                else:
                    yield from self.setattr(st1, recv.val, attr, v, node, ctx)
            return
        if isinstance(recv, Ref):
            o = st.obj(recv)
            if o.kind == "obj":
                cls = o.cls
                if isinstance(cls, ClassInfo) and cls.is_dataclass and cls.dataclass_kwargs.get("frozen") \
                        and not st.locals.get("$in_init_of") == recv:
                    yield st, ("raise", ExcVal("FrozenInstanceError"))
                    return
                if isinstance(v, Ref) and st.obj(v).kind == "pydict" and st.obj(v).get("keys") == () and isinstance(cls, ClassInfo):
                    # `self.f = {}` where the class's declared shape models f as a dict over a fixed key set: the empty
                    # dict in that representation (every key absent)
                    for k_ in cls.mro():
                        shp = self.reg.shapes.get(getattr(k_, "key", None))
                        if shp is not None and attr in shp.fields and shp.fields[attr].kind == "slotdict":
                            mdl = self.reg.models["slotdict"]
                            st, v = mdl.empty(self, st)
                            break
                yield st.heap_set(recv, attr, v), NORMAL
                return
            model = self.reg.models.get(o.kind)
            if model is not None and hasattr(model, "setattr"):
                yield from model.setattr(self, st, recv, attr, v, node, ctx)
                return
        raise Unsupported(f"attribute store on {_kind(recv)}", node)

    def setitem(self, st: State, c: Any, i: Any, v: Any, node: Any, ctx: Ctx) -> Out:
        if isinstance(c, Ref):
            o = st.obj(c)
            if o.kind == "list":
                items = o.get("items")
                if any(isinstance(x, Seg) for x in items):
                    raise Unsupported("store into list of unknown length", node)
                if isinstance(i, int) or (is_z3(i) and z3.is_int_value(z3.simplify(i))):
                    idx = i if isinstance(i, int) else z3.simplify(i).as_long()
                    if -len(items) <= idx < len(items):
                        new = list(items)
                        new[idx] = v
                        yield st.heap_set(c, "items", tuple(new)), NORMAL
                    else:
                        yield st, ("raise", ExcVal("IndexError"))
                    return
                raise Unsupported("symbolic index store into list", node)
            model = self.reg.models.get(o.kind)
            if model is not None and hasattr(model, "setitem"):
                yield from model.setitem(self, st, c, i, v, node, ctx)
                return
        raise Unsupported(f"subscript store on {_kind(c)}", node)

    # ------------------------------------------------------------ control flow
    def exec_If(self, s: ast.If, st: State, ctx: Ctx) -> Out:
        for st1, c in self.eval(s.test, st, ctx):
            if isinstance(c, Raised):
                yield st1, ("raise", c.exc)
                continue
            for st2, b in self.branch(st1, self.truth(st1, c, s), f"L{s.lineno}if"):
                yield from self.exec_block(s.body if b else s.orelse, st2, ctx)

    def exec_Try(self, s: ast.Try, st: State, ctx: Ctx) -> Out:
        if s.finalbody:
            raise Unsupported("try/finally", s)
        for st1, out in self.exec_block(s.body, st, ctx):
            if out[0] == "raise":
                exc: ExcVal = out[1]
                handled = False
                for h in s.handlers:
                    names = self.handler_names(h, ctx)
                    if any(exc_is_a(exc.cls, n) for n in names):
                        st2 = st1
                        if h.name:
                            st2 = st2.set_local(h.name, exc)
                        st2 = st2.set_local("$exc", exc)
                        for st3, o3 in self.exec_block(h.body, st2, ctx):
                            yield st3.del_local("$exc"), o3
                        handled = True
                        break
                if not handled:
                    yield st1, out
            elif out[0] == "normal" and s.orelse:
                yield from self.exec_block(s.orelse, st1, ctx)
            else:
                yield st1, out

    def handler_names(self, h: ast.ExceptHandler, ctx: Ctx) -> list[str]:
        if h.type is None:
            return ["BaseException"]
        ts = h.type.elts if isinstance(h.type, ast.Tuple) else [h.type]
        out = []
        for t in ts:
            if isinstance(t, ast.Name):
                out.append(t.id)
            elif isinstance(t, ast.Attribute):
                out.append(t.attr)
            else:
                raise Unsupported("exception handler type", h)
        return out

    def exec_With(self, s: ast.With, st: State, ctx: Ctx) -> Out:
        raise Unsupported("with statement", s)

    def exec_While(self, s: ast.While, st: State, ctx: Ctx) -> Out:
        yield from self.loop_cut(s, st, ctx)

    def exec_For(self, s: ast.For, st: State, ctx: Ctx) -> Out:
        from .loops import resolve_iterable
        for st0, it0 in self.eval(s.iter, st, ctx):
          if isinstance(it0, Raised):
              yield st0, ("raise", it0.exc)
              continue
          for st1, it in resolve_iterable(self, st0, it0, s, ctx):
            if isinstance(it, Raised):
                yield st1, ("raise", it.exc)
                continue
            items = self.concrete_items(st1, it)
            if items is not None:
                from .loops import loop_spec, summarised_for
                spec = loop_spec(self, s, ctx)
                if spec is not None and spec.summary is not None:
                    yield from summarised_for(self, s, items, st1, ctx, spec)
                else:
                    yield from self.unroll_for(s, items, 0, st1, ctx)
            else:
                yield from self.loop_cut(s, st1, ctx, it)

    def concrete_items(self, st: State, it: Any) -> list | None:
        if isinstance(it, Tup):
            return list(it.items)
        if isinstance(it, Ref):
            o = st.obj(it)
            if o.kind == "list" and not any(isinstance(x, Seg) for x in o.get("items")):
                return list(o.get("items"))
        return None

    def unroll_for(self, s: ast.For, items: list, i: int, st: State, ctx: Ctx) -> Out:
        if i == len(items):
            if s.orelse:
                yield from self.exec_block(s.orelse, st, ctx)
            else:
                yield st, NORMAL
            return
        for st1, out in self.assign(s.target, items[i], st, ctx):
            if out[0] != "normal":
                yield st1, out
                continue
            for st2, o2 in self.exec_block(s.body, st1, ctx):
                if o2[0] in ("normal", "continue"):
                    yield from self.unroll_for(s, items, i + 1, st2, ctx)
                elif o2[0] == "break":
                    yield st2, NORMAL
                else:
                    yield st2, o2

    def loop_cut(self, s: Any, st: State, ctx: Ctx, it: Any = None) -> Out:
        raise Unsupported("loop needing an invariant (loop support not loaded)", s)

    def exec_FunctionDef(self, s: ast.FunctionDef, st: State, ctx: Ctx) -> Out:
        raise Unsupported("nested function definition", s)

    def exec_Delete(self, s: ast.Delete, st: State, ctx: Ctx) -> Out:
        raise Unsupported("del", s)


def _as_load(t: ast.expr) -> ast.expr:
    import copy
    n = copy.copy(t)
    n.ctx = ast.Load()  # type: ignore[attr-defined]
    return n
