"""Helpers for contract clauses (shallow embedding: clauses build z3 terms from views)."""
from __future__ import annotations

from typing import Any, Callable

import z3

from . import values as V
from .values import And, Iff, Implies, Ite, Not, Opt, Or, Rec, to_z3  # noqa: F401  (re-exported)

_qid = [0]


def _fresh_bound(prefix: str, sort: z3.SortRef) -> z3.ExprRef:
    _qid[0] += 1
    return z3.Const(f"{prefix}%{_qid[0]}", sort)


def forall_str(body: Callable[[Any], Any]) -> Any:
    k = _fresh_bound("k", V.StrSort)
    b = body(k)
    if isinstance(b, bool):
        return b
    return z3.ForAll([k], b)


def forall_int(body: Callable[[Any], Any]) -> Any:
    i = _fresh_bound("i", V.IntSort)
    b = body(i)
    if isinstance(b, bool):
        return b
    return z3.ForAll([i], b)


def forall_str2(body: Callable[[Any, Any], Any]) -> Any:
    a = _fresh_bound("k", V.StrSort)
    b = _fresh_bound("k", V.StrSort)
    r = body(a, b)
    if isinstance(r, bool):
        return r
    return z3.ForAll([a, b], r)


def exists_int(body: Callable[[Any], Any]) -> Any:
    i = _fresh_bound("i", V.IntSort)
    return z3.Exists([i], body(i))


def sel(a: Any, i: Any) -> Any:
    return z3.Select(a, to_z3(i))


def store(a: Any, i: Any, v: Any) -> Any:
    return z3.Store(a, to_z3(i), to_z3(v))


# OrderedDict views -----------------------------------------------------------
def od_has(d: Any, k: Any) -> Any:
    return z3.Select(d.mem, to_z3(k))


def od_get(d: Any, k: Any) -> Any:
    return z3.Select(d.val, to_z3(k))


def od_len(d: Any) -> Any:
    return d.n


def od_rank(d: Any, k: Any) -> Any:
    return z3.Select(d.rank, to_z3(k))


def od_same_map(a: Any, b: Any) -> Any:
    """same keys, same values, same length (order may differ)"""
    return And(a.n == b.n, forall_str(lambda k: And(od_has(a, k) == od_has(b, k),
                                                  Implies(od_has(a, k), od_get(a, k) == od_get(b, k)))))


def od_unchanged(a: Any, b: Any) -> Any:
    return And(a.mem == b.mem, a.val == b.val, a.n == b.n, a.rank == b.rank, a.top == b.top, a.mark == b.mark, a.t == b.t)


def od_touched(d: Any, k: Any) -> Any:
    """key k is resident and was used since the ghost mark was set"""
    return And(od_has(d, k), od_rank(d, k) > d.mark)


def od_stable(o: Any, d: Any) -> Any:
    """every key touched in `o` is still touched in `d` under the same index"""
    return forall_str(lambda k: Implies(od_touched(o, k), And(od_touched(d, k), od_get(d, k) == od_get(o, k))))


# deque views -----------------------------------------------------------------
def dq_isnone(d: Any, i: Any) -> Any:
    return z3.Select(d.isnone, to_z3(i))


def dq_val(d: Any, i: Any) -> Any:
    return z3.Select(d.val, to_z3(i))


def dq_len(d: Any) -> Any:
    return d.len


def is_none(x: Any) -> Any:
    if x is None:
        return True
    if isinstance(x, Opt):
        return x.isnone
    return False


def opt_val(x: Any) -> Any:
    if isinstance(x, Opt):
        return x.val
    return x


def eq(a: Any, b: Any) -> Any:
    """Structural equality usable in clauses for Opt/Rec/py constants/z3 terms."""
    if isinstance(a, Opt) or isinstance(b, Opt):
        an, bn = is_none(a), is_none(b)
        return Or(And(an, bn), And(Not(an), Not(bn), eq(opt_val(a), opt_val(b))))
    if a is None or b is None:
        return a is None and b is None
    if isinstance(a, Rec) and isinstance(b, Rec):
        return And(*[eq(a.get(k), b.get(k)) for k, _ in a.fields])
    if isinstance(a, V.Tup) and isinstance(b, V.Tup):
        if len(a.items) != len(b.items):
            return False
        return And(*[eq(x, y) for x, y in zip(a.items, b.items)])
    if isinstance(a, V.ADT) and isinstance(b, V.ADT):
        return a.expr == b.expr
    if isinstance(a, (bool, int, str)) and isinstance(b, (bool, int, str)):
        return a == b
    return to_z3(a) == to_z3(b)


def rec_ite(c: Any, a: Rec, b: Rec) -> Rec:
    if c is True:
        return a
    if c is False:
        return b
    return Rec(a.name, tuple((k, z3.If(c, to_z3(a.get(k)), to_z3(b.get(k)))) for k, _ in a.fields))


# protobuf message views ---------------------------------------------------------
def which_is(m: Any, member: str) -> Any:
    """Is oneof member / message field `member` of message view `m` present? (python bool or z3 Bool)"""
    pm = m._env.eng.protomodel
    o = m._obj()
    f = pm.fdesc(o.cls, member)
    if f is None:
        raise AttributeError(f"{o.cls} has no field {member}")
    if f["oneof"]:
        w = o.get("$which:" + f["oneof"])
        if w is None or isinstance(w, str):
            return w == member
        return w == pm.oneofs(o.cls)[f["oneof"]].index(member) + 1
    return o.get("$has:" + member)


def which_unset(m: Any, oneof: str) -> Any:
    o = m._obj()
    w = o.get("$which:" + oneof)
    if w is None or isinstance(w, str):
        return w is None
    return w == 0


def msg_field(m: Any, name: str) -> Any:
    """value of a (possibly oneof) scalar field as stored (meaningful only when present)"""
    return getattr(m, name)


def msg_written(m: Any) -> Any:
    """ghost: some field of this message object was written (so it is present in its parent)"""
    return getattr(m, "$written")


def which_tag(m: Any, oneof: str) -> Any:
    """oneof state as an integer: 0 = unset, i = 1-based index of the member that is set (for both concrete and
    symbolic messages)"""
    pm = m._env.eng.protomodel
    o = m._obj()
    w = o.get("$which:" + oneof)
    if w is None:
        return z3.IntVal(0)
    if isinstance(w, str):
        return z3.IntVal(pm.oneofs(o.cls)[oneof].index(w) + 1)
    return w
