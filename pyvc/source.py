"""
Loading of the real pyjelly source: every run re-reads the working tree with
``ast.parse``.  Nothing of pyjelly is imported here.

A ``Tree`` holds one ``Module`` per ``pyjelly/**.py`` file; a ``Module`` knows its
top-level bindings (imports, constants, functions, classes, dict/set displays) as
AST nodes; a ``ClassInfo`` knows its bases, methods, class-level assignments and
dataclass fields.  Name resolution across modules follows ``from X import Y`` /
``import X`` chains statically.
"""
from __future__ import annotations

import ast
import hashlib
import os
from dataclasses import dataclass, field
from typing import Any


class SourceError(Exception):
    pass


@dataclass
class FuncInfo:
    module: "Module"
    qualname: str            # "f" or "Class.f"
    node: ast.FunctionDef
    cls: "ClassInfo | None" = None
    decorators: list[str] = field(default_factory=list)

    @property
    def key(self) -> str:
        return f"{self.module.name}:{self.qualname}"

    @property
    def is_generator(self) -> bool:
        for n in ast.walk(self.node):
            if isinstance(n, (ast.Yield, ast.YieldFrom)):
                # nested defs/lambdas do not count
                return _owns(self.node, n)
        return False

    @property
    def is_property(self) -> bool:
        return "property" in self.decorators

    @property
    def is_classmethod(self) -> bool:
        return "classmethod" in self.decorators

    @property
    def is_staticmethod(self) -> bool:
        return "staticmethod" in self.decorators

    def source_segment(self) -> str:
        return ast.get_source_segment(self.module.text, self.node) or ""

    def sha256(self) -> str:
        # hash of the AST dump without docstring: insensitive to comments/formatting
        node = strip_docstring(self.node)
        return hashlib.sha256(ast.dump(node, include_attributes=False).encode()).hexdigest()[:16]


def _owns(fn: ast.AST, target: ast.AST) -> bool:
    """True if `target` is inside fn but not inside a nested function/lambda."""
    def walk(n: ast.AST) -> bool:
        for c in ast.iter_child_nodes(n):
            if c is target:
                return True
            if isinstance(c, (ast.FunctionDef, ast.AsyncFunctionDef, ast.Lambda)):
                continue
            if walk(c):
                return True
        return False
    return walk(fn)


def strip_docstring(node: ast.FunctionDef) -> ast.FunctionDef:
    body = node.body
    if body and isinstance(body[0], ast.Expr) and isinstance(body[0].value, ast.Constant) \
            and isinstance(body[0].value.value, str):
        new = ast.FunctionDef(**{f: getattr(node, f) for f in node._fields})
        new.body = body[1:] or [ast.Pass()]
        return new
    return node


@dataclass
class ClassInfo:
    module: "Module"
    name: str
    node: ast.ClassDef
    base_exprs: list[ast.expr]
    methods: dict[str, FuncInfo] = field(default_factory=dict)
    class_attrs: dict[str, ast.expr] = field(default_factory=dict)   # name -> value expr
    annotations: dict[str, ast.expr] = field(default_factory=dict)   # name -> annotation
    field_order: list[str] = field(default_factory=list)             # annotated names in order
    decorators: list[str] = field(default_factory=list)
    dataclass_kwargs: dict[str, Any] = field(default_factory=dict)
    bases: list[Any] = field(default_factory=list)                   # resolved: ClassInfo | str (external)

    @property
    def key(self) -> str:
        return f"{self.module.name}:{self.name}"

    @property
    def is_dataclass(self) -> bool:
        return "dataclass" in self.decorators

    @property
    def is_namedtuple(self) -> bool:
        return any(b == "NamedTuple" for b in self.bases if isinstance(b, str))

    def mro(self) -> list["ClassInfo | str"]:
        # single inheritance everywhere in pyjelly (plus external bases); simple DFS
        out: list[ClassInfo | str] = [self]
        for b in self.bases:
            if isinstance(b, ClassInfo):
                for x in b.mro():
                    if x not in out:
                        out.append(x)
            else:
                if b not in out:
                    out.append(b)
        return out

    def find_method(self, name: str) -> FuncInfo | None:
        for c in self.mro():
            if isinstance(c, ClassInfo) and name in c.methods:
                return c.methods[name]
        return None

    def find_class_attr(self, name: str) -> "tuple[ClassInfo, ast.expr] | None":
        for c in self.mro():
            if isinstance(c, ClassInfo) and name in c.class_attrs:
                return c, c.class_attrs[name]
        return None

    def is_subclass_of(self, other: "ClassInfo | str") -> bool:
        return other in self.mro()

    def external_bases(self) -> list[str]:
        return [c for c in self.mro() if isinstance(c, str)]


def _dec_name(d: ast.expr) -> tuple[str, dict[str, Any]]:
    kwargs: dict[str, Any] = {}
    if isinstance(d, ast.Call):
        for kw in d.keywords:
            if isinstance(kw.value, ast.Constant):
                kwargs[kw.arg or ""] = kw.value.value
        d = d.func
    if isinstance(d, ast.Attribute):
        # e.g. stream_frames.register / abc.abstractmethod
        base = d.value.id if isinstance(d.value, ast.Name) else "?"
        return f"{base}.{d.attr}" if d.attr == "register" else d.attr, kwargs
    if isinstance(d, ast.Name):
        return d.id, kwargs
    return "?", kwargs


@dataclass
class Module:
    tree: "Tree"
    name: str
    path: str
    text: str
    node: ast.Module
    bindings: dict[str, Any] = field(default_factory=dict)  # name -> ('import', mod, attr|None) | FuncInfo | ClassInfo | ('const', expr)
    registrations: dict[str, list[tuple[ast.expr, FuncInfo]]] = field(default_factory=dict)  # singledispatch name -> [(class expr, impl)]

    def load(self) -> None:
        for st in self.node.body:
            self._bind_stmt(st)

    def _bind_stmt(self, st: ast.stmt) -> None:
        if isinstance(st, ast.ImportFrom):
            mod = st.module or ""
            if st.level:
                raise SourceError(f"relative import in {self.name}")
            for a in st.names:
                if a.name == "*":
                    self.bindings.setdefault("*", []).append(mod)
                else:
                    self.bindings[a.asname or a.name] = ("import", mod, a.name)
        elif isinstance(st, ast.Import):
            for a in st.names:
                if a.asname:
                    self.bindings[a.asname] = ("import", a.name, None)
                else:
                    top = a.name.split(".")[0]
                    self.bindings[top] = ("import", top, None)
        elif isinstance(st, ast.FunctionDef):
            decs = [_dec_name(d)[0] for d in st.decorator_list]
            fi = FuncInfo(self, st.name, st, None, decs)
            registered = False
            for d in st.decorator_list:
                nm, _ = _dec_name(d)
                if nm.endswith(".register") and isinstance(d, ast.Call):
                    base = nm.split(".")[0]
                    self.registrations.setdefault(base, []).append((d.args[0], fi))
                    registered = True
            self.bindings[st.name] = fi
            if registered:
                pass
        elif isinstance(st, ast.ClassDef):
            self.bindings[st.name] = self._load_class(st)
        elif isinstance(st, ast.Assign):
            for t in st.targets:
                if isinstance(t, ast.Name):
                    self.bindings[t.id] = ("const", st.value)
        elif isinstance(st, ast.AnnAssign):
            if isinstance(st.target, ast.Name) and st.value is not None:
                self.bindings[st.target.id] = ("const", st.value)
        elif isinstance(st, ast.If):
            # `if TYPE_CHECKING:` imports are type-only; `if options.INTEGRATION_SIDE_EFFECTS:` side effects
            pass
        elif isinstance(st, ast.Expr):
            pass
        else:
            pass

    def _load_class(self, st: ast.ClassDef) -> ClassInfo:
        decs = []
        dkw: dict[str, Any] = {}
        for d in st.decorator_list:
            nm, kw = _dec_name(d)
            decs.append(nm)
            if nm == "dataclass":
                dkw = kw
        ci = ClassInfo(self, st.name, st, list(st.bases), decorators=decs, dataclass_kwargs=dkw)
        for b in st.body:
            if isinstance(b, ast.FunctionDef):
                fdecs = [_dec_name(d)[0] for d in b.decorator_list]
                ci.methods[b.name] = FuncInfo(self, f"{st.name}.{b.name}", b, ci, fdecs)
            elif isinstance(b, ast.Assign):
                for t in b.targets:
                    if isinstance(t, ast.Name):
                        ci.class_attrs[t.id] = b.value
            elif isinstance(b, ast.AnnAssign) and isinstance(b.target, ast.Name):
                ci.annotations[b.target.id] = b.annotation
                ann = ast.unparse(b.annotation)
                if not ann.startswith("ClassVar"):
                    ci.field_order.append(b.target.id)
                if b.value is not None:
                    ci.class_attrs[b.target.id] = b.value
        return ci


class Tree:
    """All pyjelly modules of one working tree."""

    def __init__(self, root: str) -> None:
        self.root = os.path.abspath(root)
        self.modules: dict[str, Module] = {}
        pkg = os.path.join(self.root, "pyjelly")
        for dirpath, _dirs, files in os.walk(pkg):
            for fn in sorted(files):
                if not fn.endswith(".py"):
                    continue
                path = os.path.join(dirpath, fn)
                rel = os.path.relpath(path, self.root)[:-3].replace(os.sep, ".")
                if rel.endswith(".__init__"):
                    rel = rel[: -len(".__init__")]
                if rel.endswith("_pb2"):
                    continue
                with open(path, encoding="utf-8") as f:
                    text = f.read()
                try:
                    node = ast.parse(text, filename=path)
                except SyntaxError as e:  # the tree does not compile: not our business to judge
                    raise SourceError(f"syntax error in {path}: {e}") from e
                m = Module(self, rel, path, text, node)
                self.modules[rel] = m
        for m in self.modules.values():
            m.load()
        for m in self.modules.values():
            for b in m.bindings.values():
                if isinstance(b, ClassInfo):
                    b.bases = [self._resolve_base(m, e) for e in b.base_exprs]

    def _resolve_base(self, m: Module, e: ast.expr) -> Any:
        if isinstance(e, ast.Subscript):  # UserList[...], tuple[...]
            e = e.value
        if isinstance(e, ast.Name):
            r = self.resolve(m, e.id)
            if isinstance(r, ClassInfo):
                return r
            if isinstance(r, tuple) and r[0] == "external":
                return r[1].split(".")[-1]
            return e.id
        if isinstance(e, ast.Attribute):
            return e.attr
        return ast.unparse(e)

    def module(self, name: str) -> Module:
        if name not in self.modules:
            raise SourceError(f"module {name} not found in tree")
        return self.modules[name]

    def resolve(self, m: Module, name: str, _depth: int = 0) -> Any:
        """Resolve a global name of module m to FuncInfo | ClassInfo | ('const', expr, module) |
        ('module', name) | ('external', dotted) | None."""
        if _depth > 10:
            raise SourceError("import cycle")
        b = m.bindings.get(name)
        if b is None:
            for star in m.bindings.get("*", []):
                if star in self.modules:
                    r = self.resolve(self.modules[star], name, _depth + 1)
                    if r is not None:
                        return r
                elif star == "pyjelly.jelly.rdf_pb2":
                    return ("external", f"jelly.{name}")
            return None
        if isinstance(b, (FuncInfo, ClassInfo)):
            return b
        if b[0] == "const":
            return ("const", b[1], m)
        if b[0] == "import":
            _, mod, attr = b
            if attr is None:
                if mod in self.modules:
                    return ("module", mod)
                return ("external", mod)
            # from mod import attr
            if mod == "pyjelly" and attr == "jelly":
                return ("external", "jelly")
            full = f"{mod}.{attr}"
            if full in self.modules:
                return ("module", full)
            if mod in self.modules:
                r = self.resolve(self.modules[mod], attr, _depth + 1)
                if r is None:
                    raise SourceError(f"{mod}.{attr} not found (imported by {m.name})")
                return r
            if mod.startswith("pyjelly.jelly") or mod == "jelly":
                return ("external", f"jelly.{attr}")
            return ("external", full)
        raise SourceError(f"unknown binding for {name}: {b!r}")

    def get_func(self, key: str) -> FuncInfo:
        modname, qual = key.split(":")
        m = self.module(modname)
        parts = qual.split(".")
        if len(parts) == 1:
            f = m.bindings.get(parts[0])
            if not isinstance(f, FuncInfo):
                raise SourceError(f"function {key} not found")
            return f
        c = m.bindings.get(parts[0])
        if not isinstance(c, ClassInfo) or parts[1] not in c.methods:
            raise SourceError(f"method {key} not found")
        return c.methods[parts[1]]

    def get_class(self, key: str) -> ClassInfo:
        modname, name = key.split(":")
        c = self.module(modname).bindings.get(name)
        if not isinstance(c, ClassInfo):
            raise SourceError(f"class {key} not found")
        return c

    def all_classes(self) -> list[ClassInfo]:
        out = []
        for m in self.modules.values():
            for b in m.bindings.values():
                if isinstance(b, ClassInfo) and b.module is m:
                    out.append(b)
        return out

    def subclasses(self, base: ClassInfo) -> list[ClassInfo]:
        return [c for c in self.all_classes() if c.is_subclass_of(base)]

    def all_funcs(self) -> list[FuncInfo]:
        out = []
        for m in self.modules.values():
            for b in m.bindings.values():
                if isinstance(b, FuncInfo) and b.module is m:
                    out.append(b)
                elif isinstance(b, ClassInfo) and b.module is m:
                    out.extend(b.methods.values())
        return out
