"""Contracts for pyjelly/serialize/lookup.py and pyjelly/parse/lookup.py (properties C05, C03, C04, C16, C19, C13, C17)."""
from __future__ import annotations

from typing import Any

import z3

from pyvc.contract import (ARR, BOOL, DEQUE, INT, NAT, NEWOBJ, OBJ, OD, OPT, REC, STR, contract, lemma, shape)
from pyvc.spec import (And, Iff, Implies, Ite, Not, Or, dq_isnone, dq_len, dq_val, forall_int, forall_str, is_none,
                       od_get, od_has, od_len, od_rank, od_same_map, od_stable, od_touched, od_unchanged, opt_val,
                       rec_ite, sel, store)

from .spec_tables import (empty_table, rec_same, spec_assign, spec_datatype_ref, spec_name_ref, spec_prefix_ref,
                          table_eq, table_wf)

SL = "pyjelly.serialize.lookup"
PL = "pyjelly.parse.lookup"
LOOKUP = f"{SL}:Lookup"
ENC = f"{SL}:LookupEncoder"
DEC = f"{PL}:LookupDecoder"

def _rebuild_key_at(L: Any) -> None:
    """replay only: key_at is determined by the real map whenever the map is injective (it is its inverse)."""
    d = L.data
    ka = L.key_at if L.has_field("key_at") else z3.K(z3.IntSort(), z3.StringVal(""))
    # concrete maps are Store chains; walk them
    m = d.val
    pairs = []
    while z3.is_app(m) and m.decl().kind() == z3.Z3_OP_STORE:
        pairs.append((m.arg(1), m.arg(2)))
        m = m.arg(0)
    for k, v in reversed(pairs):
        ka = z3.Store(ka, v, k)
    L.key_at = ka


shape(LOOKUP, fields=dict(data=OD, max_size=INT, _evicting=BOOL), ghost=dict(key_at=ARR(INT, STR)),
      rebuild=_rebuild_key_at)
shape(ENC, fields=dict(lookup=OBJ(LOOKUP), last_assigned_index=INT, last_reused_index=INT),
      ghost=dict(T=REC("SpecTable")))
shape(DEC, fields=dict(lookup_size=INT, data=DEQUE, last_assigned_index=INT, last_reused_index=INT),
      ghost=dict(T=REC("SpecTable")))


# ------------------------------------------------------------------ invariants
def wf_lookup(L: Any) -> Any:
    """Representation invariant of Lookup: indices of resident keys are exactly 1..n, bijectively (key_at is the
    ghost inverse map); n never exceeds max_size ("live entries never exceed the declared size")."""
    d = L.data
    n = od_len(d)
    return And(
        L.max_size >= 0, n >= 0, n <= L.max_size,
        L._evicting == And(n == L.max_size, L.max_size > 0),
        forall_str(lambda k: Implies(od_has(d, k), And(1 <= od_get(d, k), od_get(d, k) <= n,
                                                      sel(L.key_at, od_get(d, k)) == k))),
        forall_int(lambda i: Implies(And(1 <= i, i <= n), And(od_has(d, sel(L.key_at, i)),
                                                             od_get(d, sel(L.key_at, i)) == i))),
    )


def wf_enc(E: Any) -> Any:
    n = od_len(E.lookup.data)
    return And(wf_lookup(E.lookup), 0 <= E.last_assigned_index, E.last_assigned_index <= n,
               0 <= E.last_reused_index, E.last_reused_index <= n)


def R_enc(E: Any) -> Any:
    """Coupling of the encoder with its ghost spec table: every resident key is what a conformant reader has stored
    under that key's index."""
    d = E.lookup.data
    T = E.T
    return And(T.size == E.lookup.max_size, T.la == E.last_assigned_index, T.lr == E.last_reused_index,
               forall_str(lambda k: Implies(od_has(d, k), And(sel(T.dfn, od_get(d, k)), sel(T.tbl, od_get(d, k)) == k))))


def R_dec(D: Any) -> Any:
    """The reader's array *is* the spec table (abstraction relation)."""
    T = D.T
    q = D.data
    return And(D.lookup_size >= 0, T.size == D.lookup_size, dq_len(q) == D.lookup_size,
               T.la == D.last_assigned_index, T.lr == D.last_reused_index,
               0 <= T.la, 0 <= T.lr,
               forall_int(lambda i: Implies(And(1 <= i, i <= T.size),
                                            And(sel(T.dfn, i) == Not(dq_isnone(q, i - 1)),
                                                Implies(sel(T.dfn, i), sel(T.tbl, i) == dq_val(q, i - 1))))))


# ----------------------------------------------------------------------- Lookup
@contract(f"{SL}:Lookup.__init__", serves=["C05", "C12"])
class _Lookup_init:
    params = {"self": NEWOBJ(LOOKUP), "max_size": INT}
    modifies = ["self"]

    def requires(e): return e.max_size >= 0

    def ghost_exit(e): e.self.key_at = z3.K(z3.IntSort(), z3.StringVal(""))

    def ensures(e):
        return {"wf": wf_lookup(e.self), "empty": od_len(e.self.data) == 0,
                "no-members": forall_str(lambda k: Not(od_has(e.self.data, k))),
                "size": e.self.max_size == e.max_size}


@contract(f"{SL}:Lookup.make_last_to_evict", serves=["C05", "C19", "C01", "C18"])
class _Lookup_mlte:
    params = {"self": OBJ(LOOKUP), "key": STR}
    modifies = ["self.data"]

    def raises(e): return {"KeyError": Not(od_has(e.self.data, e.key))}

    def ensures(e):
        d, o = e.self.data, e.old.self.data
        return {"map-unchanged": And(d.mem == o.mem, d.val == o.val, d.n == o.n),
                "key-most-recent": And(d.rank == store(o.rank, e.key, o.top + 1), d.top == o.top + 1),
                "lru-ghost": And(d.mark == o.mark, d.t == o.t + z3.If(od_rank(o, e.key) <= o.mark, 1, 0))}


@contract(f"{SL}:Lookup.insert", serves=["C05", "C03", "C01", "C18"])
class _Lookup_insert:
    params = {"self": OBJ(LOOKUP), "key": STR}
    result = INT
    modifies = ["self.data", "self._evicting", "self.key_at"]

    def requires(e): return And(wf_lookup(e.self), Not(od_has(e.self.data, e.key)))

    def raises(e): return {"IndexError": e.self.max_size == 0}

    def ghost_exit(e): e.self.key_at = store(e.old.self.key_at, e.result, e.key)

    def ensures(e):
        L, O = e.self, e.old.self
        d, o = L.data, O.data
        r = e.result
        victim = sel(O.key_at, r)
        return {
            "wf": wf_lookup(L),
            "key-resident-at-result": And(od_has(d, e.key), od_get(d, e.key) == r),
            "index-in-range": And(1 <= r, r <= L.max_size),
            "fill": Implies(Not(O._evicting), And(
                r == od_len(o) + 1, od_len(d) == od_len(o) + 1,
                forall_str(lambda k: Implies(od_has(o, k), And(od_has(d, k), od_get(d, k) == od_get(o, k)))),
                forall_str(lambda k: Implies(od_has(d, k), Or(od_has(o, k), k == e.key))))),
            # LRU stability (C01/C18): while fewer than max_size keys were used since the ghost mark, a used key is never
            # the eviction victim, so it keeps its index
            "used-keys-survive": Implies(o.t < L.max_size, od_stable(o, d)),
            "lru-ghost": And(d.mark == o.mark, d.t <= o.t + 1, od_touched(d, e.key),
                             forall_str(lambda k: Implies(And(od_has(d, k), k != e.key), od_rank(d, k) == od_rank(o, k)))),
            "evict-reuses-index": Implies(O._evicting, And(
                od_len(d) == od_len(o), od_has(o, victim), Not(od_has(d, victim)), od_get(o, victim) == r,
                forall_str(lambda k: Implies(And(od_has(o, k), k != victim), And(od_has(d, k), od_get(d, k) == od_get(o, k)))),
                forall_str(lambda k: Implies(od_has(d, k), Or(And(od_has(o, k), k != victim), k == e.key))))),
        }


# ---------------------------------------------------------------- LookupEncoder
@contract(f"{SL}:LookupEncoder.__init__", serves=["C05", "C12"])
class _Enc_init:
    params = {"self": NEWOBJ(ENC), "lookup_size": INT}
    modifies = ["self"]

    def requires(e): return e.lookup_size >= 0

    def ghost_exit(e): e.self.T = empty_table(e.lookup_size)

    def ensures(e):
        return {"wf": wf_enc(e.self), "coupled-with-empty-spec-table": R_enc(e.self),
                "size": e.self.lookup.max_size == e.lookup_size,
                "empty": od_len(e.self.lookup.data) == 0,
                "bases-zero": And(e.self.last_assigned_index == 0, e.self.last_reused_index == 0)}


def _enc_pre(e: Any) -> Any:
    return And(wf_enc(e.self), R_enc(e.self))


@contract(f"{SL}:LookupEncoder.encode_entry_index", serves=["C05", "C03", "C19", "C01", "C18"])
class _Enc_entry:
    params = {"self": OBJ(ENC), "key": STR}
    result = OPT(INT)
    modifies = ["self.lookup.data", "self.lookup._evicting", "self.lookup.key_at", "self.last_assigned_index", "self.T"]
    # the two `iff` clauses are the compression contract (C19); what C05/C03/C01 need from them (no id that a
    # conformant reader would resolve differently) is carried by id-valid-for-spec + coupled
    tags = {"none-iff-resident": ["C19"], "zero-iff-sequential": ["C19"]}

    def requires(e): return _enc_pre(e)

    def raises(e): return {"IndexError": And(Not(od_has(e.self.lookup.data, e.key)), e.self.lookup.max_size == 0)}

    def ghost_exit(e):
        _, T2 = spec_assign(e.old.self.T, opt_val(e.result), e.key)
        e.self.T = rec_ite(is_none(e.result), e.old.self.T, T2)

    def ensures(e):
        E, O = e.self, e.old.self
        d, o = E.lookup.data, O.lookup.data
        isn, r = is_none(e.result), opt_val(e.result)
        valid, _ = spec_assign(O.T, r, e.key)
        return {
            "none-iff-resident": Iff(isn, od_has(o, e.key)),
            "hit-leaves-map": Implies(isn, And(d.mem == o.mem, d.val == o.val, d.n == o.n,
                                               E.last_assigned_index == O.last_assigned_index)),
            "id-in-range": Implies(Not(isn), And(0 <= r, r <= E.lookup.max_size)),
            "id-valid-for-spec": Implies(Not(isn), valid),
            "zero-iff-sequential": Implies(Not(isn), Iff(r == 0, od_get(d, e.key) == O.last_assigned_index + 1)),
            "explicit-id-is-index": Implies(And(Not(isn), r != 0), r == od_get(d, e.key)),
            "last-assigned": Implies(Not(isn), E.last_assigned_index == od_get(d, e.key)),
            "key-resident": od_has(d, e.key),
            "used-keys-survive": Implies(o.t < E.lookup.max_size, od_stable(o, d)),
            "lru-ghost": And(d.mark == o.mark, od_touched(d, e.key), d.t <= o.t + z3.If(od_touched(o, e.key), 0, 1)),
            "live-entries-bounded": od_len(d) <= E.lookup.max_size,
            "wf": wf_enc(E),
            "coupled": R_enc(E),
        }


@contract(f"{SL}:LookupEncoder.encode_term_index", serves=["C05", "C03"])
class _Enc_term:
    params = {"self": OBJ(ENC), "value": STR}
    result = INT
    modifies = ["self.lookup.data", "self.last_reused_index", "self.T"]

    def requires(e): return _enc_pre(e)

    def raises(e): return {"KeyError": Not(od_has(e.self.lookup.data, e.value))}

    def ghost_exit(e): e.self.T = e.old.self.T.replace(lr=e.result)

    def ensures(e):
        E, O = e.self, e.old.self
        d, o = E.lookup.data, O.lookup.data
        return {"result-is-index": e.result == od_get(o, e.value),
                "last-reused": E.last_reused_index == e.result,
                "map-unchanged": And(d.mem == o.mem, d.val == o.val, d.n == o.n),
                "lru-ghost": And(d.mark == o.mark, od_touched(d, e.value), od_stable(o, d),
                                 d.t == o.t + z3.If(od_touched(o, e.value), 0, 1)),
                "wf": wf_enc(E), "coupled": R_enc(E)}


@contract(f"{SL}:LookupEncoder.encode_name_term_index", serves=["C05", "C03", "C19"])
class _Enc_name:
    params = {"self": OBJ(ENC), "value": STR}
    result = INT
    modifies = ["self.lookup.data", "self.last_reused_index", "self.T"]
    tags = {"zero-iff-next": ["C19"]}

    def requires(e): return And(_enc_pre(e), od_has(e.self.lookup.data, e.value))

    def ghost_exit(e):
        _, T2, _v = spec_name_ref(e.old.self.T, e.result)
        e.self.T = T2

    def ensures(e):
        E, O = e.self, e.old.self
        d, o = E.lookup.data, O.lookup.data
        valid, _, val = spec_name_ref(O.T, e.result)
        return {"zero-iff-next": Iff(e.result == 0, od_get(o, e.value) == O.last_reused_index + 1),
                "explicit-id-is-index": Implies(e.result != 0, e.result == od_get(o, e.value)),
                "id-in-range": And(0 <= e.result, e.result <= E.lookup.max_size),
                "reference-valid-for-spec": valid,
                "reference-means-value": val == e.value,
                "map-unchanged": And(d.mem == o.mem, d.val == o.val, d.n == o.n),
                "lru-ghost": And(d.mark == o.mark, od_touched(d, e.value), od_stable(o, d),
                                 d.t == o.t + z3.If(od_touched(o, e.value), 0, 1)),
                "last-reused-is-index": E.last_reused_index == od_get(o, e.value),
                "wf": wf_enc(E), "coupled": R_enc(E)}


@contract(f"{SL}:LookupEncoder.encode_prefix_term_index", serves=["C05", "C03", "C19"])
class _Enc_prefix:
    params = {"self": OBJ(ENC), "value": STR}
    result = INT
    modifies = ["self.lookup.data", "self.last_reused_index", "self.T"]
    tags = {"zero-iff-same-or-empty": ["C19"]}

    def requires(e):
        E = e.self
        return And(_enc_pre(e), Or(E.lookup.max_size == 0, od_has(E.lookup.data, e.value),
                                   And(e.value == "", E.last_reused_index == 0)))

    def ghost_exit(e):
        _, T2, _v = spec_prefix_ref(e.old.self.T, e.result)
        e.self.T = rec_ite(e.self.lookup.max_size == 0, e.old.self.T, T2)

    def ensures(e):
        E, O = e.self, e.old.self
        d, o = E.lookup.data, O.lookup.data
        valid, _, val = spec_prefix_ref(O.T, e.result)
        lri = O.last_reused_index
        enabled = E.lookup.max_size > 0
        return {"zero-iff-same-or-empty": Iff(e.result == 0, Or(Not(enabled), And(e.value == "", lri == 0),
                                                                And(lri != 0, od_get(o, e.value) == lri))),
                "explicit-id-is-index": Implies(e.result != 0, e.result == od_get(o, e.value)),
                "id-in-range": And(0 <= e.result, e.result <= E.lookup.max_size),
                "reference-valid-for-spec": Implies(enabled, valid),
                "reference-means-value": Implies(enabled, val == e.value),
                "disabled-table-untouched": Implies(Not(enabled), And(E.last_reused_index == lri, od_unchanged(d, o))),
                "map-unchanged": And(d.mem == o.mem, d.val == o.val, d.n == o.n),
                "lru-ghost": And(d.mark == o.mark, od_stable(o, d), d.t <= o.t + z3.If(od_touched(o, e.value), 0, 1),
                                 Implies(And(enabled, Not(And(e.value == "", lri == 0))),
                                         And(od_touched(d, e.value), E.last_reused_index == od_get(o, e.value))),
                                 Implies(And(enabled, e.value == "", lri == 0), And(E.last_reused_index == 0, od_unchanged(d, o)))),
                "wf": wf_enc(E), "coupled": R_enc(E)}


@contract(f"{SL}:LookupEncoder.encode_datatype_term_index", serves=["C05", "C03"])
class _Enc_dt:
    params = {"self": OBJ(ENC), "value": STR}
    result = INT
    modifies = ["self.lookup.data", "self.last_reused_index", "self.T"]

    def requires(e):
        E = e.self
        return And(_enc_pre(e), Or(E.lookup.max_size == 0, od_has(E.lookup.data, e.value)))

    def ghost_exit(e):
        _, T2, _v = spec_datatype_ref(e.old.self.T, e.result)
        e.self.T = rec_ite(e.self.lookup.max_size == 0, e.old.self.T, T2)

    def ensures(e):
        E, O = e.self, e.old.self
        d, o = E.lookup.data, O.lookup.data
        valid, _, val = spec_datatype_ref(O.T, e.result)
        enabled = E.lookup.max_size > 0
        return {"disabled-gives-zero": Implies(Not(enabled), And(e.result == 0, od_unchanged(d, o),
                                                                  E.last_reused_index == O.last_reused_index)),
                "id-is-index": Implies(enabled, And(e.result == od_get(o, e.value), e.result >= 1)),
                "id-in-range": And(0 <= e.result, e.result <= E.lookup.max_size),
                "reference-valid-for-spec": Implies(enabled, valid),
                "reference-means-value": Implies(enabled, val == e.value),
                "map-unchanged": And(d.mem == o.mem, d.val == o.val, d.n == o.n),
                "lru-ghost": And(d.mark == o.mark, od_stable(o, d), d.t <= o.t + z3.If(od_touched(o, e.value), 0, 1),
                                 Implies(enabled, od_touched(d, e.value))),
                "wf": wf_enc(E), "coupled": R_enc(E)}


# ---------------------------------------------------------------- LookupDecoder
@contract(f"{PL}:LookupDecoder.__init__", serves=["C05", "C13", "C17", "C04"])
class _Dec_init:
    params = {"self": NEWOBJ(DEC), "lookup_size": NAT}
    modifies = ["self"]
    tags = {"size-capped": ["C13", "C17"]}

    def raises(e): return {"JellyAssertionError": e.lookup_size > 4096}

    def ghost_exit(e): e.self.T = empty_table(e.lookup_size)

    def ensures(e):
        D = e.self
        return {"size-capped": D.lookup_size <= 4096,
                "size": And(D.lookup_size == e.lookup_size, dq_len(D.data) == e.lookup_size),
                "all-empty": forall_int(lambda i: dq_isnone(D.data, i)),
                "bases-zero": And(D.last_assigned_index == 0, D.last_reused_index == 0),
                "is-empty-spec-table": R_dec(D)}


@contract(f"{PL}:LookupDecoder.assign_entry", serves=["C05", "C04", "C16"])
class _Dec_assign:
    params = {"self": OBJ(DEC), "index": NAT, "value": STR}
    modifies = ["self.data", "self.last_assigned_index", "self.T"]

    def requires(e): return R_dec(e.self)

    def raises(e):
        valid, _ = spec_assign(e.self.T, e.index, e.value)
        return {("AssertionError", "IndexError"): Not(valid)}

    def ghost_exit(e):
        _, T2 = spec_assign(e.old.self.T, e.index, e.value)
        e.self.T = T2

    def ensures(e): return {"is-spec-assign": R_dec(e.self)}


@contract(f"{PL}:LookupDecoder.at", serves=["C05", "C04", "C16"])
class _Dec_at:
    params = {"self": OBJ(DEC), "index": INT}
    result = STR
    modifies = ["self.last_reused_index", "self.T"]

    def requires(e): return And(R_dec(e.self), e.index >= 1)

    def raises(e):
        T = e.self.T
        return {"IndexError": Not(And(e.index <= T.size, sel(T.dfn, e.index)))}

    def ghost_exit(e): e.self.T = e.old.self.T.replace(lr=e.index)

    def on_raise(e): return {"only-last-reused-moved": True}

    def ensures(e):
        return {"value": e.result == sel(e.old.self.T.tbl, e.index), "last-reused": e.self.last_reused_index == e.index,
                "coupled": R_dec(e.self)}


def _dec_ref(spec_fn: Any, exc: Any) -> Any:
    class C:
        params = {"self": OBJ(DEC), "index": NAT}
        result = STR
        modifies = ["self.last_reused_index", "self.T"]

        def requires(e): return R_dec(e.self)

        def raises(e):
            valid, _, _ = spec_fn(e.self.T, e.index)
            return {exc: Not(valid)}

        def on_raise(e): return {"only-last-reused-moved": True}

        def ghost_exit(e):
            _, T2, _ = spec_fn(e.old.self.T, e.index)
            e.self.T = T2

        def ensures(e):
            _, _, val = spec_fn(e.old.self.T, e.index)
            return {"value-is-spec-value": e.result == val, "state-is-spec-state": R_dec(e.self)}
    return C


contract(f"{PL}:LookupDecoder.decode_name_term_index", serves=["C05", "C04", "C16"])(
    _dec_ref(spec_name_ref, ("IndexError", "JellyConformanceError")))
contract(f"{PL}:LookupDecoder.decode_prefix_term_index", serves=["C05", "C04", "C16"])(
    _dec_ref(spec_prefix_ref, ("IndexError", "JellyConformanceError")))
contract(f"{PL}:LookupDecoder.decode_datatype_term_index", serves=["C05", "C04", "C16"])(
    _dec_ref(spec_datatype_ref, ("IndexError", "JellyConformanceError")))


# ----------------------------------------------------------- mirror lemmas (C05)
def _mirror_pre(e: Any) -> Any:
    return And(wf_enc(e.E), R_enc(e.E), R_dec(e.D), table_eq(e.E.T, e.D.T))


def _mirror_post(e: Any) -> dict:
    return {"reader-resolves-writer-key": e.result == e.k,
            "still-mirrored": And(wf_enc(e.E), R_enc(e.E), R_dec(e.D), table_eq(e.E.T, e.D.T)),
            "live-entries-bounded": od_len(e.E.lookup.data) <= e.D.lookup_size}


@lemma("mirror_step_name", serves=["C05", "C01"], src='''
def mirror_step_name(E, D, k):
    r = E.encode_entry_index(k)
    if r is not None:
        D.assign_entry(r, k)
    i = E.encode_name_term_index(k)
    return D.decode_name_term_index(i)
''')
class _mirror_name:
    """One step of the history induction for the name table: writer op, then reader op on what the writer emitted."""
    params = {"E": OBJ(ENC), "D": OBJ(DEC), "k": STR}
    result = STR
    modifies = ["E", "D"]

    def requires(e): return And(_mirror_pre(e), e.E.lookup.max_size > 0)

    def ensures(e): return _mirror_post(e)


@lemma("mirror_step_prefix", serves=["C05", "C01"], src='''
def mirror_step_prefix(E, D, k):
    r = E.encode_entry_index(k)
    if r is not None:
        D.assign_entry(r, k)
    i = E.encode_prefix_term_index(k)
    return D.decode_prefix_term_index(i)
''')
class _mirror_prefix:
    params = {"E": OBJ(ENC), "D": OBJ(DEC), "k": STR}
    result = STR
    modifies = ["E", "D"]

    def requires(e): return And(_mirror_pre(e), e.E.lookup.max_size > 0)

    def ensures(e): return _mirror_post(e)


@lemma("mirror_step_datatype", serves=["C05", "C01"], src='''
def mirror_step_datatype(E, D, k):
    r = E.encode_entry_index(k)
    if r is not None:
        D.assign_entry(r, k)
    i = E.encode_datatype_term_index(k)
    return D.decode_datatype_term_index(i)
''')
class _mirror_dt:
    params = {"E": OBJ(ENC), "D": OBJ(DEC), "k": STR}
    result = STR
    modifies = ["E", "D"]

    def requires(e): return And(_mirror_pre(e), e.E.lookup.max_size > 0)

    def ensures(e): return _mirror_post(e)


@lemma("mirror_base", serves=["C05"], src='''
def mirror_base(E, D, size):
    LookupEncoder.__init__(E, lookup_size=size)
    LookupDecoder.__init__(D, lookup_size=size)
''')
class _mirror_base:
    """Base case of the history induction: freshly constructed writer and reader tables of the same size are mirrored."""
    params = {"E": NEWOBJ(ENC), "D": NEWOBJ(DEC), "size": NAT}
    modifies = ["E", "D"]

    def requires(e): return e.size <= 4096

    def ensures(e):
        return {"mirrored": And(wf_enc(e.E), R_enc(e.E), R_dec(e.D), table_eq(e.E.T, e.D.T))}
