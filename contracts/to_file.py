"""File wrappers of both integrations: flat_stream_to_file (generic and rdflib) and the two framing helpers of
pyjelly/serialize/ioutils.py they go through.

C06: every frame the frame generator hands out is written to the output exactly once, in the order obtained,
length-prefixed (these wrappers always write the delimited variant), before the next frame is asked for (C11: nothing
is collected first).  The output is the A-IO ghost list of writes.

What is *assumed* here (listed as trusted in the evidence of every check that uses it): the callee
`flat_stream_to_frames` is a generator of RdfStreamFrame messages.  Its body (`next(statements, None)`, `itertools.chain`, a
generator expression) is outside the supported subset; nothing but the sort of what it yields is assumed - in
particular not that the frames are complete (that is `*_stream_frames`' proved contract and the bounded net of C06).
`grouped_stream_to_file` takes `**kwargs` and stays with the nets.
"""
from __future__ import annotations

from pyvc.contract import ABSITER, MSG, OBJ, OPT, LoopSpec, Sort, contract

from .rdflib_serialize import RSER, RTRIPLE, SIO
from .serialize_generic import GSER, TRIPLE
from .streams import SOPTS


def _written_delimited(e):
    """the frame just obtained is appended to the writes, once, length-prefixed; earlier writes are untouched"""
    w_new, w_old = e.output_file._obj().get("writes"), e.old.output_file._obj().get("writes")
    ok = len(w_new) == len(w_old) + 1 and w_new[:len(w_old)] == w_old
    out = {"exactly-one-write-per-frame": ok}
    if ok:
        how, msg = w_new[-1]
        out["the-frame-itself-is-written"] = msg == e.frame._ref
        out["length-prefixed"] = how == "delimited"
    return out


for _mod, _stmt in ((GSER, TRIPLE), (RSER, RTRIPLE)):
    @contract(f"{_mod}:flat_stream_to_frames", serves=["C06"], trusted=True)
    class _flat_frames:
        """ASSUMED (body outside the supported subset): a generator of RdfStreamFrame messages. Nothing else."""
        params = {"statements": ABSITER(_stmt), "options": OPT(OBJ(SOPTS))}
        yields = MSG("RdfStreamFrame")
        modifies = []

        def raises(e): return {("?", "NotImplementedError", "JellyConformanceError", "JellyAssertionError"): True}
        def on_raise(e): return {"anything": True}
        def ensures(e): return {}

    @contract(f"{_mod}:flat_stream_to_file", serves=["C06"])
    class _flat_file:
        """every frame obtained from flat_stream_to_frames is written once, in order, length-prefixed, one at a time"""
        params = {"statements": ABSITER(_stmt), "output_file": Sort("bytesink"), "options": OPT(OBJ(SOPTS))}
        modifies = ["output_file"]
        loops = {0: LoopSpec(invariant=lambda e: {"output-kept": True}, after_each=_written_delimited,
                             modifies=["output_file"])}

        def raises(e): return {("?", "NotImplementedError", "JellyConformanceError", "JellyAssertionError"): True}
        def on_raise(e): return {"anything": True}
        def ensures(e): return {}




from .serialize_generic import SINK  # noqa: E402

for _mod, _sink in ((GSER, OBJ(SINK)), (RSER, Sort("rgraph", False))):
    @contract(f"{_mod}:grouped_stream_to_frames", serves=["C06"], trusted=True)
    class _grouped_frames:
        """ASSUMED as a generator of RdfStreamFrame messages only (called with **kwargs by the file wrapper)."""
        params = {"sink_generator": ABSITER(_sink), "options": OPT(OBJ(SOPTS))}
        yields = MSG("RdfStreamFrame")
        modifies = []

        def raises(e): return {("?", "NotImplementedError", "JellyConformanceError", "JellyAssertionError"): True}
        def on_raise(e): return {"anything": True}
        def ensures(e): return {}

    @contract(f"{_mod}:grouped_stream_to_file", serves=["C06"])
    class _grouped_file:
        """every frame obtained from grouped_stream_to_frames is written once, in order, length-prefixed"""
        params = {"stream": ABSITER(_sink), "output_file": Sort("bytesink"), "kwargs": Sort("kwargs", {})}
        # what **kwargs holds: nothing, or the only keyword grouped_stream_to_frames accepts
        variants = [{"kwargs": Sort("kwargs", {})}, {"kwargs": Sort("kwargs", {"options": OPT(OBJ(SOPTS))})}]
        modifies = ["output_file"]
        loops = {0: LoopSpec(invariant=lambda e: {"output-kept": True}, after_each=_written_delimited,
                             modifies=["output_file"])}

        def raises(e): return {("?", "NotImplementedError", "JellyConformanceError", "JellyAssertionError"): True}
        def on_raise(e): return {"anything": True}
        def ensures(e): return {}
