"""Contracts for pyjelly/options.py, encode_options and options_from_frame (property C13; also C06, C16, C03)."""
from __future__ import annotations

from typing import Any

import z3

from pyvc.contract import BOOL, ENUM, INT, NAT, NEWOBJ, OBJ, STR, UINT32, Sort, contract, lemma, shape
from pyvc.spec import And, Iff, Implies, Not, Or, which_is

OPT = "pyjelly.options"
PRESET = f"{OPT}:LookupPreset"
STYPES = f"{OPT}:StreamTypes"
SPARAMS = f"{OPT}:StreamParameters"

shape(PRESET, fields=dict(max_names=INT, max_prefixes=INT, max_datatypes=INT))
shape(STYPES, fields=dict(physical_type=INT, logical_type=INT))
shape(SPARAMS, fields=dict(generalized_statements=BOOL, rdf_star=BOOL, version=INT, delimited=BOOL,
                           namespace_declarations=BOOL, stream_name=STR))

# ---- specification side (Jelly spec, "Stream types"): written from the spec, not from options.py ------------------
PHYS_VALUES = (0, 1, 2, 3)                       # UNSPECIFIED, TRIPLES, QUADS, GRAPHS
LOGICAL_VALUES = (0, 1, 2, 3, 4, 13, 14, 114)    # UNSPECIFIED, FLAT_TRIPLES, FLAT_QUADS, GRAPHS, DATASETS, SUBJECT_GRAPHS,
#                                                  NAMED_GRAPHS, TIMESTAMPED_NAMED_GRAPHS
TRIPLES_LOGICAL = (1, 3, 13)                     # logical types whose elements are triples


def known_phys(p: Any) -> Any:
    return Or(*[p == v for v in PHYS_VALUES])


def known_logical(lt: Any) -> Any:
    return Or(*[lt == v for v in LOGICAL_VALUES])


def valid_pair(p: Any, lt: Any) -> Any:
    """UNSPECIFIED on either side is always allowed; otherwise TRIPLES <-> triple-based logical types."""
    return Or(p == 0, lt == 0, Iff(p == 1, Or(*[lt == v for v in TRIPLES_LOGICAL])))


def is_flat(lt: Any) -> Any:
    return Or(lt == 1, lt == 2)


# --------------------------------------------------------------------------------------------------------------------
@contract(f"{OPT}:validate_type_compatibility", serves=["C13", "C06", "C16"])
class _validate:
    params = {"physical_type": INT, "logical_type": INT}

    def requires(e): return And(known_phys(e.physical_type), known_logical(e.logical_type))

    def raises(e): return {"JellyAssertionError": Not(valid_pair(e.physical_type, e.logical_type))}


@contract(f"{OPT}:StreamTypes.__post_init__", serves=["C13", "C06", "C16"])
class _stypes_post:
    params = {"self": OBJ(STYPES)}

    def requires(e): return And(known_phys(e.self.physical_type), known_logical(e.self.logical_type))

    def raises(e): return {"JellyAssertionError": Not(valid_pair(e.self.physical_type, e.self.logical_type))}


@contract(f"{OPT}:StreamTypes.flat", serves=["C13", "C06"])
class _stypes_flat:
    params = {"self": OBJ(STYPES)}
    result = BOOL

    def ensures(e): return {"flat-iff-flat-logical-type": Iff(e.result, is_flat(e.self.logical_type))}


@contract(f"{OPT}:LookupPreset.__post_init__", serves=["C13", "C16"])
class _preset_post:
    params = {"self": OBJ(PRESET)}

    def raises(e): return {"JellyConformanceError": e.self.max_names < 8}


@contract(f"{OPT}:StreamParameters.__post_init__", serves=["C13", "C03"])
class _sparams_post:
    params = {"self": OBJ(SPARAMS)}
    modifies = ["self.version"]

    def ensures(e):
        return {"version-2-iff-namespace-declarations": And(Implies(e.self.namespace_declarations, e.self.version == 2),
                                                            Implies(Not(e.self.namespace_declarations), e.self.version == 1))}


# ------------------------------------------------------------------------------------------------- encode_options
ENC = "pyjelly.serialize.encode"


def _opts_msg(row: Any) -> Any:
    return row.options


@contract(f"{ENC}:encode_options", serves=["C13", "C03"])
class _encode_options:
    params = {"lookup_preset": OBJ(PRESET), "stream_types": OBJ(STYPES), "params": OBJ(SPARAMS)}
    result = Sort("msg", "RdfStreamRow")

    def requires(e):
        lp, st, sp = e.lookup_preset, e.stream_types, e.params
        u32 = lambda x: And(x >= 0, x < 2 ** 32)  # noqa: E731
        return And(u32(lp.max_names), u32(lp.max_prefixes), u32(lp.max_datatypes), u32(sp.version),
                   known_phys(st.physical_type), known_logical(st.logical_type))

    def ensures(e):
        lp, st, sp = e.lookup_preset, e.stream_types, e.params
        row = e.result
        o = row.options
        return {
            "is-options-row": which_is(row, "options"),
            "physical-type": o.physical_type == st.physical_type,
            "logical-type": o.logical_type == st.logical_type,
            "name-table-size": o.max_name_table_size == lp.max_names,
            "prefix-table-size": o.max_prefix_table_size == lp.max_prefixes,
            "datatype-table-size": o.max_datatype_table_size == lp.max_datatypes,
            "stream-name": o.stream_name == sp.stream_name,
            "generalized": o.generalized_statements == sp.generalized_statements,
            "rdf-star": o.rdf_star == sp.rdf_star,
            "version": o.version == sp.version,
        }


# --------------------------------------------------------------------------------------------- options_from_frame
DEC = "pyjelly.parse.decode"


def _first_options(frame: Any) -> Any:
    return frame.rows.items[0].options


@contract(f"{DEC}:options_from_frame", serves=["C13", "C16", "C04"])
class _options_from_frame:
    """frame: first non-empty frame; its first row is read as the options row (a non-options first row reads as all
    defaults, so max_name_table_size == 0 < 8 and the call raises: 'missing options row')."""
    params = {"frame": Sort("frame1"), "delimited": BOOL}
    result = Sort("tup", (OBJ(STYPES), OBJ(PRESET), OBJ(SPARAMS)))

    def requires(e):
        o = _first_options(e.frame)
        return And(known_phys(o.physical_type), known_logical(o.logical_type))

    def raises(e):
        o = _first_options(e.frame)
        ok_pair = valid_pair(o.physical_type, o.logical_type)
        return {"JellyAssertionError": Not(ok_pair),
                "JellyConformanceError": And(ok_pair, o.max_name_table_size < 8)}

    def ensures(e):
        o = _first_options(e.frame)
        st, lp, sp = e.result.items
        return {
            "physical-type": st.physical_type == o.physical_type,
            "logical-type": st.logical_type == o.logical_type,
            "name-table-size": lp.max_names == o.max_name_table_size,
            "prefix-table-size": lp.max_prefixes == o.max_prefix_table_size,
            "datatype-table-size": lp.max_datatypes == o.max_datatype_table_size,
            "stream-name": sp.stream_name == o.stream_name,
            "generalized": sp.generalized_statements == o.generalized_statements,
            "rdf-star": sp.rdf_star == o.rdf_star,
            "namespace-declarations-iff-version-2": Iff(sp.namespace_declarations, o.version >= 2),
            "version-normalised": sp.version == z3.If(o.version >= 2, 2, 1),
            "delimited-is-detected-mode": sp.delimited == e.delimited,
            "pair-valid": valid_pair(st.physical_type, st.logical_type),
            "name-table-at-least-8": lp.max_names >= 8,
        }


@lemma("header_roundtrip", serves=["C13"], src='''
def header_roundtrip(lookup_preset, stream_types, params, delimited):
    row = encode_options(lookup_preset, stream_types, params)
    frame = jelly.RdfStreamFrame(rows=[row])
    return options_from_frame(frame, delimited=delimited)
''')
class _header_roundtrip:
    """What a reader is told equals what the writer was configured with (field by field), through the real
    encode_options / options_from_frame contracts and the protobuf constructor model."""
    params = {"lookup_preset": OBJ(PRESET), "stream_types": OBJ(STYPES), "params": OBJ(SPARAMS), "delimited": BOOL}
    result = Sort("tup", (OBJ(STYPES), OBJ(PRESET), OBJ(SPARAMS)))

    def requires(e):
        lp, st, sp = e.lookup_preset, e.stream_types, e.params
        u32 = lambda x: And(x >= 0, x < 2 ** 32)  # noqa: E731
        return And(u32(lp.max_names), u32(lp.max_prefixes), u32(lp.max_datatypes), lp.max_names >= 8,
                   known_phys(st.physical_type), known_logical(st.logical_type),
                   valid_pair(st.physical_type, st.logical_type),
                   Or(And(sp.namespace_declarations, sp.version == 2), And(Not(sp.namespace_declarations), sp.version == 1)))

    def ensures(e):
        lp, st, sp = e.lookup_preset, e.stream_types, e.params
        st2, lp2, sp2 = e.result.items
        return {"physical-type": st2.physical_type == st.physical_type, "logical-type": st2.logical_type == st.logical_type,
                "table-sizes": And(lp2.max_names == lp.max_names, lp2.max_prefixes == lp.max_prefixes,
                                   lp2.max_datatypes == lp.max_datatypes),
                "stream-name": sp2.stream_name == sp.stream_name,
                "flags": And(sp2.generalized_statements == sp.generalized_statements, sp2.rdf_star == sp.rdf_star),
                "namespace-declarations": sp2.namespace_declarations == sp.namespace_declarations,
                "version": sp2.version == sp.version,
                "delimited": sp2.delimited == e.delimited}
