"""Contracts for pyjelly/serialize/flows.py and the flow-related part of streams.py (C06, C11, C07, C01, C13)."""
from __future__ import annotations

from typing import Any

import z3

from pyvc.contract import BOOL, INT, MSG, NEWOBJ, OBJ, OPT, ROWS, Sort, contract, inline, shape
from pyvc.spec import And, Iff, Implies, Ite, Not, Or, is_none, opt_val
from pyvc.values import Seg, seg_len

from .options import PRESET, SPARAMS, STYPES, is_flat, known_logical, valid_pair

FL = "pyjelly.serialize.flows"
FLOW_CLASSES = ["FrameFlow", "ManualFrameFlow", "BoundedFrameFlow", "FlatTriplesFrameFlow", "FlatQuadsFrameFlow",
                "GraphsFrameFlow", "DatasetsFrameFlow"]
BOUNDED = ("BoundedFrameFlow", "FlatTriplesFrameFlow", "FlatQuadsFrameFlow")
for _c in FLOW_CLASSES:
    _f = dict(data=ROWS, logical_type=INT)
    if _c in BOUNDED:
        _f["frame_size"] = INT
    shape(f"{FL}:{_c}", fields=_f)

# constructors: a handful of assignments (UserList.__init__, `logical_type or class default`, `frame_size or 250`);
# executed in place so that every caller sees the concrete class and fields
inline(f"{FL}:FrameFlow.__init__")
inline(f"{FL}:BoundedFrameFlow.__init__")
inline(f"{FL}:FrameFlow.frame_from_graph")      # base implementations: `return None`
inline(f"{FL}:FrameFlow.frame_from_dataset")
inline(f"{FL}:FrameFlow.frame_from_bounds")
inline(f"{FL}:flow_for_type")                   # table lookup on `logical_type % 10`; see infer_flow's contract


def flow_len(F: Any) -> Any:
    n: Any = 0
    for it in F.data.items:
        n = n + (seg_len(it.const) if isinstance(it, Seg) else 1)
    return n


def same_rows(a: list, b: list) -> bool:
    """the two row lists are the same rows in the same order (identity of rows / segments)"""
    if len(a) != len(b):
        return False
    for x, y in zip(a, b):
        if isinstance(x, Seg) and isinstance(y, Seg):
            if not x.const.eq(y.const):
                return False
        elif x is not y and not (hasattr(x, "_ref") and hasattr(y, "_ref") and x._ref == y._ref):
            return False
    return True


def _emit_contract(cond_emit):
    """shared shape of to_stream_frame / frame_from_bounds / frame_from_graph / frame_from_dataset:
    emit a frame holding exactly the buffered rows, in order, and leave the buffer empty - or do nothing"""
    class C:
        result = OPT(MSG("RdfStreamFrame"))
        linear = True        # a frame taken out of the flow must be handed on by whoever obtained it
        modifies = ["self.data"]

        def lists(e):
            # the frame holds exactly the buffered rows, in order, and the buffer is empty afterwards - or nothing changed
            old_items = list(e.old.self.data.items)
            emitted = Not(is_none(e.result))
            return [dict(label="emitted", when=emitted, set={"self.data": [], "result.rows": old_items}),
                    dict(label="nothing-emitted", when=Not(emitted), set={"self.data": old_items})]

        def ensures(e):
            old_n = flow_len(e.old.self)
            emitted = Not(is_none(e.result))
            return {"emits-iff": Iff(emitted, cond_emit(e, old_n)),
                    "buffer-empty-after-emitting": Implies(emitted, flow_len(e.self) == 0)}
    return C


def _reg(key: str, cls_key: str, cond, serves: list[str]) -> None:
    C = _emit_contract(cond)
    C.params = {"self": OBJ(cls_key)}
    contract(key, serves=serves)(C)


_reg(f"{FL}:FrameFlow.to_stream_frame", f"{FL}:FrameFlow", lambda e, n: n > 0, ["C06", "C01", "C07", "C11"])
_reg(f"{FL}:BoundedFrameFlow.frame_from_bounds", f"{FL}:BoundedFrameFlow", lambda e, n: And(n >= e.old.self.frame_size, n > 0), ["C11", "C06", "C01"])
_reg(f"{FL}:GraphsFrameFlow.frame_from_graph", f"{FL}:GraphsFrameFlow", lambda e, n: n > 0, ["C07", "C06"])
_reg(f"{FL}:DatasetsFrameFlow.frame_from_dataset", f"{FL}:DatasetsFrameFlow", lambda e, n: n > 0, ["C07", "C06"])
