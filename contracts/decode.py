"""Contracts for pyjelly/parse/decode.py and the generic adapters (C04, C16, C01, C15, C14)."""
from __future__ import annotations

from typing import Any

import z3

from pyvc.contract import (ADTS, BOOL, CONSTV, INT, LISTOF, MSG, NEWOBJ, OBJ, OPT, REGISTRY, STR, LoopSpec, Sort, TUP,
                           contract, inline, shape)
from pyvc.spec import And, Iff, Implies, Ite, Not, Or, is_none, opt_val, sel, which_is, which_unset
from pyvc.values import ADT, ExcVal, Raised, Tup, Unsupported

from .lookup import DEC as LDEC
from .lookup import R_dec
from .options import PRESET, SPARAMS, STYPES
from .spec_tables import spec_datatype_ref, spec_name_ref, spec_prefix_ref
from .terms import GS, GTerm, unfold

PD = "pyjelly.parse.decode"
GP = "pyjelly.integrations.generic.parse"
DECODER = f"{PD}:Decoder"
ADAPTERS = ["GenericStatementSinkAdapter", "GenericTriplesAdapter", "GenericQuadsBaseAdapter", "GenericQuadsAdapter",
            "GenericGraphsAdapter"]
RP = "pyjelly.integrations.rdflib.parse"
R_ADAPTERS = ["RDFLibAdapter", "RDFLibTriplesAdapter", "RDFLibQuadsBaseAdapter", "RDFLibQuadsAdapter", "RDFLibGraphsAdapter"]
# both integrations' adapters, by what they make of rows (the Decoder contracts are verified once per adapter class)
ADAPTER_KIND = {"GenericTriplesAdapter": "triples", "GenericQuadsAdapter": "quads", "GenericGraphsAdapter": "graphs",
                "RDFLibTriplesAdapter": "triples", "RDFLibQuadsAdapter": "quads", "RDFLibGraphsAdapter": "graphs"}


def akind(D: Any) -> str:
    return ADAPTER_KIND.get(D.adapter.cls.name, "base")


def is_rdflib(D: Any) -> bool:
    return D.adapter.cls.name.startswith("RDFLib")


# ---- constructing the generic term classes yields values of the term datatype ------------------------------------
def _ctor(kind: str):
    def make(eng: Any, st: Any, args: list, kwargs: dict, node: Any):
        def s(i: int, name: str, default: Any = None) -> Any:
            v = args[i] if i < len(args) else kwargs.get(name, default)
            return v
        if kind == "IRI":
            v = s(0, "iri")
            if isinstance(v, ADT):       # IRI(IRI(...)): the attribute would hold a term, not a string
                raise Unsupported("IRI constructed from a term object", node)
            yield st, ADT(GTerm.IRI(V_to_z3(v)), "gterm")
        elif kind == "BlankNode":
            yield st, ADT(GTerm.BNode(V_to_z3(s(0, "identifier"))), "gterm")
        elif kind == "Literal":
            lex, lang, dt = s(0, "lex"), s(1, "langtag"), s(2, "datatype")
            hl, lv = _optstr(lang)
            hd, dv = _optstr(dt)
            yield st, ADT(GTerm.Lit(V_to_z3(lex), hl, lv, hd, dv), "gterm")
        elif kind == "Triple":
            if len(args) != 3 or not all(isinstance(a, ADT) for a in args):
                if len(args) != 3:
                    yield st, Raised(ExcVal("TypeError"))
                    return
                raise Unsupported("Triple(...) of non-term values", node)
            yield st, ADT(GTerm.QTriple(*[a.expr for a in args]), "gterm")
        elif kind == "Quad":
            if len(args) != 4:
                yield st, Raised(ExcVal("TypeError"))
                return
            yield st, Tup(tuple(args), eng.tree.get_class(f"{GS}:Quad"))
    return make


def V_to_z3(v: Any) -> Any:
    from pyvc.values import to_z3
    return to_z3(v)


def _optstr(v: Any) -> tuple[Any, Any]:
    from pyvc.values import Opt, to_z3
    if v is None:
        return z3.BoolVal(False), z3.StringVal("")
    if isinstance(v, Opt):
        return z3.Not(v.isnone) if not isinstance(v.isnone, bool) else z3.BoolVal(not v.isnone), to_z3(v.val if v.val is not None else "")
    return z3.BoolVal(True), to_z3(v)


REGISTRY.class_constructors = getattr(REGISTRY, "class_constructors", {})
for _k in ("IRI", "BlankNode", "Literal", "Triple", "Quad"):
    REGISTRY.class_constructors[(GS, _k)] = _ctor(_k)

# ---- shapes ------------------------------------------------------------------------------------------------------------
from pyvc.contract import NTUP  # noqa: E402
PARSER_OPTIONS = NTUP(f"{PD}:ParserOptions", OBJ(STYPES), OBJ(PRESET), OBJ(SPARAMS))
for _a in ADAPTERS:
    _f = dict(options=PARSER_OPTIONS, parsing_mode=Sort("any"))
    if _a == "GenericGraphsAdapter":
        _f["_graph_id"] = OPT(ADTS("gterm"))
    shape(f"{GP}:{_a}", fields=_f)
_dec_fields = dict(adapter=OBJ(f"{GP}:GenericStatementSinkAdapter"), names=OBJ(LDEC), prefixes=OBJ(LDEC), datatypes=OBJ(LDEC),
                   repeated_terms=Sort("slotdict", ADTS("gterm")), row_handlers=Sort("handlers", "_ROW_HANDLER_NAMES"),
                   term_handlers=Sort("handlers", "_TERM_HANDLER_NAMES"))
shape(DECODER, fields=_dec_fields)
shape(DECODER + "@graphs", fields={**_dec_fields, "adapter": OBJ(f"{GP}:GenericGraphsAdapter")})
shape(DECODER + "@triples", fields={**_dec_fields, "adapter": OBJ(f"{GP}:GenericTriplesAdapter")})
shape(DECODER + "@quads", fields={**_dec_fields, "adapter": OBJ(f"{GP}:GenericQuadsAdapter")})
for _a in R_ADAPTERS:
    _f = dict(options=PARSER_OPTIONS, parsing_mode=Sort("any"))
    if _a == "RDFLibGraphsAdapter":
        _f["_graph_id"] = OPT(ADTS("gterm"))
    shape(f"{RP}:{_a}", fields=_f)
shape(DECODER + "@r", fields={**_dec_fields, "adapter": OBJ(f"{RP}:RDFLibAdapter")})
shape(DECODER + "@rtriples", fields={**_dec_fields, "adapter": OBJ(f"{RP}:RDFLibTriplesAdapter")})
shape(DECODER + "@rquads", fields={**_dec_fields, "adapter": OBJ(f"{RP}:RDFLibQuadsAdapter")})
shape(DECODER + "@rgraphs", fields={**_dec_fields, "adapter": OBJ(f"{RP}:RDFLibGraphsAdapter")})
for _m in ("iri", "bnode", "default_graph", "literal", "namespace_declaration"):
    inline(f"{RP}:RDFLibAdapter.{_m}")
inline(f"{RP}:RDFLibTriplesAdapter.triple")
inline(f"{RP}:RDFLibQuadsAdapter.quad")
inline(f"{RP}:RDFLibGraphsAdapter.graph")
for _m in ("RDFLibTriplesAdapter", "RDFLibQuadsBaseAdapter", "RDFLibGraphsAdapter"):
    inline(f"{RP}:{_m}.__init__")
inline(f"{RP}:_adapter_missing")

# adapter methods and trivial decoder wrappers are one-liners around a constructor: executed in place
for _m in ("iri", "bnode", "default_graph", "literal", "namespace_declaration", "quoted_triple"):
    inline(f"{GP}:GenericStatementSinkAdapter.{_m}")
inline(f"{GP}:GenericTriplesAdapter.triple")
inline(f"{GP}:GenericGraphsAdapter.graph")      # the 'new graph was not started' guard (a property that raises)
inline(f"{GP}:GenericQuadsAdapter.quad")
for _m in ("triple", "quad", "graph_start", "graph_end", "namespace_declaration", "quoted_triple", "frame"):
    inline(f"{PD}:Adapter.{_m}")
inline(f"{PD}:_adapter_missing")
inline(f"{PD}:Decoder.options")
inline(f"{PD}:Decoder.decode_term")             # table dispatch on type(term); the handlers carry the contracts
inline(f"{PD}:Decoder.decode_row")
inline(f"{PD}:Decoder.decode_bnode")
inline(f"{PD}:Decoder.decode_default_graph")
inline(f"{PD}:Decoder.ingest_prefix_entry")
inline(f"{PD}:Decoder.ingest_name_entry")
inline(f"{PD}:Decoder.ingest_datatype_entry")


def wf_dec(D: Any) -> Any:
    return And(R_dec(D.names), R_dec(D.prefixes), R_dec(D.datatypes))


LOOKUP_ERRORS = ("IndexError", "JellyConformanceError")


# ------------------------------------------------------------------------------------------------------- decode_iri
@contract(f"{PD}:Decoder.decode_iri", serves=["C04", "C16", "C01", "C05", "C14", "C02"])
class _decode_iri:
    params = {"self": OBJ(DECODER), "iri": MSG("RdfIri")}
    variants = [{}, {"self": OBJ(DECODER + "@r")}]       # generic adapter / rdflib adapter
    result = ADTS("gterm")
    modifies = ["self.names.last_reused_index", "self.names.T", "self.prefixes.last_reused_index", "self.prefixes.T"]

    def requires(e): return wf_dec(e.self)

    def raises(e):
        vn, _, _ = spec_name_ref(e.self.names.T, e.iri.name_id)
        vp, _, _ = spec_prefix_ref(e.self.prefixes.T, e.iri.prefix_id)
        return {LOOKUP_ERRORS: Not(And(vn, vp))}

    def on_raise(e): return {"only-delta-bases-moved": True}

    def ensures(e):
        O = e.old.self
        _, TN2, nv = spec_name_ref(O.names.T, e.iri.name_id)
        _, TP2, pv = spec_prefix_ref(O.prefixes.T, e.iri.prefix_id)
        return {"iri-is-prefix-plus-name-by-the-spec-rules": e.result == GTerm.IRI(z3.Concat(pv, nv)),
                "name-base-follows": e.self.names.T.lr == TN2.lr,
                "prefix-base-follows": e.self.prefixes.T.lr == TP2.lr,
                "tables-are-spec-tables": wf_dec(e.self)}


# --------------------------------------------------------------------------------------------------- decode_literal
@contract(f"{PD}:Decoder.decode_literal", serves=["C04", "C16", "C01", "C02"])
class _decode_literal:
    params = {"self": OBJ(DECODER), "literal": MSG("RdfLiteral")}
    variants = [{}, {"self": OBJ(DECODER + "@r")}]
    result = ADTS("gterm")
    modifies = ["self.datatypes.last_reused_index", "self.datatypes.T"]

    def requires(e): return wf_dec(e.self)

    def raises(e):
        L = e.literal
        vd, _, _ = spec_datatype_ref(e.self.datatypes.T, L.datatype)
        # a datatype reference is resolved whenever the literal carries one - also when the table is disabled (size 0),
        # where every reference is invalid (C16: never drop the datatype)
        return {LOOKUP_ERRORS: And(which_is(L, "datatype"), Not(vd))}

    def on_raise(e): return {"only-delta-bases-moved": True}

    def ensures(e):
        L = e.literal
        O = e.old.self
        _, _, dv = spec_datatype_ref(O.datatypes.T, L.datatype)
        lang = And(which_is(L, "langtag"), L.langtag != "")
        dt = which_is(L, "datatype")
        return {"literal-by-the-spec-rules": e.result == GTerm.Lit(L.lex, lang, z3.If(lang, L.langtag, z3.StringVal("")),
                                                                  dt, z3.If(dt, dv, z3.StringVal(""))),
                "tables-are-spec-tables": wf_dec(e.self)}


# -------------------------------------------------------------------------------------------- graphs adapter (C16)
@contract(f"{GP}:GenericGraphsAdapter.triple", serves=["C16", "C04", "C15"])
class _graphs_triple:
    params = {"self": OBJ(f"{GP}:GenericGraphsAdapter"), "terms": LISTOF(ADTS("gterm"), 3)}
    result = TUP(ADTS("gterm"), ADTS("gterm"), ADTS("gterm"), ADTS("gterm"))

    def raises(e): return {"JellyConformanceError": is_none(e.self._graph_id)}

    def ensures(e):
        s, p, o = e.terms.items
        return {"quad-in-the-open-graph": And(e.result.items[0] == s, e.result.items[1] == p, e.result.items[2] == o,
                                              opt_val(e.result.items[3]) == opt_val(e.self._graph_id),
                                              Not(is_none(e.result.items[3])))}


@contract(f"{GP}:GenericGraphsAdapter.graph_start", serves=["C16", "C04"])
class _graphs_start:
    params = {"self": OBJ(f"{GP}:GenericGraphsAdapter"), "graph_id": ADTS("gterm")}
    modifies = ["self._graph_id"]

    def ensures(e):
        return {"graph-open": And(Not(is_none(e.self._graph_id)), opt_val(e.self._graph_id) == e.graph_id)}


@contract(f"{GP}:GenericGraphsAdapter.graph_end", serves=["C16", "C04"])
class _graphs_end:
    params = {"self": OBJ(f"{GP}:GenericGraphsAdapter")}
    modifies = ["self._graph_id"]

    def ensures(e): return {"no-graph-open": is_none(e.self._graph_id)}


# ------------------------------------------------------------------ equality of the generic term classes (C01, C19)
def _eq_contract(cls: str, rec: Any) -> None:
    class C:
        """`==` on this class is structural equality of the term (what makes repeated-term elision lossless, C01, and
        complete, C19)"""
        params = {"self": ADTS("gterm"), "other": ADTS("gterm")}
        result = BOOL

        def requires(e): return rec(e.self)

        def ensures(e): return {"equal-iff-same-term": Iff(e.result, e.self == e.other)}
    contract(f"{GS}:{cls}.__eq__", serves=["C01", "C19", "C03"])(C)


_eq_contract("IRI", GTerm.is_IRI)
_eq_contract("BlankNode", GTerm.is_BNode)
_eq_contract("Literal", GTerm.is_Lit)


# ------------------------------------------------------------------------------------------------- decode_statement
ONEOF_PREFIX = {"subject": "s", "predicate": "p", "object": "o", "graph": "g"}
ANY_DECODE_ERROR = ("IndexError", "JellyConformanceError", "KeyError", "ValueError", "TypeError", "NotImplementedError")


@contract(f"{PD}:Decoder.decode_quoted_triple", serves=["C04", "C16"])
class _decode_quoted:
    """A quoted triple is decoded to a quoted-triple term or refused, and the reader's tables stay spec tables whatever is
    nested in it.  Verified against itself for the nested case (the recursive call goes through this contract: partial
    correctness).  *Which* term comes out (the nested denotation) and exactly when it is refused are not specified here:
    bounded nets only."""
    params = {"self": OBJ(DECODER), "triple": MSG("RdfTriple")}
    # rdflib has no quoted-triple term: its adapter refuses (NotImplementedError) after the nested terms were decoded
    variants = [{}, {"self": OBJ(DECODER + "@r"), "$never_returns": True}]
    shards = 2
    result = ADTS("gterm")
    modifies = ["self.names.last_reused_index", "self.names.T", "self.prefixes.last_reused_index", "self.prefixes.T",
                "self.datatypes.last_reused_index", "self.datatypes.T"]

    def requires(e):
        from .options import known_logical, known_phys
        stypes = e.self.adapter.options.items[0]
        return And(wf_dec(e.self), known_phys(stypes.physical_type), known_logical(stypes.logical_type))

    def raises(e): return {("?",) + ANY_DECODE_ERROR: True}

    def on_raise(e): return {"anything": True}

    def ensures(e):
        if is_rdflib(e.self):
            return {"the-rdflib-adapter-has-no-quoted-triples": False}
        return {"is-quoted-triple": GTerm.is_QTriple(e.result), "tables-are-spec-tables": wf_dec(e.self)}


def default_graph_term(D: Any) -> Any:
    """what the integration's adapter delivers for the default graph: the generic DefaultGraph object, or rdflib's
    DATASET_DEFAULT_GRAPH_ID (a URIRef)"""
    if is_rdflib(D):
        from .terms import RDFLIB_DEFAULT_GRAPH
        return GTerm.IRI(z3.StringVal(RDFLIB_DEFAULT_GRAPH))
    return GTerm.DefaultGraph


def slot_spec(st: Any, oneof: str, D: Any) -> dict:
    """spec decoding of the oneof group `oneof` of statement message `st` in decoder state D (pre-state view):
    kind conditions, validity and the decoded term for the flat kinds"""
    p = ONEOF_PREFIX[oneof]
    out: dict[str, Any] = {"unset": which_unset(st, oneof)}
    iri = getattr(st, f"{p}_iri")
    vn, TN2, nv = spec_name_ref(D.names.T, iri.name_id)
    vp, TP2, pv = spec_prefix_ref(D.prefixes.T, iri.prefix_id)
    out["iri"] = (which_is(st, f"{p}_iri"), And(vn, vp), GTerm.IRI(z3.Concat(pv, nv)), TN2.lr, TP2.lr)
    out["bnode"] = (which_is(st, f"{p}_bnode"), True, GTerm.BNode(getattr(st, f"{p}_bnode")))
    lit = getattr(st, f"{p}_literal")
    vd, _, dv = spec_datatype_ref(D.datatypes.T, lit.datatype)
    lang = And(which_is(lit, "langtag"), lit.langtag != "")
    dt = which_is(lit, "datatype")
    out["literal"] = (which_is(st, f"{p}_literal"), Or(Not(dt), vd),
                      GTerm.Lit(lit.lex, lang, z3.If(lang, lit.langtag, z3.StringVal("")), dt, z3.If(dt, dv, z3.StringVal(""))))
    if oneof == "graph":
        out["default"] = (which_is(st, "g_default_graph"), True, default_graph_term(D))
    else:
        out["quoted"] = which_is(st, f"{p}_triple_term")
    return out


def _iter_raises(e: Any, oneof: str, j: int) -> dict:
    st, D = e.statement, e.self
    sp = slot_spec(st, oneof, D)
    rep = getattr(D.repeated_terms, oneof)
    bad = Or(And(sp["unset"], is_none(rep)),
             And(sp["iri"][0], Not(sp["iri"][1])),
             And(sp["literal"][0], Not(sp["literal"][1])))
    out = {ANY_DECODE_ERROR: bad}
    if "quoted" in sp:
        out[("?",) + ANY_DECODE_ERROR] = sp["quoted"]      # a quoted slot may be refused (nested decoding)
    return out


def _iter_summary(e: Any, oneof: str, j: int) -> dict:
    st, D, O = e.statement, e.self, e.old.self
    sp = slot_spec(e.old.statement, oneof, O)
    new_items, old_items = list(e.terms.items), list(e.old.terms.items)
    out: dict[str, Any] = {"one-term-appended": len(new_items) == len(old_items) + 1
                           and all(a is b or (hasattr(a, "eq") and a.eq(b)) for a, b in zip(new_items, old_items))}
    if len(new_items) != len(old_items) + 1:
        return out
    t = new_items[-1]
    rep_new, rep_old = getattr(D.repeated_terms, oneof), getattr(O.repeated_terms, oneof)
    out["unset-slot-repeats-the-previous-term"] = Implies(sp["unset"], And(t == opt_val(rep_old), Not(is_none(rep_old)),
                                                                         Iff(is_none(rep_new), is_none(rep_old)),
                                                                         opt_val(rep_new) == opt_val(rep_old)))
    for kind in ("iri", "bnode", "literal", "default"):
        if kind in sp:
            cond, _valid, term = sp[kind][0], sp[kind][1], sp[kind][2]
            out[f"{kind}-slot-decodes-by-the-spec-rules"] = Implies(cond, And(t == term, Not(is_none(rep_new)), opt_val(rep_new) == term))
    if "quoted" in sp:
        out["quoted-slot-gives-a-quoted-term"] = Implies(sp["quoted"], And(GTerm.is_QTriple(t), Not(is_none(rep_new)), opt_val(rep_new) == t))
    # the delta bases move only for an IRI slot (and, opaquely, for a quoted one)
    moved = Or(sp["iri"][0], sp.get("quoted", False))
    out["delta-bases"] = And(Implies(sp["iri"][0], And(D.names.T.lr == sp["iri"][3], D.prefixes.T.lr == sp["iri"][4])),
                             Implies(Not(moved), And(D.names.T.lr == O.names.T.lr, D.prefixes.T.lr == O.prefixes.T.lr)))
    out["other-previous-terms-untouched"] = And(*[And(Iff(is_none(getattr(D.repeated_terms, k)), is_none(getattr(O.repeated_terms, k))),
                                                      opt_val(getattr(D.repeated_terms, k)) == opt_val(getattr(O.repeated_terms, k)))
                                                  for k in ("subject", "predicate", "object", "graph") if k != oneof])
    out["tables-are-spec-tables"] = wf_dec(D)
    return out


_LOOP = LoopSpec(summary=_iter_summary, raises=_iter_raises, appends={"terms": ADTS("gterm")},
                 modifies=["decoded_term", "field", "jelly_term", "self.repeated_terms", "self.names.last_reused_index",
                           "self.names.T", "self.prefixes.last_reused_index", "self.prefixes.T",
                           "self.datatypes.last_reused_index", "self.datatypes.T"])


def expected_terms(st: Any, D: Any, oneofs: tuple) -> tuple[Any, list]:
    """(valid, terms): the whole statement decoded by the spec rules, slot after slot, from decoder pre-state D"""
    lrN, lrP = D.names.T.lr, D.prefixes.T.lr
    valid: Any = True
    terms = []
    chain_ok: Any = True
    for oneof in oneofs:
        p = ONEOF_PREFIX[oneof]
        rep = getattr(D.repeated_terms, oneof)
        iri = getattr(st, f"{p}_iri")
        TN = D.names.T.replace(lr=lrN)
        TP = D.prefixes.T.replace(lr=lrP)
        vn, TN2, nv = spec_name_ref(TN, iri.name_id)
        vp, TP2, pv = spec_prefix_ref(TP, iri.prefix_id)
        is_iri = which_is(st, f"{p}_iri")
        lit = getattr(st, f"{p}_literal")
        vd, _, dv = spec_datatype_ref(D.datatypes.T, lit.datatype)
        lang = And(which_is(lit, "langtag"), lit.langtag != "")
        dt = which_is(lit, "datatype")
        t_iri = GTerm.IRI(z3.Concat(pv, nv))
        t_lit = GTerm.Lit(lit.lex, lang, z3.If(lang, lit.langtag, z3.StringVal("")), dt, z3.If(dt, dv, z3.StringVal("")))
        t_bn = GTerm.BNode(getattr(st, f"{p}_bnode"))
        unset = which_unset(st, oneof)
        t = z3.If(unset, opt_val(rep), z3.If(is_iri, t_iri, z3.If(which_is(st, f"{p}_literal"), t_lit, z3.If(which_is(st, f"{p}_bnode"), t_bn, default_graph_term(D)))))
        ok = z3.If(unset, Not(is_none(rep)), z3.If(is_iri, And(vn, vp), z3.If(which_is(st, f"{p}_literal"), Or(Not(dt), vd), True)))
        quoted = which_is(st, f"{p}_triple_term") if oneof != "graph" else False
        terms.append((t, And(chain_ok, Not(quoted))))
        valid = And(valid, Implies(And(chain_ok, Not(quoted)), ok))
        lrN = z3.If(is_iri, TN2.lr, lrN)
        lrP = z3.If(is_iri, TP2.lr, lrP)
        chain_ok = And(chain_ok, Not(quoted))
    return valid, terms


@contract(f"{PD}:Decoder.decode_statement", serves=["C04", "C16", "C01", "C15", "C02"])
class _decode_statement:
    """Every slot of a statement row is decoded by the spec rules in order (delta bases chained), an unset slot repeats
    the previous term of that slot, and the call raises exactly when the spec calls the row invalid (flat terms; a quoted
    slot is opaque, see decode_quoted_triple)."""
    params = {"self": OBJ(DECODER), "statement": MSG("RdfTriple"), "oneofs": CONSTV(Tup(("subject", "predicate", "object")))}
    shards = 4      # one worker per variant
    _Q = {"statement": MSG("RdfQuad"), "oneofs": CONSTV(Tup(("subject", "predicate", "object", "graph")))}
    variants = [{}, dict(_Q), {"self": OBJ(DECODER + "@r")}, {"self": OBJ(DECODER + "@r"), **_Q}]
    result = staticmethod(lambda e: LISTOF(ADTS("gterm"), len(e.oneofs.items)))
    loops = {0: _LOOP}
    modifies = ["self.repeated_terms", "self.names.last_reused_index", "self.names.T", "self.prefixes.last_reused_index",
                "self.prefixes.T", "self.datatypes.last_reused_index", "self.datatypes.T"]

    def requires(e):
        from .options import known_logical, known_phys
        stypes = e.self.adapter.options.items[0]
        return And(wf_dec(e.self), known_phys(stypes.physical_type), known_logical(stypes.logical_type))

    def raises(e):
        oneofs = tuple(e.oneofs.items)
        valid, terms = expected_terms(e.statement, e.self, oneofs)
        anyq = Or(*[which_is(e.statement, f"{ONEOF_PREFIX[o]}_triple_term") for o in oneofs if o != "graph"])
        # exact for flat rows; with a quoted slot the outcome also depends on the opaque nested decoding ("may raise")
        return {ANY_DECODE_ERROR: And(Not(anyq), Not(valid)), ("?",) + ANY_DECODE_ERROR: anyq}

    def on_raise(e): return {"anything": True}

    def ensures(e):
        oneofs = tuple(e.oneofs.items)
        valid, terms = expected_terms(e.old.statement, e.old.self, oneofs)
        items = list(e.result.items)
        out = {"one-term-per-slot": len(items) == len(oneofs), "tables-are-spec-tables": wf_dec(e.self)}
        if len(items) == len(oneofs):
            for o, it, (t, ok) in zip(oneofs, items, terms):
                out[f"{o}-decodes-by-the-spec-rules"] = Implies(ok, it == t)
        return out


# ------------------------------------------------------------------------------- decode_triple / decode_quad (rows)
def _row_result_sort(D: Any) -> Any:
    """what the adapter makes of a statement row: the generic Triple (a term), rdflib's Triple (a 3-tuple), or a Quad"""
    g4 = (ADTS("gterm"),) * 4
    if akind(D) == "triples":
        return NTUP(f"{RP}:Triple", *g4[:3]) if is_rdflib(D) else ADTS("gterm")
    return NTUP(f"{RP}:Quad", *g4) if is_rdflib(D) else NTUP(f"{GS}:Quad", *g4)


def _row_contract(method: str, msg: str, oneofs: tuple) -> Any:
    class C:
        """A statement row: slots decoded by decode_statement's contract, then handed to the adapter of the stream's
        physical type; an adapter without that row kind refuses it (C16: row kind the physical type forbids), and the
        GRAPHS adapter refuses a triple while no graph is open."""
        params = {"self": OBJ(DECODER + "@triples"), method.split("_")[1]: MSG(msg)}
        # an adapter that has no handler for this row kind refuses every row: those variants have raising paths only
        variants = [{"self": OBJ(DECODER + sfx + "triples"), "$never_returns": method == "decode_quad"} for sfx in ("@", "@r")] + \
                   [{"self": OBJ(DECODER + sfx + "quads"), "$never_returns": method == "decode_triple"} for sfx in ("@", "@r")] + \
                   [{"self": OBJ(DECODER + sfx + "graphs"), "$never_returns": method == "decode_quad"} for sfx in ("@", "@r")]
        # what the adapter makes of the row: a Triple (generic term) or a Quad
        result = staticmethod(lambda e: _row_result_sort(e.self))
        modifies = ["self.repeated_terms", "self.names.last_reused_index", "self.names.T", "self.prefixes.last_reused_index",
                    "self.prefixes.T", "self.datatypes.last_reused_index", "self.datatypes.T"]

        def requires(e):
            from .options import known_logical, known_phys
            stypes = e.self.adapter.options.items[0]
            return And(wf_dec(e.self), known_phys(stypes.physical_type), known_logical(stypes.logical_type))

        def raises(e):
            st = getattr(e, method.split("_")[1])
            valid, _terms = expected_terms(st, e.self, oneofs)
            anyq = Or(*[which_is(st, f"{ONEOF_PREFIX[o]}_triple_term") for o in oneofs if o != "graph"])
            kind = akind(e.self)
            supported = {"decode_triple": ("triples", "graphs"), "decode_quad": ("quads",)}[method]
            out = {ANY_DECODE_ERROR: And(Not(anyq), Not(valid)), ("?",) + ANY_DECODE_ERROR: anyq}
            if kind not in supported:
                out["NotImplementedError"] = And(Not(anyq), valid)
            elif kind == "graphs":
                out["JellyConformanceError"] = And(Not(anyq), valid, is_none(e.self.adapter._graph_id))
            return out

        def on_raise(e): return {"anything": True}

        def ensures(e):
            st = getattr(e.old, method.split("_")[1])
            valid, terms = expected_terms(st, e.old.self, oneofs)
            kind = akind(e.self)
            r = e.result
            supported = {"decode_triple": ("triples", "graphs"), "decode_quad": ("quads",)}[method]
            if kind not in supported:
                return {"a-row-kind-the-adapter-has-no-handler-for-never-gets-through": False}
            out = {"tables-are-spec-tables": wf_dec(e.self)}
            if kind == "triples" and is_rdflib(e.self):
                items = list(r.items)       # rdflib's Triple is a plain 3-tuple of terms
                out["triple-of-decoded-terms"] = And(*[Implies(ok, a == t) for a, (t, ok) in zip(items, terms)]) if len(items) == 3 else False
            elif kind == "graphs":
                items = list(r.items) + []
                exp = [t for t, _ok in terms] + [opt_val(e.self.adapter._graph_id)]
                oks = [ok for _t, ok in terms] + [True]
                out["quad-of-decoded-terms-in-the-open-graph"] = And(*[Implies(ok, opt_val(a) == b) for a, b, ok in zip(items, exp, oks)]) if len(items) == 4 else False
            elif method == "decode_triple":
                allok = And(*[ok for _t, ok in terms])
                out["triple-of-decoded-terms"] = Implies(allok, r == GTerm.QTriple(*[t for t, _ok in terms]))
            else:
                items = list(r.items)
                out["quad-of-decoded-terms"] = And(*[Implies(ok, a == t) for a, (t, ok) in zip(items, terms)]) if len(items) == 4 else False
            return out
    return C


contract(f"{PD}:Decoder.decode_triple", serves=["C04", "C16", "C01", "C15", "C02"])(_row_contract("decode_triple", "RdfTriple", ("subject", "predicate", "object")))
contract(f"{PD}:Decoder.decode_quad", serves=["C04", "C16", "C01", "C15", "C02"])(_row_contract("decode_quad", "RdfQuad", ("subject", "predicate", "object", "graph")))


# ------------------------------------------------------------------------------- namespace declarations (C14)
@contract(f"{PD}:Decoder.decode_namespace_declaration", serves=["C14", "C04", "C16", "C02"])
class _decode_ns:
    params = {"self": OBJ(DECODER), "declaration": MSG("RdfNamespaceDeclaration")}
    variants = [{}, {"self": OBJ(DECODER + "@r")}]
    result = staticmethod(lambda e: NTUP(f"{RP if is_rdflib(e.self) else GS}:Prefix", STR, ADTS("gterm")))
    modifies = ["self.names.last_reused_index", "self.names.T", "self.prefixes.last_reused_index", "self.prefixes.T"]

    def requires(e): return wf_dec(e.self)

    def raises(e):
        iri = e.declaration.value
        vn, _, _ = spec_name_ref(e.self.names.T, iri.name_id)
        vp, _, _ = spec_prefix_ref(e.self.prefixes.T, iri.prefix_id)
        return {LOOKUP_ERRORS: Not(And(vn, vp))}

    def on_raise(e): return {"only-delta-bases-moved": True}

    def ensures(e):
        iri = e.declaration.value
        _, _, nv = spec_name_ref(e.old.self.names.T, iri.name_id)
        _, _, pv = spec_prefix_ref(e.old.self.prefixes.T, iri.prefix_id)
        items = list(e.result.items)
        return {"same-prefix-label-and-the-iri-by-the-spec-rules":
                And(items[0] == e.declaration.name, items[1] == GTerm.IRI(z3.Concat(pv, nv))) if len(items) == 2 else False,
                "tables-are-spec-tables": wf_dec(e.self)}


@contract(f"{PD}:Decoder.decode_graph_start", serves=["C04", "C16", "C02"])
class _decode_graph_start:
    """a graph-start row: the graph name is decoded by the spec rules and the GRAPHS adapter opens the graph; the adapters
    of the other physical types have no such row (C16: row kind the physical type forbids) and refuse it"""
    params = {"self": OBJ(DECODER + "@graphs"), "graph_start": MSG("RdfGraphStart")}
    variants = [{"self": OBJ(DECODER + "@graphs")}, {"self": OBJ(DECODER + "@triples"), "$never_returns": True},
                {"self": OBJ(DECODER + "@quads"), "$never_returns": True},
                {"self": OBJ(DECODER + "@rgraphs")}, {"self": OBJ(DECODER + "@rtriples"), "$never_returns": True},
                {"self": OBJ(DECODER + "@rquads"), "$never_returns": True}]
    modifies = ["self.adapter._graph_id", "self.names.last_reused_index", "self.names.T", "self.prefixes.last_reused_index",
                "self.prefixes.T", "self.datatypes.last_reused_index", "self.datatypes.T"]

    def requires(e):
        from .options import known_logical, known_phys
        stypes = e.self.adapter.options.items[0]
        return And(wf_dec(e.self), known_phys(stypes.physical_type), known_logical(stypes.logical_type))

    def raises(e):
        sp = slot_spec(e.graph_start, "graph", e.self)
        bad = Or(sp["unset"], And(sp["iri"][0], Not(sp["iri"][1])), And(sp["literal"][0], Not(sp["literal"][1])))
        out = {ANY_DECODE_ERROR: bad}
        if akind(e.self) != "graphs":
            out["NotImplementedError"] = Not(bad)
        return out

    def on_raise(e): return {"anything": True}

    def ensures(e):
        if akind(e.self) != "graphs":
            return {"a-row-kind-the-adapter-has-no-handler-for-never-gets-through": False}
        sp = slot_spec(e.old.graph_start, "graph", e.old.self)
        g = e.self.adapter._graph_id
        cl = {"graph-open": Not(is_none(g)), "tables-are-spec-tables": wf_dec(e.self)}
        for kind in ("iri", "bnode", "literal", "default"):
            cl[f"{kind}-graph-name-by-the-spec-rules"] = Implies(sp[kind][0], opt_val(g) == sp[kind][2])
        return cl


inline(f"{PD}:Decoder.decode_graph_end")


# ------------------------------------------------------------------------------------------------ Decoder.iter_rows
from pyvc.contract import LoopSpec  # noqa: E402
from pyvc.spec import which_tag  # noqa: E402

inline(f"{PD}:Decoder.decode_graph_end")
inline(f"{PD}:Decoder.validate_stream_options")     # seven asserts against the options the decoder was created with (A-NOOPT)
ROW_ERRORS = ANY_DECODE_ERROR + ("AssertionError", "JellyAssertionError")
ROW_KINDS = ("options", "triple", "quad", "graph_start", "graph_end", "namespace", "name", "prefix", "datatype")
ITER_MOD = ["self.repeated_terms", "self.names", "self.prefixes", "self.datatypes"]


def _rows_inv(e):
    return {"tables-are-spec-tables": wf_dec(e.self)}


def _rows_after(e):
    """per row, relative to the decoder state at the start of the iteration (e.old):
      - a row is handed to the caller exactly if it is a statement or a namespace declaration;
      - an entry row performs exactly the spec's assignment of (id, value) to its own table;
      - a triple row yields the triple of the terms the spec rules give for its slots."""
    from .spec_tables import spec_assign, table_eq
    ro = e.row_owner
    kind = which_tag(ro, "row")
    is_kind = lambda k: kind == ROW_KINDS.index(k) + 1  # noqa: E731
    wanted = Or(is_kind("triple"), is_kind("quad"), is_kind("namespace"))
    ys = e.iter_yields
    out = {"statement-and-namespace-rows-are-yielded": Implies(wanted, len(ys) == 1),
           "other-rows-yield-nothing": Implies(Not(wanted), len(ys) == 0)}
    D, O = e.self, e.old.self
    for k, tab in (("name", "names"), ("prefix", "prefixes"), ("datatype", "datatypes")):
        ent = getattr(ro, k)
        _valid, T2 = spec_assign(getattr(O, tab).T, ent.id, ent.value)
        out[f"{k}-entry-row-is-the-spec-assignment"] = Implies(is_kind(k), table_eq(getattr(D, tab).T, T2))
    if akind(e.self) == "triples" and not is_rdflib(e.self) and len(ys) == 1 and z3.is_expr(ys[0]):
        _v, terms = expected_terms(ro.triple, O, ("subject", "predicate", "object"))
        allok = And(*[ok for _t, ok in terms])
        out["triple-row-yields-the-spec-decoding"] = Implies(And(is_kind("triple"), allok), ys[0] == GTerm.QTriple(*[t for t, _ok in terms]))
    return out


def _iter_rows(adapter_shape: str, extra_mod: list) -> Any:
    class C:
        """C04/C16: for any sequence of rows the reader's tables stay coupled to the spec tables (each row is handled by
        its own handler's contract); C07: a frame is nothing but its rows - no per-frame state is created, read or reset,
        so how rows are cut into frames cannot matter to what is decoded."""
        params = {"self": OBJ(DECODER + adapter_shape), "frame": MSG("RdfStreamFrame")}
        yields = Sort("anyval")
        modifies = ITER_MOD + extra_mod
        loops = {0: LoopSpec(invariant=_rows_inv, after_each=_rows_after, modifies=ITER_MOD + extra_mod,
                             elem=MSG("RdfStreamRow"))}

        def requires(e):
            from .options import known_logical, known_phys
            stypes = e.self.adapter.options.items[0]
            return And(wf_dec(e.self), known_phys(stypes.physical_type), known_logical(stypes.logical_type))

        def raises(e): return {("?",) + ROW_ERRORS: True}
        def on_raise(e): return {"anything": True}
        def ensures(e): return {"tables-are-spec-tables": wf_dec(e.self)}
    return C


_IR = _iter_rows("@triples", ["self.adapter._graph_id"])
_IR.variants = [{"self": OBJ(DECODER + sfx + k)} for sfx in ("@", "@r") for k in ("triples", "quads", "graphs")]
_IR.shards = 6
contract(f"{PD}:Decoder.iter_rows", serves=["C04", "C16", "C07", "C10", "C02"])(_IR)


# ------------------------------------------------------------------------------------------------- Decoder.__init__
inline(f"{PD}:Adapter.__init__")
inline(f"{GP}:GenericStatementSinkAdapter.__init__")
inline(f"{GP}:GenericQuadsBaseAdapter.__init__")
inline(f"{GP}:GenericGraphsAdapter.__init__")


@contract(f"{PD}:Decoder.__init__", serves=["C04", "C05", "C12", "C17", "C07"])
class _decoder_init:
    """a new decoder starts from the empty spec tables of the sizes the stream options declare (capped at 4096 each:
    nothing is allocated for a larger declared size), remembers no terms, and shares nothing with other decoders"""
    params = {"self": NEWOBJ(DECODER), "adapter": OBJ(f"{GP}:GenericStatementSinkAdapter")}
    variants = [{"adapter": OBJ(f"{GP}:GenericTriplesAdapter")}, {"adapter": OBJ(f"{GP}:GenericQuadsAdapter")},
                {"adapter": OBJ(f"{GP}:GenericGraphsAdapter")}, {"adapter": OBJ(f"{RP}:RDFLibTriplesAdapter")},
                {"adapter": OBJ(f"{RP}:RDFLibQuadsAdapter")}, {"adapter": OBJ(f"{RP}:RDFLibGraphsAdapter")}]
    modifies = ["self"]

    def requires(e):
        lp = e.adapter.options.items[1]
        return And(lp.max_names >= 0, lp.max_prefixes >= 0, lp.max_datatypes >= 0)

    def raises(e):
        lp = e.adapter.options.items[1]
        return {"JellyAssertionError": Or(lp.max_names > 4096, lp.max_prefixes > 4096, lp.max_datatypes > 4096)}

    def on_raise(e): return {"the-half-built-decoder-is-discarded": True}

    def aliases(e): return {"self.adapter": e.adapter}

    def ensures(e):
        from .spec_tables import empty_table, table_eq
        D = e.self
        lp = e.adapter.options.items[1]
        rt = D.repeated_terms
        new = lambda v: v._ref.id not in e._old_heap  # noqa: E731
        return {"tables-are-the-empty-spec-tables": And(wf_dec(D), table_eq(D.names.T, empty_table(lp.max_names)),
                                                        table_eq(D.prefixes.T, empty_table(lp.max_prefixes)),
                                                        table_eq(D.datatypes.T, empty_table(lp.max_datatypes))),
                "no-remembered-terms": And(*[is_none(getattr(rt, k)) for k in ("subject", "predicate", "object", "graph")]),
                "state-is-per-decoder": new(D.names) and new(D.prefixes) and new(D.datatypes) and new(rt)}


# ---------------------------------------------------------------------------- parse_triples_stream / parse_quads_stream
from pyvc.contract import ABSITER, NONE  # noqa: E402


def _gen_self(y: Any) -> Any:
    """the receiver a suspended iter_rows generator is bound to"""
    o = y._obj()
    return dict(o.get("binds")).get("self") if o.kind == "gen" else None


def _parse_stream(fname: str, adapters: dict) -> Any:
    class C:
        """C07: one decoder serves all frames (lookup and repeated-term state is carried across frame boundaries and nothing
        else is), and every frame gives exactly one iterable - the suspended iter_rows of that decoder on that frame;
        C16/C13: the adapter is the one of the stream's physical type."""
        params = {"frames": ABSITER(MSG("RdfStreamFrame")), "options": PARSER_OPTIONS, "frame_metadata": NONE}
        variants = [{"frame_metadata": NONE}, {"frame_metadata": Sort("ctxvar")}]
        yields = Sort("anyval")
        modifies = ["frame_metadata"]
        # between two frames the consumer runs the previous frame's iterable: the decoder's tables, remembered terms and the
        # adapter's open graph are whatever that left behind (havoced at the loop head)
        loops = {0: LoopSpec(invariant=lambda e: {"decoder-not-replaced": True},
                             after_each=lambda e: _per_frame(e),
                             modifies=["frame_metadata", "decoder.adapter._graph_id", "decoder.repeated_terms", "decoder.names",
                                       "decoder.prefixes", "decoder.datatypes"])}

        def requires(e):
            lp = e.options.items[1]
            return And(lp.max_names >= 0, lp.max_prefixes >= 0, lp.max_datatypes >= 0)

        def raises(e):
            lp = e.options.items[1]
            return {"JellyAssertionError": Or(lp.max_names > 4096, lp.max_prefixes > 4096, lp.max_datatypes > 4096)}

        def on_raise(e): return {"anything": True}
        def ensures(e): return {}

    def _per_frame(e):
        ys = e.iter_yields
        out = {"one-iterable-per-frame": len(ys) == 1}
        if len(ys) == 1:
            y = ys[0]
            o = y._obj()
            out["it-is-iter_rows-of-this-frame"] = (o.kind == "gen" and o.get("fi").key == f"{PD}:Decoder.iter_rows"
                                                    and dict(o.get("binds")).get("frame") == e.frame._ref)
            out["of-the-one-decoder"] = _gen_self(y) == e.decoder._ref
            if e.frame_metadata is not None:
                # C07: while this frame's iterable is being consumed, the context variable holds this frame's metadata
                # (an empty mapping when the frame carries none)
                cur = e.frame_metadata._obj().get("current")
                md = e.frame.metadata
                nonempty = md._obj().get("nonempty")
                from pyvc.values import Ref as _Ref
                is_md = isinstance(cur, _Ref) and cur == md._ref
                is_empty = isinstance(cur, _Ref) and e.st.obj(cur).kind == "pydict" and e.st.obj(cur).get("keys") == ()
                out["metadata-of-this-frame-is-current"] = And(Implies(nonempty, is_md), Implies(Not(nonempty), is_empty))
            if e.decoder.adapter._obj().has("_graph_id"):
                # C07: the loop over the frames itself leaves the adapter's open-graph state alone (only rows change it,
                # when the frame's iterable is consumed): a graph may span frames
                g1, g0 = e.decoder.adapter._graph_id, e.old.decoder.adapter._graph_id
                out["open-graph-survives-the-frame-boundary"] = And(Iff(is_none(g1), is_none(g0)), opt_val(g1) == opt_val(g0))
            phys = e.options.items[0].physical_type
            acls = e.decoder.adapter.cls.name
            out["adapter-of-the-physical-type"] = adapters[acls](phys)
        return out
    return C


contract(f"{GP}:parse_triples_stream", serves=["C07", "C04", "C16", "C11"])(
    _parse_stream("parse_triples_stream", {"GenericTriplesAdapter": lambda p: True}))
contract(f"{GP}:parse_quads_stream", serves=["C07", "C04", "C16", "C11"])(
    _parse_stream("parse_quads_stream", {"GenericQuadsAdapter": lambda p: p == 2, "GenericGraphsAdapter": lambda p: p != 2}))
contract(f"{RP}:parse_triples_stream", serves=["C07", "C04", "C16", "C11", "C02", "C15"])(
    _parse_stream("parse_triples_stream", {"RDFLibTriplesAdapter": lambda p: True}))
contract(f"{RP}:parse_quads_stream", serves=["C07", "C04", "C16", "C11", "C02", "C15"])(
    _parse_stream("parse_quads_stream", {"RDFLibQuadsAdapter": lambda p: p == 2, "RDFLibGraphsAdapter": lambda p: p != 2}))

inline(f"{GP}:GenericTriplesAdapter.__init__")
inline(f"{GP}:GenericQuadsAdapter.__init__")
