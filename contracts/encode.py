"""Contracts for pyjelly/serialize/encode.py: term level (C03, C19, C01, C18, C20)."""
from __future__ import annotations

from typing import Any

import z3

from pyvc.contract import (ADTS, BOOL, INT, NEWOBJ, OBJ, OPT, ROWS, ROWS_UPTO, STR, Sort, TUP, contract, inline, lemma, shape)
from pyvc.spec import (And, Iff, Implies, Ite, Not, Or, od_get, od_has, od_len, od_stable, od_touched, od_unchanged, sel,
                       which_is, which_unset)

from .lookup import ENC as LENC
from .lookup import R_enc, wf_enc
from .options import PRESET
from .rows import rows_account
from .spec_tables import spec_assign
from .terms import XSD_STRING

SE = "pyjelly.serialize.encode"
TENC = f"{SE}:TermEncoder"
GENC = "pyjelly.integrations.generic.serialize:GenericSinkTermEncoder"

_te_fields = dict(lookup_preset=OBJ(PRESET), names=OBJ(LENC), prefixes=OBJ(LENC), datatypes=OBJ(LENC))
shape(TENC, fields=_te_fields)
shape(GENC, fields=_te_fields)

U32 = 2 ** 32


# ---------------------------------------------------------------- specification of the IRI split (property C19: the
# prefix ends at the last '#', else at the last '/', else it is empty); for C03/C01 any split with prefix+name == iri
# would do, which is why only the `concat` clause carries those tags.
def spec_split(iri: Any) -> tuple[Any, Any]:
    i1 = z3.LastIndexOf(iri, z3.StringVal("#"))
    i2 = z3.LastIndexOf(iri, z3.StringVal("/"))
    n = z3.Length(iri)

    def cut(i: Any, sep: str) -> tuple[Any, Any]:
        return z3.Concat(z3.SubString(iri, 0, i), z3.StringVal(sep)), z3.SubString(iri, i + 1, n - i - 1)
    p1, n1 = cut(i1, "#")
    p2, n2 = cut(i2, "/")
    return (z3.If(i1 >= 0, p1, z3.If(i2 >= 0, p2, z3.StringVal(""))),
            z3.If(i1 >= 0, n1, z3.If(i2 >= 0, n2, iri)))


@contract(f"{SE}:split_iri", serves=["C03", "C01", "C19"])
class _split_iri:
    params = {"iri_string": STR}
    result = TUP(STR, STR)
    tags = {"split-at-last-separator": ["C19"]}

    def ensures(e):
        p, n = e.result.items
        sp, sn = spec_split(e.iri_string)
        return {"concat": z3.Concat(p, n) == e.iri_string,
                "split-at-last-separator": And(p == sp, n == sn)}


# ------------------------------------------------------------------------------------------------ TermEncoder state
def wf_te(E: Any) -> Any:
    return And(wf_enc(E.names), R_enc(E.names), wf_enc(E.prefixes), R_enc(E.prefixes), wf_enc(E.datatypes),
               R_enc(E.datatypes), E.names.lookup.max_size >= 1, E.names.lookup.max_size < U32,
               E.prefixes.lookup.max_size < U32, E.datatypes.lookup.max_size < U32)


def enc_keys(iri: Any, prefix_enabled: Any) -> tuple[Any, Any]:
    sp, sn = spec_split(iri)
    return sp, Ite(prefix_enabled, sn, iri)


def name_eff(lr: Any, ident: Any) -> Any:
    return Ite(ident == 0, lr + 1, ident)


def prefix_eff(lr: Any, ident: Any) -> Any:
    return Ite(ident == 0, lr, ident)


def n_rows(rows: Any) -> Any:
    return len(list(rows.items))


def iri_ids_denote(oP: Any, oN: Any, P: Any, N: Any, pk: Any, nk: Any, en: Any, pid: Any, nid: Any) -> Any:
    """(pid, nid) written now resolve - by the spec's delta rules from the old last-referenced ids - to the indices
    under which pk / nk are resident and *used since the mark*; the encoder's ghost last-referenced ids follow."""
    ne = name_eff(oN.T.lr, nid)
    pe = prefix_eff(oP.T.lr, pid)
    name_ok = And(0 <= nid, nid <= N.lookup.max_size, 1 <= ne, ne <= N.lookup.max_size,
                  od_touched(N.lookup.data, nk), od_get(N.lookup.data, nk) == ne, N.T.lr == ne)
    prefix_on = And(0 <= pid, pid <= P.lookup.max_size,
                    Or(And(pe == 0, pk == "", P.T.lr == 0),
                       And(1 <= pe, pe <= P.lookup.max_size, od_touched(P.lookup.data, pk), od_get(P.lookup.data, pk) == pe,
                           P.T.lr == pe)))
    prefix_off = And(pid == 0, od_unchanged(P.lookup.data, oP.lookup.data), P.T.lr == oP.T.lr)
    return And(name_ok, Ite(en, prefix_on, prefix_off))


def lru_step(o: Any, d: Any, size: Any, by: Any) -> Any:
    """ghost LRU accounting of one table over a call that uses at most `by` keys"""
    return And(d.mark == o.mark, d.t <= o.t + by, Implies(o.t + by <= size, od_stable(o, d)))


@contract(f"{SE}:TermEncoder.encode_iri_indices", serves=["C03", "C01", "C19", "C18", "C05"])
class _encode_iri_indices:
    params = {"self": OBJ(TENC), "iri_string": STR}
    result = TUP(ROWS_UPTO(2), INT, INT)
    modifies = ["self.names", "self.prefixes"]
    tags = {"one-entry-row-per-miss": ["C19"]}

    def requires(e): return wf_te(e.self)

    def ensures(e):
        E, O = e.self, e.old.self
        rows, pid, nid = e.result.items
        en = E.prefixes.lookup.max_size > 0
        pk, nk = enc_keys(e.iri_string, en)
        return {
            "wf": wf_te(E),
            "concat": Ite(en, z3.Concat(pk, nk) == e.iri_string, nk == e.iri_string),
            # C03: read as lookup entries by the spec, the rows are exactly what changed the (ghost) spec tables
            "rows-account-for-table-changes": rows_account(O, E, rows.items),
            # C19a: an entry row is sent only for a string that was not resident
            "one-entry-row-per-miss": n_rows(rows) == Ite(And(en, Not(od_has(O.prefixes.lookup.data, pk))), 1, 0)
                                                      + Ite(Not(od_has(O.names.lookup.data, nk)), 1, 0),
            "datatypes-untouched": And(E.datatypes.T.tbl == O.datatypes.T.tbl),
            "ids-denote-the-iri": iri_ids_denote(O.prefixes, O.names, E.prefixes, E.names, pk, nk, en, pid, nid),
            "lru-names": lru_step(O.names.lookup.data, E.names.lookup.data, E.names.lookup.max_size, 1),
            "lru-prefixes": lru_step(O.prefixes.lookup.data, E.prefixes.lookup.data, E.prefixes.lookup.max_size, 1),
            "sizes-fixed": And(E.names.lookup.max_size == O.names.lookup.max_size,
                               E.prefixes.lookup.max_size == O.prefixes.lookup.max_size),
        }


# --------------------------------------------------------------------------------------------------- encode_iri
from pyvc.contract import MSG  # noqa: E402
from pyvc.spec import msg_written, which_tag  # noqa: E402


@contract(f"{SE}:TermEncoder.encode_iri", serves=["C03", "C01", "C19", "C18", "C14"])
class _encode_iri:
    params = {"self": OBJ(TENC), "iri_string": STR, "iri": MSG("RdfIri")}
    result = ROWS_UPTO(2)
    modifies = ["self.names", "self.prefixes", "iri"]
    touches = ["iri"]
    tags = {"one-entry-row-per-miss": ["C19"]}

    def requires(e): return wf_te(e.self)

    def ensures(e):
        E, O = e.self, e.old.self
        rows = e.result
        en = E.prefixes.lookup.max_size > 0
        pk, nk = enc_keys(e.iri_string, en)
        return {
            "wf": wf_te(E),
            "concat": Ite(en, z3.Concat(pk, nk) == e.iri_string, nk == e.iri_string),
            "rows-account-for-table-changes": rows_account(O, E, rows.items),
            "one-entry-row-per-miss": n_rows(rows) == Ite(And(en, Not(od_has(O.prefixes.lookup.data, pk))), 1, 0)
                                                      + Ite(Not(od_has(O.names.lookup.data, nk)), 1, 0),
            "message-ids-denote-the-iri": iri_ids_denote(O.prefixes, O.names, E.prefixes, E.names, pk, nk, en,
                                                         e.iri.prefix_id, e.iri.name_id),
            "message-written": msg_written(e.iri),
            "lru-names": lru_step(O.names.lookup.data, E.names.lookup.data, E.names.lookup.max_size, 1),
            "lru-prefixes": lru_step(O.prefixes.lookup.data, E.prefixes.lookup.data, E.prefixes.lookup.max_size, 1),
            "sizes-fixed": And(E.names.lookup.max_size == O.names.lookup.max_size,
                               E.prefixes.lookup.max_size == O.prefixes.lookup.max_size),
            "datatypes-untouched": E.datatypes.T.tbl == O.datatypes.T.tbl,
        }


@contract(f"{SE}:TermEncoder.encode_default_graph", serves=["C03", "C01"])
class _encode_default_graph:
    params = {"self": OBJ(TENC), "g_default_graph": MSG("RdfDefaultGraph")}
    result = ROWS_UPTO(0)
    modifies = ["g_default_graph"]
    touches = ["g_default_graph"]

    def ensures(e): return {"no-rows": n_rows(e.result) == 0, "message-written": msg_written(e.g_default_graph)}


# ----------------------------------------------------------------------------------------------- encode_literal
def lit_needs_dt(dt: Any) -> Any:
    """datatype given, non-empty and not xsd:string (xsd:string is the plain literal)"""
    from pyvc.spec import is_none, opt_val
    return And(Not(is_none(dt)), opt_val(dt) != "", opt_val(dt) != XSD_STRING)


@contract(f"{SE}:TermEncoder.encode_literal", serves=["C03", "C01", "C19", "C18", "C20", "C05"])
class _encode_literal:
    params = {"self": OBJ(TENC), "lex": STR, "language": OPT(STR), "datatype": OPT(STR), "literal": MSG("RdfLiteral")}
    result = ROWS_UPTO(1)
    modifies = ["self.datatypes", "literal"]
    touches = ["literal"]
    tags = {"one-entry-row-per-miss": ["C19"]}

    def requires(e):
        # the literal message is a fresh sub-message of the statement being built (no kind chosen yet)
        return And(wf_te(e.self), which_unset(e.literal, "literalKind"))

    def raises(e):
        return {"JellyConformanceError": And(lit_needs_dt(e.datatype), e.self.datatypes.lookup.max_size == 0)}

    def ensures(e):
        from pyvc.spec import is_none, opt_val
        E, O = e.self, e.old.self
        D, oD = E.datatypes, O.datatypes
        L = e.literal
        need = lit_needs_dt(e.datatype)
        dt = opt_val(e.datatype)
        has_lang = And(Not(is_none(e.language)), opt_val(e.language) != "")
        return {
            "wf": wf_te(E),
            "lex": L.lex == e.lex,
            # oneof literalKind: the langtag wins when both are given (langtag is assigned first, datatype second
            # would clear it - so a datatype is only written when it has to be)
            "datatype-field": Implies(need, And(which_is(L, "datatype"), L.datatype == od_get(D.lookup.data, dt),
                                                L.datatype >= 1, od_touched(D.lookup.data, dt))),
            "langtag-field": Implies(And(has_lang, Not(need)), And(which_is(L, "langtag"), L.langtag == opt_val(e.language))),
            "plain": Implies(And(Not(has_lang), Not(need)), which_unset(L, "literalKind")),
            "rows-account-for-table-changes": rows_account(O, E, e.result.items),
            "one-entry-row-per-miss": n_rows(e.result) == Ite(And(need, Not(od_has(oD.lookup.data, dt))), 1, 0),
            "no-datatype-no-change": Implies(Not(need), And(od_unchanged(D.lookup.data, oD.lookup.data),
                                                           D.T.lr == oD.T.lr, D.T.la == oD.T.la)),
            "message-written": msg_written(L),
            "lru-datatypes": lru_step(oD.lookup.data, D.lookup.data, D.lookup.max_size, Ite(need, 1, 0)),
            "sizes-fixed": D.lookup.max_size == oD.lookup.max_size,
        }


# ---------------------------------------------------------------------------------------------- slot accessors
# get_iri_field / get_literal_field / get_triple_field return a sub-message *of the statement* (an alias, not a value)
# and set_bnode_field writes one string: three-line functions whose only specification is "the slot asked for".  They
# are executed in place; a wrong slot fails `term-in-slot` / `other-slots-untouched` of the callers.
for _n in ("get_iri_field", "get_literal_field", "get_triple_field", "set_bnode_field"):
    inline(f"{SE}:TermEncoder.{_n}")

inline(f"{SE}:TermEncoder.encode_spo")      # base implementation: two lines that raise NotImplementedError
inline(f"{SE}:TermEncoder.encode_graph")

# ------------------------------------------------------------------------ GenericSinkTermEncoder.encode_spo / graph
from .terms import GTerm, needs_dt, occ_d, occ_n  # noqa: E402

GS_SER = "pyjelly.integrations.generic.serialize"
ONEOF_OF_SLOT = {0: ("subject", "s"), 1: ("predicate", "p"), 2: ("object", "o")}

# which exception encoding a term ends in (0 none, 1 NotImplementedError, 2 JellyConformanceError); `dz` = the datatype
# table is disabled.  One-level unfolding is supplied where it is used; the nested case follows the encoding order s,p,o.
exc_of = z3.Function("exc_of", GTerm, z3.BoolSort(), z3.IntSort())


def exc_unfold(t: Any, dz: Any) -> Any:
    qs, qp, qo = GTerm.qs(t), GTerm.qp(t), GTerm.qo(t)
    return And(
        Implies(Or(GTerm.is_IRI(t), GTerm.is_BNode(t)), exc_of(t, dz) == 0),
        Implies(GTerm.is_Lit(t), exc_of(t, dz) == z3.If(And(needs_dt(t), dz), 2, 0)),
        Implies(Or(GTerm.is_Other(t), GTerm.is_DefaultGraph(t)), exc_of(t, dz) == 1),
        Implies(GTerm.is_QTriple(t), exc_of(t, dz) == z3.If(exc_of(qs, dz) != 0, exc_of(qs, dz),
                                                          z3.If(exc_of(qp, dz) != 0, exc_of(qp, dz), exc_of(qo, dz)))),
        exc_of(t, dz) >= 0, exc_of(t, dz) <= 2)


def slot_is_unset(st: Any, slot: Any) -> Any:
    return And(*[Implies(slot == j, which_unset(st, ONEOF_OF_SLOT[j][0])) for j in (0, 1, 2)])


def lit_fields_ok(L: Any, t: Any, D: Any) -> Any:
    """RdfLiteral message L carries literal term t (lex, langtag or datatype id resolved through encoder table D)"""
    has_lang = And(GTerm.has_lang(t), GTerm.lang(t) != "")
    need = needs_dt(t)
    return And(L.lex == GTerm.lex(t),
               Implies(need, And(which_is(L, "datatype"), L.datatype == od_get(D.lookup.data, GTerm.dt(t)), L.datatype >= 1,
                                 od_touched(D.lookup.data, GTerm.dt(t)))),
               Implies(And(has_lang, Not(need)), And(which_is(L, "langtag"), L.langtag == GTerm.lang(t))),
               Implies(And(Not(has_lang), Not(need)), which_unset(L, "literalKind")))


def other_slots_untouched(new: Any, old: Any, slot: Any, prefixes: tuple = ("s", "p", "o")) -> Any:
    """every oneof group other than the one of `slot` keeps its tag and its (flat) content"""
    out = []
    for j, (oneof, p) in ONEOF_OF_SLOT.items():
        same = And(which_tag(new, oneof) == which_tag(old, oneof),
                   getattr(new, f"{p}_bnode") == getattr(old, f"{p}_bnode"),
                   getattr(new, f"{p}_iri").prefix_id == getattr(old, f"{p}_iri").prefix_id,
                   getattr(new, f"{p}_iri").name_id == getattr(old, f"{p}_iri").name_id,
                   getattr(new, f"{p}_literal").lex == getattr(old, f"{p}_literal").lex,
                   getattr(new, f"{p}_literal").langtag == getattr(old, f"{p}_literal").langtag,
                   getattr(new, f"{p}_literal").datatype == getattr(old, f"{p}_literal").datatype,
                   which_tag(getattr(new, f"{p}_literal"), "literalKind") == which_tag(getattr(old, f"{p}_literal"), "literalKind"))
        out.append(Implies(slot != j, same))
    return And(*out)


def _which_eq(a: Any, b: Any) -> Any:
    return a == b


def term_in_slot(e: Any, st: Any, slot: Any, t: Any, E: Any, O: Any) -> Any:
    """the oneof group of `slot` in statement message `st` now carries term `t`"""
    en = E.prefixes.lookup.max_size > 0
    pk, nk = enc_keys(GTerm.iri(t), en)
    out = []
    for j, (oneof, p) in ONEOF_OF_SLOT.items():
        iri = getattr(st, f"{p}_iri")
        lit = getattr(st, f"{p}_literal")
        out.append(Implies(slot == j, And(
            Implies(GTerm.is_IRI(t), And(which_is(st, f"{p}_iri"),
                                         iri_ids_denote(O.prefixes, O.names, E.prefixes, E.names, pk, nk, en, iri.prefix_id, iri.name_id),
                                         Ite(en, z3.Concat(pk, nk) == GTerm.iri(t), nk == GTerm.iri(t)))),
            Implies(GTerm.is_BNode(t), And(which_is(st, f"{p}_bnode"), getattr(st, f"{p}_bnode") == GTerm.ident(t))),
            Implies(GTerm.is_Lit(t), And(which_is(st, f"{p}_literal"), lit_fields_ok(lit, t, E.datatypes))),
            Implies(GTerm.is_QTriple(t), which_is(st, f"{p}_triple_term")))))
    return And(*out)


def lru_all(O: Any, E: Any, t: Any) -> dict:
    en = E.prefixes.lookup.max_size > 0
    return {
        "lru-names": lru_step(O.names.lookup.data, E.names.lookup.data, E.names.lookup.max_size, occ_n(t)),
        "lru-prefixes": lru_step(O.prefixes.lookup.data, E.prefixes.lookup.data, E.prefixes.lookup.max_size, Ite(en, occ_n(t), 0)),
        "lru-datatypes": lru_step(O.datatypes.lookup.data, E.datatypes.lookup.data, E.datatypes.lookup.max_size, occ_d(t)),
        "sizes-fixed": And(E.names.lookup.max_size == O.names.lookup.max_size,
                           E.prefixes.lookup.max_size == O.prefixes.lookup.max_size,
                           E.datatypes.lookup.max_size == O.datatypes.lookup.max_size),
    }


@contract(f"{GS_SER}:GenericSinkTermEncoder.encode_spo", serves=["C03", "C01", "C19", "C18", "C20", "C15"])
class _generic_encode_spo:
    """One term of a statement into its slot.  Flat terms (IRI, blank node, literal) are proved to be *denoted* by what
    is written (ids resolve to the term's strings); for a quoted triple this contract carries completeness, the
    entry-row accounting and the LRU accounting, the nested denotation being covered by the bounded nets only."""
    params = {"self": OBJ(GENC), "term": ADTS("gterm"), "slot": INT, "statement": MSG("RdfTriple")}
    result = ROWS
    modifies = ["self.names", "self.prefixes", "self.datatypes", "statement"]

    def requires(e):
        dz = e.self.datatypes.lookup.max_size == 0
        return And(wf_te(e.self), e.slot >= 0, e.slot <= 2, slot_is_unset(e.statement, e.slot), exc_unfold(e.term, dz))

    def raises(e):
        dz = e.self.datatypes.lookup.max_size == 0
        return {"NotImplementedError": exc_of(e.term, dz) == 1, "JellyConformanceError": exc_of(e.term, dz) == 2}

    def on_raise(e):
        return {"tables-still-well-formed": wf_te(e.self)}

    def ensures(e):
        E, O = e.self, e.old.self
        out = {"wf": wf_te(E),
               "rows-account-for-table-changes": rows_account(O, E, e.result.items),
               "term-in-slot": term_in_slot(e, e.statement, e.slot, e.term, E, O),
               "other-slots-untouched": other_slots_untouched(e.statement, e.old.statement, e.slot),
               "message-written": msg_written(e.statement)}
        out.update(lru_all(O, E, e.term))
        return out


@contract(f"{SE}:TermEncoder.encode_quoted_triple", serves=["C03", "C01", "C18", "C20"])
class _encode_quoted_triple:
    params = {"self": OBJ(GENC), "terms": ADTS("gterm"), "quoted_statement": MSG("RdfTriple")}
    result = ROWS
    modifies = ["self.names", "self.prefixes", "self.datatypes", "quoted_statement"]

    def requires(e):
        dz = e.self.datatypes.lookup.max_size == 0
        t = e.terms
        return And(wf_te(e.self), GTerm.is_QTriple(t), exc_unfold(t, dz),
                   exc_unfold(GTerm.qs(t), dz), exc_unfold(GTerm.qp(t), dz), exc_unfold(GTerm.qo(t), dz),
                   which_unset(e.quoted_statement, "subject"), which_unset(e.quoted_statement, "predicate"),
                   which_unset(e.quoted_statement, "object"))

    def raises(e):
        dz = e.self.datatypes.lookup.max_size == 0
        return {"NotImplementedError": exc_of(e.terms, dz) == 1, "JellyConformanceError": exc_of(e.terms, dz) == 2}

    def on_raise(e):
        return {"tables-still-well-formed": wf_te(e.self)}

    def ensures(e):
        E, O = e.self, e.old.self
        q = e.quoted_statement
        out = {"wf": wf_te(E),
               "rows-account-for-table-changes": rows_account(O, E, e.result.items),
               # C03: quoted triples are complete - no repeated-term marker inside
               "quoted-triple-complete": And(Not(which_unset(q, "subject")), Not(which_unset(q, "predicate")),
                                             Not(which_unset(q, "object"))),
               "message-written": msg_written(q)}
        out.update(lru_all(O, E, e.terms))
        return out
