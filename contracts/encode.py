"""Contracts for pyjelly/serialize/encode.py: term level (C03, C19, C01, C18, C20)."""
from __future__ import annotations

from typing import Any

import z3

from pyvc.contract import (ADTS, BOOL, INT, NEW, NEWOBJ, OBJ, OPT, ROWS, ROWS_UPTO, STR, Sort, TUP, contract, inline, lemma, shape)
from pyvc.spec import (And, Iff, Implies, Ite, Not, Or, od_get, od_has, od_len, od_stable, od_touched, od_unchanged, sel,
                       which_is, which_unset)

from .lookup import ENC as LENC
from .lookup import R_enc, wf_enc
from .options import PRESET
from .rows import rows_account
from .spec_tables import spec_assign
from .terms import XSD_STRING

SE = "pyjelly.serialize.encode"
TENC = f"{SE}:TermEncoder"
GENC = "pyjelly.integrations.generic.serialize:GenericSinkTermEncoder"

_te_fields = dict(lookup_preset=OBJ(PRESET), names=OBJ(LENC), prefixes=OBJ(LENC), datatypes=OBJ(LENC))
shape(TENC, fields=_te_fields)
shape(GENC, fields=_te_fields)
RENC = "pyjelly.integrations.rdflib.serialize:RDFLibTermEncoder"   # verified against the same term-level contract (rdflib_serialize.py)
shape(RENC, fields=_te_fields)


def encoder_universe(E: Any, ts: list) -> Any:
    """terms the encoder's integration can be handed at all: rdflib has no quoted-triple term"""
    if E.cls.name == "RDFLibTermEncoder":
        return And(*[Not(GTerm.is_QTriple(t)) for t in ts])
    return True


U32 = 2 ** 32


# ---------------------------------------------------------------- specification of the IRI split (property C19: the
# prefix ends at the last '#', else at the last '/', else it is empty); for C03/C01 any split with prefix+name == iri
# would do, which is why only the `concat` clause carries those tags.
def spec_split(iri: Any) -> tuple[Any, Any]:
    i1 = z3.LastIndexOf(iri, z3.StringVal("#"))
    i2 = z3.LastIndexOf(iri, z3.StringVal("/"))
    n = z3.Length(iri)

    def cut(i: Any, sep: str) -> tuple[Any, Any]:
        return z3.Concat(z3.SubString(iri, 0, i), z3.StringVal(sep)), z3.SubString(iri, i + 1, n - i - 1)
    p1, n1 = cut(i1, "#")
    p2, n2 = cut(i2, "/")
    return (z3.If(i1 >= 0, p1, z3.If(i2 >= 0, p2, z3.StringVal(""))),
            z3.If(i1 >= 0, n1, z3.If(i2 >= 0, n2, iri)))


@contract(f"{SE}:split_iri", serves=["C03", "C01", "C19"])
class _split_iri:
    params = {"iri_string": STR}
    result = TUP(STR, STR)
    tags = {"split-at-last-separator": ["C19"]}

    def ensures(e):
        p, n = e.result.items
        sp, sn = spec_split(e.iri_string)
        return {"concat": z3.Concat(p, n) == e.iri_string,
                "split-at-last-separator": And(p == sp, n == sn)}


# ------------------------------------------------------------------------------------------------ TermEncoder state
def wf_te(E: Any) -> Any:
    return And(wf_enc(E.names), R_enc(E.names), wf_enc(E.prefixes), R_enc(E.prefixes), wf_enc(E.datatypes),
               R_enc(E.datatypes), E.names.lookup.max_size >= 1, E.names.lookup.max_size < U32,
               E.prefixes.lookup.max_size < U32, E.datatypes.lookup.max_size < U32)


def enc_keys(iri: Any, prefix_enabled: Any) -> tuple[Any, Any]:
    sp, sn = spec_split(iri)
    return sp, Ite(prefix_enabled, sn, iri)


def name_eff(lr: Any, ident: Any) -> Any:
    return Ite(ident == 0, lr + 1, ident)


def prefix_eff(lr: Any, ident: Any) -> Any:
    return Ite(ident == 0, lr, ident)


def n_rows(rows: Any) -> Any:
    return len(list(rows.items))


def iri_ids_denote(oP: Any, oN: Any, P: Any, N: Any, pk: Any, nk: Any, en: Any, pid: Any, nid: Any) -> Any:
    """(pid, nid) written now resolve - by the spec's delta rules from the old last-referenced ids - to the indices
    under which pk / nk are resident and *used since the mark*; the encoder's ghost last-referenced ids follow."""
    ne = name_eff(oN.T.lr, nid)
    pe = prefix_eff(oP.T.lr, pid)
    name_ok = And(0 <= nid, nid <= N.lookup.max_size, 1 <= ne, ne <= N.lookup.max_size,
                  od_touched(N.lookup.data, nk), od_get(N.lookup.data, nk) == ne, N.T.lr == ne)
    prefix_on = And(0 <= pid, pid <= P.lookup.max_size,
                    Or(And(pe == 0, pk == "", P.T.lr == 0),
                       And(1 <= pe, pe <= P.lookup.max_size, od_touched(P.lookup.data, pk), od_get(P.lookup.data, pk) == pe,
                           P.T.lr == pe)))
    prefix_off = And(pid == 0, od_unchanged(P.lookup.data, oP.lookup.data), P.T.lr == oP.T.lr)
    return And(name_ok, Ite(en, prefix_on, prefix_off))


def enc_unchanged(A: Any, B: Any) -> Any:
    """one LookupEncoder (with its ghost table) is exactly as before"""
    return And(od_unchanged(A.lookup.data, B.lookup.data), A.last_assigned_index == B.last_assigned_index,
               A.last_reused_index == B.last_reused_index, A.T.tbl == B.T.tbl, A.T.dfn == B.T.dfn, A.T.la == B.T.la,
               A.T.lr == B.T.lr, A.T.size == B.T.size, A.lookup.key_at == B.lookup.key_at,
               A.lookup._evicting == B.lookup._evicting)


def lru_step(o: Any, d: Any, size: Any, by: Any) -> Any:
    """ghost LRU accounting of one table over a call that uses at most `by` keys"""
    return And(d.mark == o.mark, d.t <= o.t + by, Implies(o.t + by <= size, od_stable(o, d)))


@contract(f"{SE}:TermEncoder.encode_iri_indices", serves=["C03", "C01", "C19", "C18", "C05", "C02"])
class _encode_iri_indices:
    params = {"self": OBJ(TENC), "iri_string": STR}
    result = TUP(ROWS_UPTO(2), INT, INT)
    modifies = ["self.names", "self.prefixes"]
    tags = {"one-entry-row-per-miss": ["C19"]}

    def requires(e): return wf_te(e.self)

    def ensures(e):
        E, O = e.self, e.old.self
        rows, pid, nid = e.result.items
        en = E.prefixes.lookup.max_size > 0
        pk, nk = enc_keys(e.iri_string, en)
        return {
            "wf": wf_te(E),
            "concat": Ite(en, z3.Concat(pk, nk) == e.iri_string, nk == e.iri_string),
            # C03: read as lookup entries by the spec, the rows are exactly what changed the (ghost) spec tables
            "rows-account-for-table-changes": rows_account(O, E, rows.items),
            # C19a: an entry row is sent only for a string that was not resident
            "one-entry-row-per-miss": n_rows(rows) == Ite(And(en, Not(od_has(O.prefixes.lookup.data, pk))), 1, 0)
                                                      + Ite(Not(od_has(O.names.lookup.data, nk)), 1, 0),
            "datatypes-untouched": And(E.datatypes.T.tbl == O.datatypes.T.tbl),
            "ids-denote-the-iri": iri_ids_denote(O.prefixes, O.names, E.prefixes, E.names, pk, nk, en, pid, nid),
            "lru-names": lru_step(O.names.lookup.data, E.names.lookup.data, E.names.lookup.max_size, 1),
            "lru-prefixes": lru_step(O.prefixes.lookup.data, E.prefixes.lookup.data, E.prefixes.lookup.max_size, 1),
            "sizes-fixed": And(E.names.lookup.max_size == O.names.lookup.max_size,
                               E.prefixes.lookup.max_size == O.prefixes.lookup.max_size),
        }


# --------------------------------------------------------------------------------------------------- encode_iri
from pyvc.contract import MSG  # noqa: E402
from pyvc.spec import msg_written, which_tag  # noqa: E402


@contract(f"{SE}:TermEncoder.encode_iri", serves=["C03", "C01", "C19", "C18", "C14", "C02"])
class _encode_iri:
    params = {"self": OBJ(TENC), "iri_string": STR, "iri": MSG("RdfIri")}
    result = ROWS_UPTO(2)
    modifies = ["self.names", "self.prefixes", "iri"]
    touches = ["iri"]
    tags = {"one-entry-row-per-miss": ["C19"]}

    def requires(e): return wf_te(e.self)

    def ensures(e):
        E, O = e.self, e.old.self
        rows = e.result
        en = E.prefixes.lookup.max_size > 0
        pk, nk = enc_keys(e.iri_string, en)
        return {
            "wf": wf_te(E),
            "concat": Ite(en, z3.Concat(pk, nk) == e.iri_string, nk == e.iri_string),
            "rows-account-for-table-changes": rows_account(O, E, rows.items),
            "one-entry-row-per-miss": n_rows(rows) == Ite(And(en, Not(od_has(O.prefixes.lookup.data, pk))), 1, 0)
                                                      + Ite(Not(od_has(O.names.lookup.data, nk)), 1, 0),
            "message-ids-denote-the-iri": iri_ids_denote(O.prefixes, O.names, E.prefixes, E.names, pk, nk, en,
                                                         e.iri.prefix_id, e.iri.name_id),
            "message-written": msg_written(e.iri),
            "lru-names": lru_step(O.names.lookup.data, E.names.lookup.data, E.names.lookup.max_size, 1),
            "lru-prefixes": lru_step(O.prefixes.lookup.data, E.prefixes.lookup.data, E.prefixes.lookup.max_size, 1),
            "sizes-fixed": And(E.names.lookup.max_size == O.names.lookup.max_size,
                               E.prefixes.lookup.max_size == O.prefixes.lookup.max_size),
            "datatypes-untouched": E.datatypes.T.tbl == O.datatypes.T.tbl,
        }


@contract(f"{SE}:TermEncoder.encode_default_graph", serves=["C03", "C01"])
class _encode_default_graph:
    params = {"self": OBJ(TENC), "g_default_graph": MSG("RdfDefaultGraph")}
    result = ROWS_UPTO(0)
    modifies = ["g_default_graph"]
    touches = ["g_default_graph"]

    def ensures(e): return {"no-rows": n_rows(e.result) == 0, "message-written": msg_written(e.g_default_graph)}


# ----------------------------------------------------------------------------------------------- encode_literal
def lit_needs_dt(dt: Any) -> Any:
    """datatype given, non-empty and not xsd:string (xsd:string is the plain literal)"""
    from pyvc.spec import is_none, opt_val
    return And(Not(is_none(dt)), opt_val(dt) != "", opt_val(dt) != XSD_STRING)


@contract(f"{SE}:TermEncoder.encode_literal", serves=["C03", "C01", "C19", "C18", "C20", "C05", "C02"])
class _encode_literal:
    params = {"self": OBJ(TENC), "lex": STR, "language": OPT(STR), "datatype": OPT(STR), "literal": MSG("RdfLiteral")}
    result = ROWS_UPTO(1)
    modifies = ["self.datatypes", "literal"]
    touches = ["literal"]
    tags = {"one-entry-row-per-miss": ["C19"]}

    def requires(e):
        # the literal message is a fresh sub-message of the statement being built (no kind chosen yet)
        return And(wf_te(e.self), which_unset(e.literal, "literalKind"))

    def raises(e):
        return {"JellyConformanceError": And(lit_needs_dt(e.datatype), e.self.datatypes.lookup.max_size == 0)}

    def ensures(e):
        from pyvc.spec import is_none, opt_val
        E, O = e.self, e.old.self
        D, oD = E.datatypes, O.datatypes
        L = e.literal
        need = lit_needs_dt(e.datatype)
        dt = opt_val(e.datatype)
        has_lang = And(Not(is_none(e.language)), opt_val(e.language) != "")
        return {
            "wf": wf_te(E),
            "lex": L.lex == e.lex,
            # oneof literalKind: the langtag wins when both are given (langtag is assigned first, datatype second
            # would clear it - so a datatype is only written when it has to be)
            "datatype-field": Implies(need, And(which_is(L, "datatype"), L.datatype == od_get(D.lookup.data, dt),
                                                L.datatype >= 1, od_touched(D.lookup.data, dt))),
            "langtag-field": Implies(And(has_lang, Not(need)), And(which_is(L, "langtag"), L.langtag == opt_val(e.language))),
            "plain": Implies(And(Not(has_lang), Not(need)), which_unset(L, "literalKind")),
            "rows-account-for-table-changes": rows_account(O, E, e.result.items),
            "one-entry-row-per-miss": n_rows(e.result) == Ite(And(need, Not(od_has(oD.lookup.data, dt))), 1, 0),
            "no-datatype-no-change": Implies(Not(need), enc_unchanged(D, oD)),
            "message-written": msg_written(L),
            "lru-datatypes": lru_step(oD.lookup.data, D.lookup.data, D.lookup.max_size, Ite(need, 1, 0)),
            "sizes-fixed": D.lookup.max_size == oD.lookup.max_size,
        }


# ---------------------------------------------------------------------------------------------- slot accessors
# get_iri_field / get_literal_field / get_triple_field return a sub-message *of the statement* (an alias, not a value)
# and set_bnode_field writes one string: three-line functions whose only specification is "the slot asked for".  They
# are executed in place; a wrong slot fails `term-in-slot` / `other-slots-untouched` of the callers.
for _n in ("get_iri_field", "get_literal_field", "get_triple_field", "set_bnode_field"):
    inline(f"{SE}:TermEncoder.{_n}")

inline(f"{SE}:TermEncoder.encode_spo")      # base implementation: two lines that raise NotImplementedError
inline(f"{SE}:TermEncoder.encode_graph")

# ------------------------------------------------------------------------ GenericSinkTermEncoder.encode_spo / graph
from .terms import GTerm, exc_of, needs_dt, occ_d, occ_n  # noqa: E402

GS_SER = "pyjelly.integrations.generic.serialize"
ONEOF_OF_SLOT = {0: ("subject", "s"), 1: ("predicate", "p"), 2: ("object", "o")}

def slot_is_unset(st: Any, slot: Any) -> Any:
    return And(*[Implies(slot == j, which_unset(st, ONEOF_OF_SLOT[j][0])) for j in (0, 1, 2)])


def lit_fields_ok(L: Any, t: Any, D: Any) -> Any:
    """RdfLiteral message L carries literal term t (lex, langtag or datatype id resolved through encoder table D)"""
    has_lang = And(GTerm.has_lang(t), GTerm.lang(t) != "")
    need = needs_dt(t)
    return And(L.lex == GTerm.lex(t),
               Implies(need, And(which_is(L, "datatype"), L.datatype == od_get(D.lookup.data, GTerm.dt(t)), L.datatype >= 1,
                                 od_touched(D.lookup.data, GTerm.dt(t)))),
               Implies(And(has_lang, Not(need)), And(which_is(L, "langtag"), L.langtag == GTerm.lang(t))),
               Implies(And(Not(has_lang), Not(need)), which_unset(L, "literalKind")))


def other_slots_untouched(new: Any, old: Any, slot: Any, prefixes: tuple = ("s", "p", "o")) -> Any:
    """every oneof group other than the one of `slot` keeps its tag and its (flat) content"""
    out = []
    for j, (oneof, p) in ONEOF_OF_SLOT.items():
        if not new._obj().has("$which:" + oneof):
            continue          # RdfGraphStart: a graph group only
        same = And(which_tag(new, oneof) == which_tag(old, oneof),
                   getattr(new, f"{p}_bnode") == getattr(old, f"{p}_bnode"),
                   _cf(new, f"{p}_iri", "prefix_id", 0) == _cf(old, f"{p}_iri", "prefix_id", 0),
                   _cf(new, f"{p}_iri", "name_id", 0) == _cf(old, f"{p}_iri", "name_id", 0),
                   _cf(new, f"{p}_literal", "lex", "") == _cf(old, f"{p}_literal", "lex", ""),
                   _cf(new, f"{p}_literal", "langtag", "") == _cf(old, f"{p}_literal", "langtag", ""),
                   _cf(new, f"{p}_literal", "datatype", 0) == _cf(old, f"{p}_literal", "datatype", 0),
                   _ctag(new, f"{p}_literal", "literalKind") == _ctag(old, f"{p}_literal", "literalKind"))
        out.append(Implies(slot != j, same))
    return And(*out)


def _cf(m: Any, child: str, field: str, default: Any) -> Any:
    """field of a sub-message, or its proto3 default when the sub-message object was never materialised"""
    c = getattr(m, child)
    return default if c is None else getattr(c, field)


def _ctag(m: Any, child: str, oneof: str) -> Any:
    c = getattr(m, child)
    return z3.IntVal(0) if c is None else which_tag(c, oneof)


def graph_group_untouched(new: Any, old: Any) -> Any:
    """for an RdfQuad statement: the graph oneof group is exactly as before (s, p, o encoding never touches it)"""
    if new.cls != "RdfQuad":
        return True
    return And(which_tag(new, "graph") == which_tag(old, "graph"), new.g_bnode == old.g_bnode,
               _cf(new, "g_iri", "prefix_id", 0) == _cf(old, "g_iri", "prefix_id", 0),
               _cf(new, "g_iri", "name_id", 0) == _cf(old, "g_iri", "name_id", 0),
               _cf(new, "g_literal", "lex", "") == _cf(old, "g_literal", "lex", ""),
               _cf(new, "g_literal", "langtag", "") == _cf(old, "g_literal", "langtag", ""),
               _cf(new, "g_literal", "datatype", 0) == _cf(old, "g_literal", "datatype", 0),
               _ctag(new, "g_literal", "literalKind") == _ctag(old, "g_literal", "literalKind"))


def term_in_slot(e: Any, st: Any, slot: Any, t: Any, E: Any, O: Any) -> Any:
    """the oneof group of `slot` in statement message `st` now carries term `t`"""
    en = E.prefixes.lookup.max_size > 0
    pk, nk = enc_keys(GTerm.iri(t), en)
    out = []
    for j, (oneof, p) in ONEOF_OF_SLOT.items():
        iri = getattr(st, f"{p}_iri")
        lit = getattr(st, f"{p}_literal")
        out.append(Implies(slot == j, And(
            Implies(GTerm.is_IRI(t), And(which_is(st, f"{p}_iri"),
                                         iri_ids_denote(O.prefixes, O.names, E.prefixes, E.names, pk, nk, en, iri.prefix_id, iri.name_id),
                                         Ite(en, z3.Concat(pk, nk) == GTerm.iri(t), nk == GTerm.iri(t)))),
            Implies(GTerm.is_BNode(t), And(which_is(st, f"{p}_bnode"), getattr(st, f"{p}_bnode") == GTerm.ident(t))),
            Implies(GTerm.is_Lit(t), And(which_is(st, f"{p}_literal"), lit_fields_ok(lit, t, E.datatypes))),
            Implies(GTerm.is_QTriple(t), which_is(st, f"{p}_triple_term")))))
    return And(*out)


def lru_all(O: Any, E: Any, t: Any) -> dict:
    en = E.prefixes.lookup.max_size > 0
    return {
        # tables a term does not use are not touched at all (needed to chain the delta bases through a statement)
        "unused-tables-untouched": And(
            Implies(Or(GTerm.is_BNode(t), GTerm.is_Lit(t)), And(enc_unchanged(E.names, O.names), enc_unchanged(E.prefixes, O.prefixes))),
            Implies(Or(GTerm.is_IRI(t), GTerm.is_BNode(t), And(GTerm.is_Lit(t), Not(needs_dt(t)))), enc_unchanged(E.datatypes, O.datatypes))),
        "lru-names": lru_step(O.names.lookup.data, E.names.lookup.data, E.names.lookup.max_size, occ_n(t)),
        "lru-prefixes": lru_step(O.prefixes.lookup.data, E.prefixes.lookup.data, E.prefixes.lookup.max_size, Ite(en, occ_n(t), 0)),
        "lru-datatypes": lru_step(O.datatypes.lookup.data, E.datatypes.lookup.data, E.datatypes.lookup.max_size, occ_d(t)),
        "sizes-fixed": And(E.names.lookup.max_size == O.names.lookup.max_size,
                           E.prefixes.lookup.max_size == O.prefixes.lookup.max_size,
                           E.datatypes.lookup.max_size == O.datatypes.lookup.max_size),
    }


@contract(f"{GS_SER}:GenericSinkTermEncoder.encode_spo", serves=["C03", "C01", "C19", "C18", "C20", "C15"])
class _generic_encode_spo:
    """One term of a statement into its slot.  Flat terms (IRI, blank node, literal) are proved to be *denoted* by what
    is written (ids resolve to the term's strings); for a quoted triple this contract carries completeness, the
    entry-row accounting and the LRU accounting, the nested denotation being covered by the bounded nets only."""
    params = {"self": OBJ(GENC), "term": ADTS("gterm"), "slot": INT, "statement": MSG("RdfTriple")}
    result = ROWS
    modifies = ["self.names", "self.prefixes", "self.datatypes", "statement"]

    def requires(e):
        dz = e.self.datatypes.lookup.max_size == 0
        return And(wf_te(e.self), e.slot >= 0, e.slot <= 2, slot_is_unset(e.statement, e.slot))

    def raises(e):
        dz = e.self.datatypes.lookup.max_size == 0
        return {"NotImplementedError": exc_of(e.term, dz) == 1, "JellyConformanceError": exc_of(e.term, dz) == 2}

    def on_raise(e):
        return {"tables-still-well-formed": wf_te(e.self)}

    def case_split(e):
        # callers reason about the delta bases, which only IRIs move: fork on that instead of leaving it to the solver
        return {"iri": GTerm.is_IRI(e.term), "not-iri": Not(GTerm.is_IRI(e.term))}

    def ensures(e):
        E, O = e.self, e.old.self
        out = {"wf": wf_te(E),
               "rows-account-for-table-changes": rows_account(O, E, e.result.items),
               "term-in-slot": term_in_slot(e, e.statement, e.slot, e.term, E, O),
               "other-slots-untouched": other_slots_untouched(e.statement, e.old.statement, e.slot),
               "graph-group-untouched": graph_group_untouched(e.statement, e.old.statement),
               "message-written": msg_written(e.statement)}
        out.update(lru_all(O, E, e.term))
        return out


@contract(f"{SE}:TermEncoder.encode_quoted_triple", serves=["C03", "C01", "C18", "C20"])
class _encode_quoted_triple:
    params = {"self": OBJ(GENC), "terms": ADTS("gterm"), "quoted_statement": MSG("RdfTriple")}
    result = ROWS
    modifies = ["self.names", "self.prefixes", "self.datatypes", "quoted_statement"]
    touches = ["quoted_statement"]

    def requires(e):
        dz = e.self.datatypes.lookup.max_size == 0
        t = e.terms
        return And(wf_te(e.self), GTerm.is_QTriple(t),
                   which_unset(e.quoted_statement, "subject"), which_unset(e.quoted_statement, "predicate"),
                   which_unset(e.quoted_statement, "object"))

    def raises(e):
        dz = e.self.datatypes.lookup.max_size == 0
        return {"NotImplementedError": exc_of(e.terms, dz) == 1, "JellyConformanceError": exc_of(e.terms, dz) == 2}

    def on_raise(e):
        return {"tables-still-well-formed": wf_te(e.self)}

    def ensures(e):
        E, O = e.self, e.old.self
        q = e.quoted_statement
        out = {"wf": wf_te(E),
               "rows-account-for-table-changes": rows_account(O, E, e.result.items),
               # C03: quoted triples are complete - no repeated-term marker inside
               "quoted-triple-complete": And(Not(which_unset(q, "subject")), Not(which_unset(q, "predicate")),
                                             Not(which_unset(q, "object"))),
               "message-written": msg_written(q)}
        out.update(lru_all(O, E, e.terms))
        return out


def graph_in_slot(st: Any, t: Any, E: Any, O: Any) -> Any:
    en = E.prefixes.lookup.max_size > 0
    pk, nk = enc_keys(GTerm.iri(t), en)
    return And(
        Implies(GTerm.is_DefaultGraph(t), which_is(st, "g_default_graph")),
        Implies(GTerm.is_IRI(t), And(which_is(st, "g_iri"),
                                     iri_ids_denote(O.prefixes, O.names, E.prefixes, E.names, pk, nk, en, st.g_iri.prefix_id, st.g_iri.name_id),
                                     Ite(en, z3.Concat(pk, nk) == GTerm.iri(t), nk == GTerm.iri(t)))),
        Implies(GTerm.is_BNode(t), And(which_is(st, "g_bnode"), st.g_bnode == GTerm.ident(t))),
        Implies(GTerm.is_Lit(t), And(which_is(st, "g_literal"), lit_fields_ok(st.g_literal, t, E.datatypes))))


def graph_exc(t: Any, dz: Any) -> Any:
    """0 none, 1 NotImplementedError, 2 JellyConformanceError for a graph-name term"""
    return z3.If(Or(GTerm.is_Other(t), GTerm.is_QTriple(t)), 1, z3.If(And(GTerm.is_Lit(t), needs_dt(t), dz), 2, 0))


def graph_exc_of(E: Any, t: Any, dz: Any) -> Any:
    """graph-name rejection by integration: rdflib's encoder takes the default-graph id, URIRefs and BNodes only"""
    if E.cls.name == "RDFLibTermEncoder":
        return z3.If(Or(GTerm.is_IRI(t), GTerm.is_BNode(t)), 0, 1)
    return graph_exc(t, dz)


def graph_occ_n(t: Any) -> Any:
    return z3.If(GTerm.is_IRI(t), 1, 0)


def graph_occ_d(t: Any) -> Any:
    return z3.If(And(GTerm.is_Lit(t), needs_dt(t)), 1, 0)


@contract(f"{GS_SER}:GenericSinkTermEncoder.encode_graph", serves=["C03", "C01", "C19", "C18", "C20", "C15"])
class _generic_encode_graph:
    params = {"self": OBJ(GENC), "term": ADTS("gterm"), "statement": MSG("RdfQuad")}
    result = ROWS_UPTO(2)
    modifies = ["self.names", "self.prefixes", "self.datatypes", "statement"]

    def requires(e):
        return And(wf_te(e.self), which_unset(e.statement, "graph"))

    def raises(e):
        dz = e.self.datatypes.lookup.max_size == 0
        return {"NotImplementedError": graph_exc(e.term, dz) == 1, "JellyConformanceError": graph_exc(e.term, dz) == 2}

    def ensures(e):
        E, O = e.self, e.old.self
        en = E.prefixes.lookup.max_size > 0
        t = e.term
        return {"wf": wf_te(E),
                "rows-account-for-table-changes": rows_account(O, E, e.result.items),
                "graph-in-slot": graph_in_slot(e.statement, t, E, O),
                "spo-slots-untouched": other_slots_untouched(e.statement, e.old.statement, z3.IntVal(-1)),
                "message-written": msg_written(e.statement),
                "lru-names": lru_step(O.names.lookup.data, E.names.lookup.data, E.names.lookup.max_size, graph_occ_n(t)),
                "lru-prefixes": lru_step(O.prefixes.lookup.data, E.prefixes.lookup.data, E.prefixes.lookup.max_size, Ite(en, graph_occ_n(t), 0)),
                "lru-datatypes": lru_step(O.datatypes.lookup.data, E.datatypes.lookup.data, E.datatypes.lookup.max_size, graph_occ_d(t)),
                "sizes-fixed": And(E.names.lookup.max_size == O.names.lookup.max_size,
                                   E.prefixes.lookup.max_size == O.prefixes.lookup.max_size,
                                   E.datatypes.lookup.max_size == O.datatypes.lookup.max_size)}


# =========================================================================================== statement level
from pyvc.contract import ITER, LISTOF  # noqa: E402
from pyvc.spec import is_none, opt_val  # noqa: E402
from pyvc.values import Seg  # noqa: E402

SLOTS3 = (0, 1, 2)


def _speq(a: Any, b: Any) -> Any:
    from pyvc.spec import eq
    return eq(a, b)


def rep_equal(rep_item: Any, t: Any) -> Any:
    """repeated_terms[slot] == term (None never equals a term)"""
    return And(Not(is_none(rep_item)), opt_val(rep_item) == t)


def enc_occ(rep: list, terms: list, which: str) -> Any:
    """table uses of the terms that are actually encoded (not elided)"""
    f = occ_n if which == "n" else occ_d
    return sum([z3.If(rep_equal(r, t), 0, f(t)) for r, t in zip(rep, terms)], z3.IntVal(0))


def first_exc(rep: list, terms: list, dz: Any) -> Any:
    out = z3.IntVal(0)
    for r, t in reversed(list(zip(rep, terms))):
        e = z3.If(rep_equal(r, t), 0, exc_of(t, dz))
        out = z3.If(e != 0, e, out)
    return out


def room_for(E: Any, n_uses: Any, d_uses: Any) -> Any:
    """C01's premise in ghost form: every enabled table can take the uses this statement still has to make"""
    N, P, D = E.names.lookup, E.prefixes.lookup, E.datatypes.lookup
    return And(N.data.t + n_uses <= N.max_size,
               Or(P.max_size == 0, P.data.t + n_uses <= P.max_size),
               Or(d_uses == 0, D.max_size == 0, D.data.t + d_uses <= D.max_size))


def flat(t: Any) -> Any:
    return Or(GTerm.is_IRI(t), GTerm.is_BNode(t), GTerm.is_Lit(t))


def decode_spo_spec(st: Any, E: Any, lrP0: Any, lrN0: Any, rep: list, terms: list, prefixes: tuple = ("s", "p", "o")) -> dict:
    """What a spec decoder makes of the statement message `st` in the *final* tables of E (ghost spec tables), starting
    from the last-referenced ids (lrP0, lrN0) and the previous terms `rep`: per slot either 'unset -> previous term' or
    the term decoded by the delta rules.  Returns clauses saying this equals the input terms (flat terms; the chain is
    only followed while no quoted triple has been encoded)."""
    TP, TN, TD = E.prefixes.T, E.names.T, E.datatypes.T
    en = E.prefixes.lookup.max_size > 0
    lrP, lrN = lrP0, lrN0
    chain_ok: Any = True
    out = {}
    for j, (p, r, t) in enumerate(zip(prefixes, rep, terms)):
        oneof = {"s": "subject", "p": "predicate", "o": "object"}[p]
        elided = rep_equal(r, t)
        iri = getattr(st, f"{p}_iri")
        lit = getattr(st, f"{p}_literal")
        ne = name_eff(lrN, iri.name_id)
        pe = prefix_eff(lrP, iri.prefix_id)
        name_v = sel(TN.tbl, ne)
        prefix_v = Ite(And(en, pe != 0), sel(TP.tbl, pe), z3.StringVal(""))
        pk, nk = enc_keys(GTerm.iri(t), en)
        iri_ok = And(which_is(st, f"{p}_iri"), 1 <= ne, ne <= TN.size, sel(TN.dfn, ne),
                     Implies(And(en, pe != 0), And(1 <= pe, pe <= TP.size, sel(TP.dfn, pe))),
                     Implies(Not(en), iri.prefix_id == 0),
                     z3.Concat(prefix_v, name_v) == GTerm.iri(t),
                     # the strings are still resident under the referenced ids and marked as used by this statement
                     # (what lets a caller encode further terms without invalidating this one)
                     od_touched(E.names.lookup.data, nk), od_get(E.names.lookup.data, nk) == ne,
                     Implies(And(en, pe != 0), And(od_touched(E.prefixes.lookup.data, pk), od_get(E.prefixes.lookup.data, pk) == pe)),
                     Implies(And(en, pe == 0), pk == ""))
        has_lang = And(GTerm.has_lang(t), GTerm.lang(t) != "")
        need = needs_dt(t)
        lit_ok = And(which_is(st, f"{p}_literal"), lit.lex == GTerm.lex(t),
                     Implies(need, And(which_is(lit, "datatype"), 1 <= lit.datatype, lit.datatype <= TD.size,
                                       sel(TD.dfn, lit.datatype), sel(TD.tbl, lit.datatype) == GTerm.dt(t),
                                       od_touched(E.datatypes.lookup.data, GTerm.dt(t)),
                                       od_get(E.datatypes.lookup.data, GTerm.dt(t)) == lit.datatype)),
                     Implies(And(has_lang, Not(need)), And(which_is(lit, "langtag"), lit.langtag == GTerm.lang(t))),
                     Implies(And(Not(has_lang), Not(need)), which_unset(lit, "literalKind")))
        bn_ok = And(which_is(st, f"{p}_bnode"), getattr(st, f"{p}_bnode") == GTerm.ident(t))
        out[f"{oneof}-elided-iff-repeated"] = Iff(which_unset(st, oneof), elided)
        live = And(Not(elided), chain_ok)
        out[f"{oneof}-iri-decodes-to-input"] = Implies(And(live, GTerm.is_IRI(t)), iri_ok)
        out[f"{oneof}-literal-decodes-to-input"] = Implies(And(live, GTerm.is_Lit(t)), lit_ok)
        out[f"{oneof}-bnode-decodes-to-input"] = Implies(And(live, GTerm.is_BNode(t)), bn_ok)
        out[f"{oneof}-quoted-in-slot"] = Implies(And(live, GTerm.is_QTriple(t)), which_is(st, f"{p}_triple_term"))
        enc_iri = And(Not(elided), GTerm.is_IRI(t))
        lrN = Ite(enc_iri, ne, lrN)
        lrP = Ite(And(enc_iri, en), pe, lrP)
        chain_ok = And(chain_ok, Or(elided, Not(GTerm.is_QTriple(t))))
    out["last-referenced-ids-follow"] = Implies(chain_ok, And(TN.lr == lrN, Implies(en, TP.lr == lrP)))
    return out


@contract(f"{SE}:encode_spo", serves=["C03", "C01", "C19", "C18", "C20", "C02"])
class _encode_spo_free:
    """s, p, o of one statement.  Premise (C01): each enabled table still has room for the terms that get encoded."""
    params = {"terms": ITER(ADTS("gterm"), 4), "term_encoder": OBJ(GENC), "repeated_terms": LISTOF(OPT(ADTS("gterm")), 4),
              "statement": MSG("RdfTriple")}
    result = ROWS
    shards = 10
    variants = [{}, {"term_encoder": OBJ(RENC)}]      # the same proof for either integration's term encoder
    advances = {"terms": 3}
    modifies = ["terms", "term_encoder.names", "term_encoder.prefixes", "term_encoder.datatypes", "repeated_terms", "statement"]
    tags = {"subject-elided-iff-repeated": ["C19", "C03", "C01"], "predicate-elided-iff-repeated": ["C19", "C03", "C01"],
            "object-elided-iff-repeated": ["C19", "C03", "C01"]}
    tag_suffix = {"@undersized-tables": ["C18"], "rejected-statement-leaves-no-trace": ["C20"]}

    def _terms(e, old=True):
        it = (e.old if old else e).terms
        return list(it.items)[:3]

    def requires(e):
        ts = [x for x in list(e.terms.items)[:3]]
        rep = e.repeated_terms.items[:3]
        st = e.statement
        return And(wf_te(e.term_encoder), which_unset(st, "subject"), which_unset(st, "predicate"), which_unset(st, "object"),
                   encoder_universe(e.term_encoder, ts))

    def raises(e):
        ts = list(e.terms.items)[:3]
        rep = e.repeated_terms.items[:3]
        dz = e.term_encoder.datatypes.lookup.max_size == 0
        x = first_exc(rep, ts, dz)
        return {"NotImplementedError": x == 1, "JellyConformanceError": x == 2}

    def on_raise(e):
        E, O = e.term_encoder, e.old.term_encoder
        rep_new, rep_old = e.repeated_terms.items, e.old.repeated_terms.items
        from pyvc.spec import eq as _eq
        out = {"tables-still-well-formed": wf_te(E),
               # C20: a rejected statement must leave no trace in what later statements are encoded against
               # (known finding D6: it does when an earlier slot was already encoded)
               "rejected-statement-leaves-no-trace": And(
                   enc_unchanged(E.names, O.names), enc_unchanged(E.prefixes, O.prefixes),
                   enc_unchanged(E.datatypes, O.datatypes), *[_eq(a, b) for a, b in zip(rep_new, rep_old)])}
        # what does hold today, and must keep holding: the rejected term itself (and every slot after it) is NOT remembered -
        # otherwise an equal term in the next statement would be elided against a term the reader never saw
        ts = list(e.old.terms.items)[:3]
        dz = O.datatypes.lookup.max_size == 0
        passed: Any = True
        for j in SLOTS3:
            el = rep_equal(rep_old[j], ts[j])
            here = And(passed, Not(el), exc_of(ts[j], dz) != 0)
            out[f"term-rejected-in-slot-{j}-is-not-remembered"] = Implies(here, And(*[_eq(rep_new[k], rep_old[k]) for k in range(j, 4)]))
            passed = And(passed, Or(el, exc_of(ts[j], dz) == 0))
        return out

    def ensures(e):
        E, O = e.term_encoder, e.old.term_encoder
        ts = list(e.old.terms.items)[:3]
        rep_old = e.old.repeated_terms.items[:3]
        rep_new = e.repeated_terms.items
        out = {"wf": wf_te(E),
               "rows-account-for-table-changes": rows_account(O, E, e.result.items),
               "previous-terms-updated": And(*[rep_equal(rep_new[j], ts[j]) for j in SLOTS3]),
               "previous-graph-term-untouched": _speq(rep_new[3], e.old.repeated_terms.items[3]),
               "three-terms-consumed": e.terms.pos == e.old.terms.pos + 3,
               "graph-group-untouched": graph_group_untouched(e.statement, e.old.statement)}
        n_uses, d_uses = enc_occ(rep_old, ts, "n"), enc_occ(rep_old, ts, "d")
        # C01's premise: every enabled table has room for what this statement encodes.  Outside it the same clauses
        # are C18's subject (refused, not corrupted) and are known to fail today (known finding D7).
        room = room_for(O, n_uses, d_uses)
        for lab, cl in decode_spo_spec(e.statement, E, O.prefixes.T.lr, O.names.T.lr, rep_old, ts).items():
            if "elided-iff" in lab:
                out[lab] = cl
            else:
                out[lab] = Implies(room, cl)
                out[lab + "@undersized-tables"] = Implies(Not(room), cl)
        en = E.prefixes.lookup.max_size > 0
        out.update({
            "lru-names": lru_step(O.names.lookup.data, E.names.lookup.data, E.names.lookup.max_size, n_uses),
            "lru-prefixes": lru_step(O.prefixes.lookup.data, E.prefixes.lookup.data, E.prefixes.lookup.max_size, Ite(en, n_uses, 0)),
            "lru-datatypes": lru_step(O.datatypes.lookup.data, E.datatypes.lookup.data, E.datatypes.lookup.max_size, d_uses),
            "sizes-fixed": And(E.names.lookup.max_size == O.names.lookup.max_size,
                               E.prefixes.lookup.max_size == O.prefixes.lookup.max_size,
                               E.datatypes.lookup.max_size == O.datatypes.lookup.max_size)})
        return out


# ------------------------------------------------------------------------------------------ encode_triple / encode_quad
def _reset_marks(E: Any) -> None:
    """ghost: a statement starts - nothing has been used *by this statement* yet"""
    for X in (E.names, E.prefixes, E.datatypes):
        d = X.lookup.data
        d.mark = d.top
        d.t = z3.IntVal(0)


def stmt_room(E: Any, rep: list, ts: list) -> Any:
    """C01's premise for one statement, stated on the real tables: each enabled table is at least as large as the number
    of entries the (non-elided) terms of the statement need from it"""
    n_uses, d_uses = enc_occ(rep, ts, "n"), enc_occ(rep, ts, "d")
    N, P, D = E.names.lookup, E.prefixes.lookup, E.datatypes.lookup
    return And(n_uses <= N.max_size, Or(P.max_size == 0, n_uses <= P.max_size), Or(d_uses == 0, D.max_size == 0, d_uses <= D.max_size))


@contract(f"{SE}:encode_triple", serves=["C03", "C01", "C19", "C18", "C20", "C02"])
class _encode_triple:
    params = {"terms": TUP(ADTS("gterm"), ADTS("gterm"), ADTS("gterm")), "term_encoder": OBJ(GENC),
              "repeated_terms": LISTOF(OPT(ADTS("gterm")), 4)}
    result = ROWS
    shards = 4
    variants = [{}, {"term_encoder": OBJ(RENC)}]
    modifies = ["term_encoder.names", "term_encoder.prefixes", "term_encoder.datatypes", "repeated_terms"]
    tag_suffix = {"@undersized-tables": ["C18"]}
    tags = {"subject-elided-iff-repeated": ["C19", "C03", "C01"], "predicate-elided-iff-repeated": ["C19", "C03", "C01"],
            "object-elided-iff-repeated": ["C19", "C03", "C01"]}

    def requires(e): return And(wf_te(e.term_encoder), encoder_universe(e.term_encoder, list(e.terms.items)))

    def ghost_enter(e): _reset_marks(e.term_encoder)

    def raises(e):
        ts = list(e.terms.items)
        rep = e.repeated_terms.items[:3]
        dz = e.term_encoder.datatypes.lookup.max_size == 0
        x = first_exc(rep, ts, dz)
        return {"NotImplementedError": x == 1, "JellyConformanceError": x == 2}

    def on_raise(e): return {"tables-still-well-formed": wf_te(e.term_encoder)}

    def lists(e):
        return [dict(label="rows", when=True, set={"result": [..., NEW(MSG("RdfStreamRow"), "triple_row")]})]

    def ensures(e):
        E, O = e.term_encoder, e.old.term_encoder
        ts = list(e.terms.items)
        rep_old = e.old.repeated_terms.items[:3]
        rep_new = e.repeated_terms.items
        items = list(e.result.items)
        out = {"wf": wf_te(E)}
        if not items or isinstance(items[-1], Seg):
            out["statement-row-last"] = False
            return out
        row = items[-1]
        out["statement-row-last"] = which_is(row, "triple")
        # C03: every entry row precedes the statement row that refers to it, and the entry rows are exactly what
        # changed the spec tables
        out["entry-rows-first-and-account-for-table-changes"] = rows_account(O, E, items[:-1])
        out["previous-terms-updated"] = And(*[rep_equal(rep_new[j], ts[j]) for j in SLOTS3])
        room = stmt_room(O, rep_old, ts)
        for lab, cl in decode_spo_spec(row.triple, E, O.prefixes.T.lr, O.names.T.lr, rep_old, ts).items():
            if "elided-iff" in lab:
                out[lab] = cl
            else:
                out[lab] = Implies(room, cl)
                out[lab + "@undersized-tables"] = Implies(Not(room), cl)
        out["sizes-fixed"] = And(E.names.lookup.max_size == O.names.lookup.max_size,
                                 E.prefixes.lookup.max_size == O.prefixes.lookup.max_size,
                                 E.datatypes.lookup.max_size == O.datatypes.lookup.max_size)
        return out


def decode_graph_spec(q: Any, E: Any, lrP: Any, lrN: Any, rep_g: Any, g: Any) -> dict:
    """the graph slot of quad message q, decoded in the final tables after s, p, o"""
    TP, TN, TD = E.prefixes.T, E.names.T, E.datatypes.T
    en = E.prefixes.lookup.max_size > 0
    elided = rep_equal(rep_g, g)
    iri, lit = q.g_iri, q.g_literal
    ne = name_eff(lrN, iri.name_id)
    pe = prefix_eff(lrP, iri.prefix_id)
    name_v = sel(TN.tbl, ne)
    prefix_v = Ite(And(en, pe != 0), sel(TP.tbl, pe), z3.StringVal(""))
    iri_ok = And(which_is(q, "g_iri"), 1 <= ne, ne <= TN.size, sel(TN.dfn, ne),
                 Implies(And(en, pe != 0), And(1 <= pe, pe <= TP.size, sel(TP.dfn, pe))),
                 Implies(Not(en), iri.prefix_id == 0), z3.Concat(prefix_v, name_v) == GTerm.iri(g))
    has_lang = And(GTerm.has_lang(g), GTerm.lang(g) != "")
    need = needs_dt(g)
    lit_ok = And(which_is(q, "g_literal"), lit.lex == GTerm.lex(g),
                 Implies(need, And(which_is(lit, "datatype"), 1 <= lit.datatype, lit.datatype <= TD.size,
                                   sel(TD.dfn, lit.datatype), sel(TD.tbl, lit.datatype) == GTerm.dt(g))),
                 Implies(And(has_lang, Not(need)), And(which_is(lit, "langtag"), lit.langtag == GTerm.lang(g))),
                 Implies(And(Not(has_lang), Not(need)), which_unset(lit, "literalKind")))
    return {
        "graph-elided-iff-repeated": Iff(which_unset(q, "graph"), elided),
        "graph-iri-decodes-to-input": Implies(And(Not(elided), GTerm.is_IRI(g)), iri_ok),
        "graph-literal-decodes-to-input": Implies(And(Not(elided), GTerm.is_Lit(g)), lit_ok),
        "graph-bnode-decodes-to-input": Implies(And(Not(elided), GTerm.is_BNode(g)), And(which_is(q, "g_bnode"), q.g_bnode == GTerm.ident(g))),
        "graph-default-decodes-to-input": Implies(And(Not(elided), GTerm.is_DefaultGraph(g)), which_is(q, "g_default_graph")),
    }


import os as _os  # noqa: E402
# work in progress: the graph slot on top of s, p, o makes the queries slow and unstable (see DESIGN.md);
# until it is decomposed further encode_quad is *not* under contract in the registered checks (bounded nets cover it)
_quad_deco = contract(f"{SE}:encode_quad", serves=["C03", "C01", "C19", "C18", "C20"]) if _os.environ.get("PYVC_WIP") == "1" else (lambda c: c)


@_quad_deco
class _encode_quad:
    params = {"terms": TUP(ADTS("gterm"), ADTS("gterm"), ADTS("gterm"), ADTS("gterm")), "term_encoder": OBJ(GENC),
              "repeated_terms": LISTOF(OPT(ADTS("gterm")), 4)}
    result = ROWS
    shards = 8
    modifies = ["term_encoder.names", "term_encoder.prefixes", "term_encoder.datatypes", "repeated_terms"]
    tag_suffix = {"@undersized-tables": ["C18"]}
    tags = {"subject-elided-iff-repeated": ["C19", "C03", "C01"], "predicate-elided-iff-repeated": ["C19", "C03", "C01"],
            "object-elided-iff-repeated": ["C19", "C03", "C01"], "graph-elided-iff-repeated": ["C19", "C03", "C01"]}

    def requires(e): return wf_te(e.term_encoder)

    def ghost_enter(e): _reset_marks(e.term_encoder)

    def _uses(rep, ts):
        g = ts[3]
        gel = rep_equal(rep[3], g)
        n = enc_occ(rep[:3], ts[:3], "n") + z3.If(gel, 0, graph_occ_n(g))
        d = enc_occ(rep[:3], ts[:3], "d") + z3.If(gel, 0, graph_occ_d(g))
        return n, d

    def raises(e):
        ts = list(e.terms.items)
        rep = e.repeated_terms.items
        dz = e.term_encoder.datatypes.lookup.max_size == 0
        x = first_exc(rep[:3], ts[:3], dz)
        gx = z3.If(rep_equal(rep[3], ts[3]), 0, graph_exc_of(e.term_encoder, ts[3], dz))
        x = z3.If(x != 0, x, gx)
        return {"NotImplementedError": x == 1, "JellyConformanceError": x == 2}

    def on_raise(e): return {"tables-still-well-formed": wf_te(e.term_encoder)}

    def lists(e):
        return [dict(label="rows", when=True, set={"result": [..., NEW(MSG("RdfStreamRow"), "quad_row")]})]

    def ensures(e):
        E, O = e.term_encoder, e.old.term_encoder
        ts = list(e.terms.items)
        rep_old = e.old.repeated_terms.items
        rep_new = e.repeated_terms.items
        items = list(e.result.items)
        out = {"wf": wf_te(E)}
        if not items or isinstance(items[-1], Seg):
            out["statement-row-last"] = False
            return out
        row = items[-1]
        q = row.quad
        out["statement-row-last"] = which_is(row, "quad")
        out["entry-rows-first-and-account-for-table-changes"] = rows_account(O, E, items[:-1])
        out["previous-terms-updated"] = And(*[rep_equal(rep_new[j], ts[j]) for j in (0, 1, 2, 3)])
        n_uses, d_uses = _encode_quad._uses(rep_old, ts)
        N, P, D = O.names.lookup, O.prefixes.lookup, O.datatypes.lookup
        room = And(n_uses <= N.max_size, Or(P.max_size == 0, n_uses <= P.max_size),
                   Or(d_uses == 0, D.max_size == 0, d_uses <= D.max_size))
        spo = decode_spo_spec(q, E, O.prefixes.T.lr, O.names.T.lr, rep_old[:3], ts[:3])
        # delta bases before the graph term = after s, p, o: recomputed by the same chain
        lrP, lrN, chain_ok = _chain_after_spo(q, E, O.prefixes.T.lr, O.names.T.lr, rep_old[:3], ts[:3])
        spo.pop("last-referenced-ids-follow", None)
        g = decode_graph_spec(q, E, lrP, lrN, rep_old[3], ts[3])
        for lab, cl in list(spo.items()) + [(k, Implies(chain_ok, v)) if "elided-iff" not in k else (k, v) for k, v in g.items()]:
            if "elided-iff" in lab:
                out[lab] = cl
            else:
                out[lab] = Implies(room, cl)
                out[lab + "@undersized-tables"] = Implies(Not(room), cl)
        out["sizes-fixed"] = And(E.names.lookup.max_size == O.names.lookup.max_size,
                                 E.prefixes.lookup.max_size == O.prefixes.lookup.max_size,
                                 E.datatypes.lookup.max_size == O.datatypes.lookup.max_size)
        return out


def _chain_after_spo(st: Any, E: Any, lrP0: Any, lrN0: Any, rep: list, terms: list) -> tuple[Any, Any, Any]:
    en = E.prefixes.lookup.max_size > 0
    lrP, lrN = lrP0, lrN0
    chain_ok: Any = True
    for p, r, t in zip(("s", "p", "o"), rep, terms):
        elided = rep_equal(r, t)
        iri = getattr(st, f"{p}_iri")
        ne = name_eff(lrN, iri.name_id)
        pe = prefix_eff(lrP, iri.prefix_id)
        enc_iri = And(Not(elided), GTerm.is_IRI(t))
        lrN = Ite(enc_iri, ne, lrN)
        lrP = Ite(And(enc_iri, en), pe, lrP)
        chain_ok = And(chain_ok, Or(elided, Not(GTerm.is_QTriple(t))))
    return lrP, lrN, chain_ok


if _os.environ.get("PYVC_WIP") != "1":
    @contract(f"{SE}:encode_quad", serves=["C03", "C01", "C19", "C20"])
    class _encode_quad_light:
        """Structural contract of encode_quad (entry rows first and accounting for the table changes, quad row last,
        exact raise conditions, graph slot elided iff repeated).  The statement-level *denotation* of s, p, o, g is proved
        for triples (encode_spo / encode_triple); for quads it is left to the bounded nets - the full contract above is
        work in progress because its queries are slow and unstable."""
        params = _encode_quad.params
        variants = [{}, {"term_encoder": OBJ(RENC)}]
        result = ROWS
        modifies = _encode_quad.modifies
        tags = {"graph-elided-iff-repeated": ["C19", "C03", "C01"]}

        def requires(e): return And(wf_te(e.term_encoder), encoder_universe(e.term_encoder, list(e.terms.items)))

        def ghost_enter(e): _reset_marks(e.term_encoder)

        def raises(e): return _encode_quad.raises(e)

        def on_raise(e): return {"tables-still-well-formed": wf_te(e.term_encoder)}

        def lists(e):
            return [dict(label="rows", when=True, set={"result": [..., NEW(MSG("RdfStreamRow"), "quad_row")]})]

        def ensures(e):
            E, O = e.term_encoder, e.old.term_encoder
            ts = list(e.terms.items)
            rep_old = e.old.repeated_terms.items
            rep_new = e.repeated_terms.items
            items = list(e.result.items)
            out = {"wf": wf_te(E)}
            if not items or isinstance(items[-1], Seg):
                out["statement-row-last"] = False
                return out
            row = items[-1]
            out["statement-row-last"] = which_is(row, "quad")
            out["entry-rows-first-and-account-for-table-changes"] = rows_account(O, E, items[:-1])
            out["previous-terms-updated"] = And(*[rep_equal(rep_new[j], ts[j]) for j in (0, 1, 2, 3)])
            out["graph-elided-iff-repeated"] = Iff(which_unset(row.quad, "graph"), rep_equal(rep_old[3], ts[3]))
            out["sizes-fixed"] = And(E.names.lookup.max_size == O.names.lookup.max_size,
                                     E.prefixes.lookup.max_size == O.prefixes.lookup.max_size,
                                     E.datatypes.lookup.max_size == O.datatypes.lookup.max_size)
            return out


@contract(f"{SE}:encode_namespace_declaration", serves=["C14", "C03"])
class _encode_ns:
    params = {"name": STR, "value": STR, "term_encoder": OBJ(GENC)}
    result = ROWS
    modifies = ["term_encoder.names", "term_encoder.prefixes"]

    def requires(e): return wf_te(e.term_encoder)

    def lists(e):
        return [dict(label="rows", when=True, set={"result": [..., NEW(MSG("RdfStreamRow"), "namespace_row")]})]

    def ensures(e):
        E, O = e.term_encoder, e.old.term_encoder
        items = list(e.result.items)
        out = {"wf": wf_te(E)}
        if not items or isinstance(items[-1], Seg):
            out["declaration-row-last"] = False
            return out
        row = items[-1]
        en = E.prefixes.lookup.max_size > 0
        pk, nk = enc_keys(e.value, en)
        d = row.namespace
        out["declaration-row-last"] = which_is(row, "namespace")
        out["same-prefix-label"] = d.name == e.name
        out["entry-rows-first-and-account-for-table-changes"] = rows_account(O, E, items[:-1])
        out["iri-ids-denote-the-namespace-iri"] = iri_ids_denote(O.prefixes, O.names, E.prefixes, E.names, pk, nk, en,
                                                                 d.value.prefix_id, d.value.name_id)
        out["concat"] = Ite(en, z3.Concat(pk, nk) == e.value, nk == e.value)
        return out
