"""C01, statement level: the composition lemma between the writer's and the reader's contracts.

Both sides are specified against the same Jelly spec tables (contracts/spec_tables.py):
  writer  (encode_spo / encode_triple, contracts/encode.py): the statement row, read by the spec's delta rules in the
          writer's final tables from the last-referenced ids before the statement, denotes the input terms
          (`decode_spo_spec`), and the entry rows are exactly the spec assignments that lead to those tables;
  reader  (decode_statement / iter_rows, contracts/decode.py): every entry row performs the spec assignment on the reader's
          table, and a statement row yields `expected_terms` - the spec decoding in the reader's tables.
This lemma closes the gap between the two formulations: IF the reader's tables hold the same entries as the writer's
final tables (which the entry rows establish, by the two entry-row clauses and the mirror lemmas of C05), the reader's
delta bases and previous terms are the writer's from before the statement, and the writer's postcondition holds for a
statement of flat terms, THEN the reader's spec decoding is valid and returns exactly the (normalised) input terms, and
the delta bases are coupled again afterwards.  The lemma has no code of its own: it is an implication between contract
clauses, discharged by the SMT solver for all messages, tables, ids and strings.
"""
from __future__ import annotations

from typing import Any

import z3

from pyvc.contract import ADTS, INT, LISTOF, MSG, OBJ, OPT, TUP, lemma
from pyvc.spec import And, Iff, Implies, Ite, Not, Or, forall_int, is_none, opt_val, sel

from .decode import DECODER, expected_terms
from .encode import GENC, decode_spo_spec, flat
from .terms import GTerm, needs_dt

SLOT_NAMES = ("subject", "predicate", "object")


def same_entries(A: Any, B: Any) -> Any:
    """two spec tables hold the same entries (the delta bases la/lr are not compared)"""
    return And(A.size == B.size,
               forall_int(lambda i: Implies(And(1 <= i, i <= A.size),
                                            And(sel(A.dfn, i) == sel(B.dfn, i), sel(A.tbl, i) == sel(B.tbl, i)))))


def norm_term(t: Any) -> Any:
    """RDF-level normal form of a literal: an empty language tag is no language tag; a datatype that is not written
    (absent, empty or xsd:string) is no datatype; a language-tagged literal carries no datatype"""
    lang = And(GTerm.has_lang(t), GTerm.lang(t) != "")
    need = needs_dt(t)
    dt = And(need, Not(lang)) if False else need
    lit = GTerm.Lit(GTerm.lex(t), And(lang, Not(need)), z3.If(And(lang, Not(need)), GTerm.lang(t), z3.StringVal("")),
                    dt, z3.If(dt, GTerm.dt(t), z3.StringVal("")))
    return z3.If(GTerm.is_Lit(t), lit, t)


@lemma("statement_roundtrip", serves=["C01", "C03", "C04"], src='''
def statement_roundtrip(row, E, D, rep, terms, lrP0, lrN0):
    return None
''')
class _statement_roundtrip:
    params = {"row": MSG("RdfTriple"), "E": OBJ(GENC), "D": OBJ(DECODER + "@triples"),
              "rep": LISTOF(OPT(ADTS("gterm")), 4), "terms": TUP(ADTS("gterm"), ADTS("gterm"), ADTS("gterm")),
              "lrP0": INT, "lrN0": INT}

    def requires(e):
        E, D, st = e.E, e.D, e.row
        ts = list(e.terms.items)
        rep = list(e.rep.items)[:3]
        en = E.prefixes.lookup.max_size > 0
        pre = [same_entries(E.names.T, D.names.T), same_entries(E.prefixes.T, D.prefixes.T),
               same_entries(E.datatypes.T, D.datatypes.T),
               D.names.T.lr == e.lrN0, D.prefixes.T.lr == e.lrP0, e.lrN0 >= 0, e.lrP0 >= 0,
               # the prefix table is enabled on both sides or on neither; a disabled one has never been referenced
               E.prefixes.T.size == E.prefixes.lookup.max_size, Implies(Not(en), e.lrP0 == 0)]
        for j, k in enumerate(SLOT_NAMES):
            dr = getattr(D.repeated_terms, k)
            pre.append(Iff(is_none(dr), is_none(rep[j])))
            pre.append(Implies(Not(is_none(rep[j])), opt_val(dr) == norm_term(opt_val(rep[j]))))
            pre.append(flat(ts[j]))
        pre += list(decode_spo_spec(st, E, e.lrP0, e.lrN0, rep, ts).values())
        return And(*pre)

    def ensures(e):
        E, D = e.E, e.D
        ts = list(e.terms.items)
        en = E.prefixes.lookup.max_size > 0
        valid, terms = expected_terms(e.row, D, SLOT_NAMES)
        out = {"the-row-is-valid-for-the-reader": valid}
        for k, t_in, (t, ok) in zip(SLOT_NAMES, ts, terms):
            out[f"{k}-read-back-as-written"] = And(ok, t == norm_term(t_in))
        return out

    def cover(e): return {}


# ------------------------------------------------------------------------------------------------ graph slot (quads)
from pyvc.contract import OBJ as _OBJ  # noqa: E402
from .decode import slot_spec  # noqa: E402
from .encode import graph_in_slot, wf_te  # noqa: E402
from .lookup import R_enc  # noqa: E402


@lemma("graph_slot_roundtrip", serves=["C01", "C03", "C04"], src='''
def graph_slot_roundtrip(row, O, E, D, g):
    return None
''')
class _graph_slot_roundtrip:
    """The same composition for the graph slot of a quad / graph start, at the level of the term encoder's contract
    (`graph-in-slot` of GenericSinkTermEncoder.encode_graph): IF the reader's tables hold the entries of the writer's
    tables after the call, its delta bases are the writer's from before the call (O), and the graph name g (IRI, blank
    node, literal or the default graph) was written into the row's graph group as the contract says, THEN the reader's
    spec decoding of the graph group is valid and gives g (normalised)."""
    params = {"row": MSG("RdfQuad"), "O": _OBJ(GENC), "E": _OBJ(GENC), "D": OBJ(DECODER + "@quads"), "g": ADTS("gterm")}

    def requires(e):
        O, E, D, st, g = e.O, e.E, e.D, e.row, e.g
        en = E.prefixes.lookup.max_size > 0
        return And(wf_te(E),
                   same_entries(E.names.T, D.names.T), same_entries(E.prefixes.T, D.prefixes.T),
                   same_entries(E.datatypes.T, D.datatypes.T),
                   D.names.T.lr == O.names.T.lr, D.prefixes.T.lr == O.prefixes.T.lr,
                   O.names.T.lr >= 0, O.prefixes.T.lr >= 0,
                   O.prefixes.lookup.max_size == E.prefixes.lookup.max_size,
                   Implies(Not(en), O.prefixes.T.lr == 0),
                   Or(flat(g), GTerm.is_DefaultGraph(g)),
                   graph_in_slot(st, g, E, O))

    def ensures(e):
        sp = slot_spec(e.row, "graph", e.D)
        g = e.g
        out = {"the-graph-group-is-set": Not(sp["unset"])}
        for kind, rec in (("iri", GTerm.is_IRI), ("bnode", GTerm.is_BNode), ("literal", GTerm.is_Lit), ("default", GTerm.is_DefaultGraph)):
            cond, valid, term = sp[kind][0], sp[kind][1], sp[kind][2]
            out[f"{kind}-graph-name-read-back-as-written"] = Implies(rec(g), And(cond, valid, term == norm_term(g)))
        return out
