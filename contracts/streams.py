"""Contracts for pyjelly/serialize/streams.py (C06, C11, C13, C03, C12, C20)."""
from __future__ import annotations

from typing import Any

import z3

from pyvc.contract import ADTS, BOOL, INT, LISTOF, MSG, NEWOBJ, OBJ, OPT, ROWS, Sort, TUP, contract, inline, shape
from pyvc.spec import And, Iff, Implies, Ite, Not, Or, is_none, opt_val, which_is
from pyvc.values import Seg

from .encode import GENC, wf_te
from .flows import BOUNDED, FL, flow_len, same_rows
from .options import PRESET, SPARAMS, STYPES, is_flat, known_logical, valid_pair

SS = "pyjelly.serialize.streams"
SOPTS = f"{SS}:SerializerOptions"
shape(SOPTS, fields=dict(flow=OPT(OBJ(f"{FL}:ManualFrameFlow")), frame_size=INT, logical_type=INT, params=OBJ(SPARAMS),
                         lookup_preset=OBJ(PRESET)))
_stream_fields = dict(encoder=OBJ(GENC), options=OBJ(SOPTS), flow=OBJ(f"{FL}:BoundedFrameFlow"),
                      repeated_terms=LISTOF(OPT(ADTS("gterm")), 4), enrolled=BOOL, stream_types=OBJ(STYPES))
_stream_ghost = dict(g_ns=INT)      # ghost: number of namespace declarations that went through this stream (C14)
PHYS_OF = {"TripleStream": 1, "QuadStream": 2, "GraphStream": 3}
DEFAULT_FLOW = {"TripleStream": "FlatTriplesFrameFlow", "QuadStream": "FlatQuadsFrameFlow", "GraphStream": "FlatQuadsFrameFlow"}
CLASS_LOGICAL = {"ManualFrameFlow": 0, "BoundedFrameFlow": 0, "FlatTriplesFrameFlow": 1, "FlatQuadsFrameFlow": 2,
                 "GraphsFrameFlow": 3, "DatasetsFrameFlow": 4}
DISPATCH = {1: "FlatTriplesFrameFlow", 2: "FlatQuadsFrameFlow", 3: "GraphsFrameFlow", 4: "DatasetsFrameFlow"}
for _c in ("Stream", "TripleStream", "QuadStream", "GraphStream"):
    shape(f"{SS}:{_c}", fields=_stream_fields, ghost=_stream_ghost)


def expected_flow_class(stream_cls: str, lt: Any, delimited: Any) -> dict[str, Any]:
    """specification of flow inference (DESIGN.md, C06/C11): class name -> condition under which it is chosen"""
    base = lt % 10
    out: dict[str, Any] = {k: False for k in CLASS_LOGICAL}
    out["ManualFrameFlow"] = Not(delimited)
    for b, name in DISPATCH.items():
        cond = And(delimited, lt != 0, base == b)
        out[name] = Or(out[name], cond) if out[name] is not False else cond
    d = DEFAULT_FLOW[stream_cls]
    out[d] = Or(out[d], And(delimited, lt == 0))
    return out


def expected_flow_logical(stream_cls: str, lt: Any, delimited: Any) -> Any:
    """logical type the inferred flow ends up with: the requested one, or the class default when none was requested"""
    cls = expected_flow_class(stream_cls, lt, delimited)
    default = z3.IntVal(0)
    for name, cond in cls.items():
        if cond is not False:
            default = z3.If(cond, CLASS_LOGICAL[name], default)
    return z3.If(lt != 0, lt, default)


def _mk_infer(stream_cls: str) -> Any:
    class C:
        params = {"self": OBJ(f"{SS}:{stream_cls}")}
        result = Sort("anyobj")
        inline_at_calls = True

        def requires(e): return known_logical(e.self.options.logical_type)

        def ensures(e):
            o = e.self.options
            lt, delim = o.logical_type, o.params.delimited
            F = e.result
            name = F.cls.name
            exp = expected_flow_class(e.self.cls.name, lt, delim)
            out = {"flow-class-as-specified": exp.get(name, False),
                   "logical-type-requested-or-class-default": F.logical_type == z3.If(lt != 0, lt, CLASS_LOGICAL.get(name, -1)),
                   "starts-empty": flow_len(F) == 0}
            if name in BOUNDED:
                # C11: the frame size the caller asked for reaches the bounded flow (0 means the default of 250)
                out["frame-size-honoured"] = F.frame_size == z3.If(o.frame_size != 0, o.frame_size, 250)
            return out
    return C


for _c in PHYS_OF:
    pass
# infer_flow is defined once on Stream; it is verified once per concrete stream class (the class default differs)
_I = _mk_infer("TripleStream")
_I.variants = [{"self": OBJ(f"{SS}:TripleStream")}, {"self": OBJ(f"{SS}:QuadStream")}, {"self": OBJ(f"{SS}:GraphStream")}]
contract(f"{SS}:Stream.infer_flow", serves=["C06", "C11", "C13"])(_I)


# ------------------------------------------------------------------------------------ TripleStream.triple / QuadStream.quad
def wf_stream(S: Any) -> Any:
    return And(wf_te(S.encoder), known_logical(S.options.logical_type))


def is_prefix(old_items: list, new_items: list) -> bool:
    return len(new_items) >= len(old_items) and same_rows(new_items[: len(old_items)], old_items)


def _mk_statement_method(stream_cls: str, method: str, arity: int) -> Any:
    class C:
        params = {"self": OBJ(f"{SS}:{stream_cls}"), "terms": TUP(*[ADTS("gterm")] * arity)}
        result = OPT(MSG("RdfStreamFrame"))
        linear = True
        shards = 6      # one worker per variant
        modifies = ["self.encoder.names", "self.encoder.prefixes", "self.encoder.datatypes", "self.repeated_terms", "self.flow.data"]
        # one verification per kind of flow the stream may hold: bounded (emits on size) and the others (never do)
        variants = [{"self": OBJ(f"{SS}:{stream_cls}")}, {"self": OBJ(f"{SS}:{stream_cls}@manual")},
                    {"self": OBJ(f"{SS}:{stream_cls}@graphs")}] + \
                   ([{"self": OBJ(f"{SS}:{stream_cls}@r")}, {"self": OBJ(f"{SS}:{stream_cls}@rmanual")},
                     {"self": OBJ(f"{SS}:{stream_cls}@rgraphs")}])     # the same with the rdflib integration's encoder

        def requires(e):
            from .encode import encoder_universe
            return And(wf_te(e.self.encoder), encoder_universe(e.self.encoder, list(e.terms.items)))

        def raises(e):
            from .encode import first_exc, graph_exc_of, rep_equal
            ts = list(e.terms.items)
            rep = e.self.repeated_terms.items
            dz = e.self.encoder.datatypes.lookup.max_size == 0
            x = first_exc(rep[:3], ts[:3], dz)
            if arity == 4:
                gx = z3.If(rep_equal(rep[3], ts[3]), 0, graph_exc_of(e.self.encoder, ts[3], dz))
                x = z3.If(x != 0, x, gx)
            return {"NotImplementedError": x == 1, "JellyConformanceError": x == 2}

        def lists_on_raise(e):
            # C20: whatever had been buffered before the failure is still there, untouched
            return [dict(label="rejected", when=True, set={"self.flow.data": list(e.old.self.flow.data.items)})]

        def on_raise(e):
            return {"tables-still-well-formed": wf_te(e.self.encoder)}

        def lists(e):
            # C06/C01: rows buffered before are neither lost nor reordered: they lead the emitted frame, or stay buffered,
            # followed by this statement's rows
            old_items = list(e.old.self.flow.data.items)
            emitted = Not(is_none(e.result))
            return [dict(label="emitted", when=emitted, set={"self.flow.data": [], "result.rows": old_items + [...]}),
                    dict(label="kept", when=Not(emitted), set={"self.flow.data": old_items + [...]})]

        def ensures(e):
            F = e.self.flow
            emitted = Not(is_none(e.result))
            bounded = F.cls.name in BOUNDED
            out = {"wf": wf_te(e.self.encoder)}
            if bounded:
                # C11: after a statement either a full frame was handed out and nothing is pending, or fewer than
                # frame_size rows are pending
                out["pending-rows-below-frame-size"] = And(Implies(emitted, flow_len(F) == 0),
                                                           Implies(Not(emitted), flow_len(F) < F.frame_size))
            else:
                # C07/C06: flows that are not size-bounded never cut a frame in the middle of a graph/dataset
                out["no-size-based-frame"] = Not(emitted)
            return out
    return C


for _cls, _m, _k in (("TripleStream", "triple", 3), ("QuadStream", "quad", 4)):
    for _suffix, _flowcls in (("@manual", "ManualFrameFlow"), ("@graphs", "GraphsFrameFlow")):
        shape(f"{SS}:{_cls}{_suffix}", fields={**_stream_fields, "flow": OBJ(f"{FL}:{_flowcls}")}, ghost=_stream_ghost)
    # the same stream classes holding the rdflib integration's term encoder
    from .encode import RENC as _RENC
    for _suffix, _flowcls in (("@r", "BoundedFrameFlow"), ("@rmanual", "ManualFrameFlow"), ("@rgraphs", "GraphsFrameFlow")):
        shape(f"{SS}:{_cls}{_suffix}", fields={**_stream_fields, "encoder": OBJ(_RENC), "flow": OBJ(f"{FL}:{_flowcls}")}, ghost=_stream_ghost)
    contract(f"{SS}:{_cls}.{_m}", serves=["C11", "C06", "C07", "C01", "C20"])(_mk_statement_method(_cls, _m, _k))
