"""
Jelly lookup-table semantics, written from the Jelly 1.1.x protobuf schema comments (rdf.proto), NOT from pyjelly:

  RdfPrefixEntry/RdfNameEntry/RdfDatatypeEntry.id: "0 signifies default behaviour: previous id + 1 (or 1 for the first
      entry in the stream)"; ids are 1-based and must not exceed the table size announced in the options.
  RdfIri.prefix_id: "0 signifies 'use the same prefix_id as in the previous IRI'"; with no previous IRI (or a disabled
      prefix table) 0 denotes the empty prefix.
  RdfIri.name_id: "0 signifies 'use the previous name_id + 1'" (1 for the first IRI).
  RdfLiteral.datatype: 1-based, 0 is invalid.

SpecTable = (size, tbl: id -> string, dfn: id -> defined?, la: last assigned id, lr: last referenced id).
Every function returns (valid, table', value).
"""
from __future__ import annotations

from typing import Any

import z3

from pyvc.contract import ARR, BOOL, INT, STR, recshape
from pyvc.spec import And, Implies, Ite, Not, Or, Rec, forall_int, sel, store

recshape("SpecTable", size=INT, tbl=ARR(INT, STR), dfn=ARR(INT, BOOL), la=INT, lr=INT)


def empty_table(size: Any) -> Rec:
    return Rec.make("SpecTable", size=size, tbl=z3.K(z3.IntSort(), z3.StringVal("")),
                    dfn=z3.K(z3.IntSort(), z3.BoolVal(False)), la=z3.IntVal(0), lr=z3.IntVal(0))


def table_wf(T: Rec) -> Any:
    return And(T.size >= 0, 0 <= T.la, T.la <= T.size, 0 <= T.lr, T.lr <= T.size)


def assign_eff(T: Rec, ident: Any) -> Any:
    return Ite(ident == 0, T.la + 1, ident)


def spec_assign(T: Rec, ident: Any, value: Any) -> tuple[Any, Rec]:
    eff = assign_eff(T, ident)
    valid = And(ident >= 0, 1 <= eff, eff <= T.size)
    T2 = T.replace(tbl=store(T.tbl, eff, value), dfn=store(T.dfn, eff, True), la=eff)
    return valid, T2


def name_eff(T: Rec, ident: Any) -> Any:
    return Ite(ident == 0, T.lr + 1, ident)


def spec_name_ref(T: Rec, ident: Any) -> tuple[Any, Rec, Any]:
    eff = name_eff(T, ident)
    valid = And(ident >= 0, 1 <= eff, eff <= T.size, sel(T.dfn, eff))
    return valid, T.replace(lr=eff), sel(T.tbl, eff)


def prefix_eff(T: Rec, ident: Any) -> Any:
    return Ite(ident == 0, T.lr, ident)


def spec_prefix_ref(T: Rec, ident: Any) -> tuple[Any, Rec, Any]:
    eff = prefix_eff(T, ident)
    valid = And(ident >= 0, Or(eff == 0, And(1 <= eff, eff <= T.size, sel(T.dfn, eff))))
    value = Ite(eff == 0, z3.StringVal(""), sel(T.tbl, eff))
    return valid, T.replace(lr=eff), value


def spec_datatype_ref(T: Rec, ident: Any) -> tuple[Any, Rec, Any]:
    valid = And(1 <= ident, ident <= T.size, sel(T.dfn, ident))
    return valid, T.replace(lr=ident), sel(T.tbl, ident)


def table_eq(A: Rec, B: Rec) -> Any:
    """Observational equality of two spec tables (entries outside [1,size] and undefined entries are irrelevant)."""
    return And(A.size == B.size, A.la == B.la, A.lr == B.lr,
               forall_int(lambda i: Implies(And(1 <= i, i <= A.size),
                                            And(sel(A.dfn, i) == sel(B.dfn, i),
                                                Implies(sel(A.dfn, i), sel(A.tbl, i) == sel(B.tbl, i))))))


def rec_same(A: Rec, B: Rec) -> Any:
    return And(*[A.get(k) == B.get(k) for k, _ in A.fields])
