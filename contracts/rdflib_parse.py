"""The rdflib integration's reader side (pyjelly/integrations/rdflib/parse.py): C02, C04, C15, C16, C14.

The Decoder is shared by both integrations; its contracts (contracts/decode.py) are verified once more with rdflib's
adapters as `self.adapter` (variants `@r…`): the same spec decoding, the same exact raise conditions, the same refusal of
row kinds the physical type forbids.  What is specific to rdflib and modelled here (A-RDFLIB): the term constructors
`rdflib.URIRef(s)`, `rdflib.BNode(s)`, `rdflib.Literal(lex, lang=, datatype=)` build the corresponding value of the
term datatype (rdflib's own literal normalisation is outside the contracts), `Triple`/`Quad`/`Prefix` are tuple
subclasses, and there is no quoted-triple term (the adapter refuses them)."""
from __future__ import annotations

from typing import Any

import z3

from pyvc.contract import ADTS, LISTOF, OBJ, REGISTRY, TUP, contract
from pyvc.spec import And, Not, is_none, opt_val
from pyvc.values import ADT, ExcVal, Raised, Tup, Unsupported

from .decode import RP, _optstr, V_to_z3
from .terms import GTerm


# ---- constructors --------------------------------------------------------------------------------------------------
def _tuple_ctor(name: str, arity: int):
    def make(eng: Any, st: Any, args: list, kwargs: dict, node: Any):
        if kwargs or len(args) != arity:
            yield st, Raised(ExcVal("TypeError"))
            return
        yield st, Tup(tuple(args), eng.tree.get_class(f"{RP}:{name}"))
    return make


REGISTRY.class_constructors = getattr(REGISTRY, "class_constructors", {})
for _n, _k in (("Triple", 3), ("Quad", 4), ("Prefix", 2)):
    REGISTRY.class_constructors[(RP, _n)] = _tuple_ctor(_n, _k)


class _TermCtor:
    def __init__(self, kind: str) -> None:
        self.kind = kind
        self.name = f"A-RDFLIB rdflib.{kind}(...) builds the corresponding term value"

    def call(self, eng: Any, st: Any, args: list, kwargs: dict, node: Any, ctx: Any):
        if self.kind == "URIRef":
            (v,) = args
            if isinstance(v, ADT):
                # URIRef(URIRef(s)) == URIRef(s): a str subclass is taken by its string value
                from .terms import term_str
                yield st, ADT(GTerm.IRI(term_str(v.expr)), "gterm")
                return
            yield st, ADT(GTerm.IRI(V_to_z3(v)), "gterm")
        elif self.kind == "BNode":
            (v,) = args
            yield st, ADT(GTerm.BNode(V_to_z3(v)), "gterm")
        else:
            lex = args[0]
            hl, lv = _optstr(kwargs.get("lang", args[1] if len(args) > 1 else None))
            hd, dv = _optstr(kwargs.get("datatype", args[2] if len(args) > 2 else None))
            yield st, ADT(GTerm.Lit(V_to_z3(lex), hl, lv, hd, dv), "gterm")


for _k in ("URIRef", "BNode", "Literal"):
    REGISTRY.models[f"ext:rdflib.{_k}"] = _TermCtor(_k)
    REGISTRY.models[f"ext:rdflib.term.{_k}"] = REGISTRY.models[f"ext:rdflib.{_k}"]


# ---- graphs adapter (C16: a triple outside graph_start ... graph_end is refused; D2 was fixed in both integrations) ----
@contract(f"{RP}:RDFLibGraphsAdapter.triple", serves=["C16", "C04", "C15", "C02"])
class _r_graphs_triple:
    params = {"self": OBJ(f"{RP}:RDFLibGraphsAdapter"), "terms": LISTOF(ADTS("gterm"), 3)}
    result = TUP(ADTS("gterm"), ADTS("gterm"), ADTS("gterm"), ADTS("gterm"))

    def raises(e): return {"JellyConformanceError": is_none(e.self._graph_id)}

    def ensures(e):
        s, p, o = e.terms.items
        return {"quad-in-the-open-graph": And(e.result.items[0] == s, e.result.items[1] == p, e.result.items[2] == o,
                                              opt_val(e.result.items[3]) == opt_val(e.self._graph_id),
                                              Not(is_none(e.result.items[3])))}


@contract(f"{RP}:RDFLibGraphsAdapter.graph_start", serves=["C16", "C04"])
class _r_graphs_start:
    params = {"self": OBJ(f"{RP}:RDFLibGraphsAdapter"), "graph_id": ADTS("gterm")}
    modifies = ["self._graph_id"]

    def ensures(e):
        return {"graph-open": And(Not(is_none(e.self._graph_id)), opt_val(e.self._graph_id) == e.graph_id)}


@contract(f"{RP}:RDFLibGraphsAdapter.graph_end", serves=["C16", "C04"])
class _r_graphs_end:
    params = {"self": OBJ(f"{RP}:RDFLibGraphsAdapter")}
    modifies = ["self._graph_id"]

    def ensures(e): return {"no-graph-open": is_none(e.self._graph_id)}
