"""Spec-side interpretation of sequences of lookup-entry rows (the 'assign component' of the three spec tables)."""
from __future__ import annotations

from typing import Any

import z3

from pyvc import values as V
from pyvc.spec import And, Implies, Ite, Not, Or, Rec, rec_ite, which_is
from pyvc.values import Seg

from .spec_tables import spec_assign

IntS, BoolS, StrS = z3.IntSort(), z3.BoolSort(), z3.StringSort()
TblS = z3.ArraySort(IntS, StrS)
DfnS = z3.ArraySort(IntS, BoolS)
_ARGS = [V.SegSort] + [IntS, TblS, DfnS, IntS] * 3     # seg, (size, tbl, dfn, la) x (P, N, D)

seg_valid = z3.Function("seg_valid", *_ARGS, BoolS)
_seg_out = {}
for _t in "PND":
    _seg_out[_t] = (z3.Function(f"seg_{_t}_tbl", *_ARGS, TblS), z3.Function(f"seg_{_t}_dfn", *_ARGS, DfnS),
                    z3.Function(f"seg_{_t}_la", *_ARGS, IntS))


def _flat(P: Rec, N: Rec, D: Rec) -> list:
    out = []
    for T in (P, N, D):
        out += [T.size, T.tbl, T.dfn, T.la]
    return out


def apply_seg(P: Rec, N: Rec, D: Rec, seg: Any) -> tuple[Any, Rec, Rec, Rec]:
    args = [seg] + _flat(P, N, D)
    outs = []
    for t, T in zip("PND", (P, N, D)):
        f_tbl, f_dfn, f_la = _seg_out[t]
        outs.append(T.replace(tbl=f_tbl(*args), dfn=f_dfn(*args), la=f_la(*args)))
    return seg_valid(*args), outs[0], outs[1], outs[2]


def apply_row(P: Rec, N: Rec, D: Rec, row: Any) -> tuple[Any, Rec, Rec, Rec]:
    """one RdfStreamRow (view); only entry rows are allowed here"""
    valid: Any = False
    out = {"prefix": P, "name": N, "datatype": D}
    for kind in ("prefix", "name", "datatype"):
        is_k = which_is(row, kind)
        if is_k is False:
            continue                       # concrete row of another kind (the child message may not even exist)
        m = getattr(row, kind)
        v, T2 = spec_assign(out[kind], m.id, m.value)
        valid = Or(valid, And(is_k, v))
        out[kind] = rec_ite(is_k, T2, out[kind])
    return valid, out["prefix"], out["name"], out["datatype"]


def apply_rows(P: Rec, N: Rec, D: Rec, items: Any) -> tuple[Any, Rec, Rec, Rec]:
    """fold over a list of row views / opaque segments, in order"""
    valid: Any = True
    for it in items:
        if isinstance(it, Seg):
            v, P, N, D = apply_seg(P, N, D, it.const)
        else:
            v, P, N, D = apply_row(P, N, D, it)
        valid = And(valid, v)
    return valid, P, N, D


def assign_eq(A: Rec, B: Rec) -> Any:
    return And(A.tbl == B.tbl, A.dfn == B.dfn, A.la == B.la, A.size == B.size)


def rows_account(old_enc: Any, new_enc: Any, items: Any) -> Any:
    """The rows, read as lookup entries by the spec, take the ghost tables of the old encoder state to those of the new."""
    v, P, N, D = apply_rows(old_enc.prefixes.T, old_enc.names.T, old_enc.datatypes.T, items)
    return And(v, assign_eq(P, new_enc.prefixes.T), assign_eq(N, new_enc.names.T), assign_eq(D, new_enc.datatypes.T))
