"""
Closed family of the generic integration's term classes as a z3 algebraic datatype ("gterm"):
  IRI(iri) | BNode(id) | Lit(lex, has_lang, lang, has_dt, dt) | QTriple(s, p, o) | DefaultGraph | Other(tag)
`Other` stands for any object that is not one of pyjelly's term classes (unsupported term type).
The field/accessor table and the class names are checked against the real generic_sink.py on every run
(TermFamily.check_source) so a renamed attribute is an `unsupported`, not a silent mismatch.
"""
from __future__ import annotations

from typing import Any

import z3

from pyvc import values as V
from pyvc.contract import REGISTRY
from pyvc.values import ADT, And, ExcVal, Not, Opt, Or, Raised, Tup, Unsupported

GS = "pyjelly.integrations.generic.generic_sink"

GTerm = z3.Datatype("GTerm")
GTerm.declare("IRI", ("iri", z3.StringSort()))
GTerm.declare("BNode", ("ident", z3.StringSort()))
GTerm.declare("Lit", ("lex", z3.StringSort()), ("has_lang", z3.BoolSort()), ("lang", z3.StringSort()),
              ("has_dt", z3.BoolSort()), ("dt", z3.StringSort()))
GTerm.declare("QTriple", ("qs", GTerm), ("qp", GTerm), ("qo", GTerm))
GTerm.declare("DefaultGraph")
GTerm.declare("Other", ("tag", z3.IntSort()))
GTerm = GTerm.create()

# term occurrences per lookup table (k of property C01), one-level unfolding supplied as invariant of every term value
occ_n = z3.Function("occ_n", GTerm, z3.IntSort())     # IRIs (names; also prefixes when the prefix table is enabled)
occ_d = z3.Function("occ_d", GTerm, z3.IntSort())     # typed literals (datatype other than xsd:string)
depth = z3.Function("depth", GTerm, z3.IntSort())

XSD_STRING = "http://www.w3.org/2001/XMLSchema#string"


def needs_dt(t: Any) -> Any:
    """typed literal whose datatype must go through the datatype table"""
    return And(GTerm.is_Lit(t), GTerm.has_dt(t), GTerm.dt(t) != "", GTerm.dt(t) != XSD_STRING)


# which exception encoding a term ends in (0 none, 1 NotImplementedError, 2 JellyConformanceError); second argument:
# "the datatype table is disabled".  Defined by structural recursion in the encoding order s, p, o; every term value
# the engine creates comes with the one-level unfolding below (a definitional axiom, never an obligation).
exc_of = z3.Function("exc_of", GTerm, z3.BoolSort(), z3.IntSort())


def exc_unfold(t: Any, dz: Any) -> Any:
    qs, qp, qo = GTerm.qs(t), GTerm.qp(t), GTerm.qo(t)
    return And(
        z3.Implies(Or(GTerm.is_IRI(t), GTerm.is_BNode(t)), exc_of(t, dz) == 0),
        z3.Implies(GTerm.is_Lit(t), exc_of(t, dz) == z3.If(And(needs_dt(t), dz), 2, 0)),
        z3.Implies(Or(GTerm.is_Other(t), GTerm.is_DefaultGraph(t)), exc_of(t, dz) == 1),
        z3.Implies(GTerm.is_QTriple(t), exc_of(t, dz) == z3.If(exc_of(qs, dz) != 0, exc_of(qs, dz),
                                                             z3.If(exc_of(qp, dz) != 0, exc_of(qp, dz), exc_of(qo, dz)))),
        exc_of(t, dz) >= 0, exc_of(t, dz) <= 2)


def unfold(t: Any) -> list:
    return [exc_unfold(t, z3.BoolVal(True)), exc_unfold(t, z3.BoolVal(False))] + _unfold_occ(t)


def _unfold_occ(t: Any) -> list:
    return [
        # canonical form of absent optional parts (so that datatype equality is Python equality of the objects)
        z3.Implies(GTerm.is_Lit(t), And(z3.Implies(z3.Not(GTerm.has_lang(t)), GTerm.lang(t) == ""),
                                       z3.Implies(z3.Not(GTerm.has_dt(t)), GTerm.dt(t) == ""))),
        occ_n(t) >= 0, occ_d(t) >= 0, depth(t) >= 0,
        z3.Implies(GTerm.is_IRI(t), And(occ_n(t) == 1, occ_d(t) == 0)),
        z3.Implies(GTerm.is_BNode(t), And(occ_n(t) == 0, occ_d(t) == 0)),
        z3.Implies(GTerm.is_Lit(t), And(occ_n(t) == 0, occ_d(t) == z3.If(needs_dt(t), 1, 0))),
        z3.Implies(GTerm.is_DefaultGraph(t), And(occ_n(t) == 0, occ_d(t) == 0)),
        z3.Implies(GTerm.is_Other(t), And(occ_n(t) == 0, occ_d(t) == 0)),
        z3.Implies(GTerm.is_QTriple(t), And(
            occ_n(t) == occ_n(GTerm.qs(t)) + occ_n(GTerm.qp(t)) + occ_n(GTerm.qo(t)),
            occ_d(t) == occ_d(GTerm.qs(t)) + occ_d(GTerm.qp(t)) + occ_d(GTerm.qo(t)),
            depth(t) > depth(GTerm.qs(t)), depth(t) > depth(GTerm.qp(t)), depth(t) > depth(GTerm.qo(t)),
            occ_n(GTerm.qs(t)) >= 0, occ_n(GTerm.qp(t)) >= 0, occ_n(GTerm.qo(t)) >= 0,
            occ_d(GTerm.qs(t)) >= 0, occ_d(GTerm.qp(t)) >= 0, occ_d(GTerm.qo(t)) >= 0)),
    ]


CLASS_OF = {"IRI": GTerm.is_IRI, "BlankNode": GTerm.is_BNode, "Literal": GTerm.is_Lit, "Triple": GTerm.is_QTriple,
            "_DefaultGraph": GTerm.is_DefaultGraph}
# attribute -> (recogniser, accessor builder)
ATTRS = {
    "_iri": (GTerm.is_IRI, lambda t: GTerm.iri(t)),
    "_identifier": (GTerm.is_BNode, lambda t: GTerm.ident(t)),
    "_lex": (GTerm.is_Lit, lambda t: GTerm.lex(t)),
    "_langtag": (GTerm.is_Lit, lambda t: Opt(z3.Not(GTerm.has_lang(t)), GTerm.lang(t))),
    "_datatype": (GTerm.is_Lit, lambda t: Opt(z3.Not(GTerm.has_dt(t)), GTerm.dt(t))),
    "s": (GTerm.is_QTriple, lambda t: ADT(GTerm.qs(t), "gterm")),
    "p": (GTerm.is_QTriple, lambda t: ADT(GTerm.qp(t), "gterm")),
    "o": (GTerm.is_QTriple, lambda t: ADT(GTerm.qo(t), "gterm")),
}


# rdflib's term classes are modelled by the same datatype (A-RDFLIB): URIRef ~ IRI(str value), BNode ~ BNode(str value),
# Literal ~ Lit(lexical form = str(term), language, datatype); URIRef and BNode are str subclasses, so str(term) and
# passing the object where a str is expected give the string value.  rdflib has no quoted-triple term.
RDFLIB_CLASS_OF = {"URIRef": GTerm.is_IRI, "Literal": GTerm.is_Lit, "BNode": GTerm.is_BNode}
RDFLIB_DEFAULT_GRAPH = "urn:x-rdflib:default"
RDFLIB_ATTRS = {
    "language": (GTerm.is_Lit, lambda t: Opt(z3.Not(GTerm.has_lang(t)), GTerm.lang(t))),
    "datatype": (GTerm.is_Lit, lambda t: Opt(z3.Not(GTerm.has_dt(t)), GTerm.dt(t))),
}


def term_str(t: Any) -> Any:
    return z3.If(GTerm.is_IRI(t), GTerm.iri(t), z3.If(GTerm.is_BNode(t), GTerm.ident(t), GTerm.lex(t)))


class TermFamily:
    sort = GTerm
    name = "gterm"

    def as_str(self, eng: Any, st: Any, v: ADT) -> Any:
        return term_str(v.expr)

    def to_str(self, eng: Any, st: Any, v: ADT, node: Any):
        # str(term): defined for the rdflib reading of the datatype only (the generic classes' __str__ is an N-Triples
        # rendering and is never used by the code under contract)
        for st1, ok in eng.branch(st, Or(GTerm.is_IRI(v.expr), GTerm.is_BNode(v.expr), GTerm.is_Lit(v.expr)), f"L{getattr(node, 'lineno', 0)}str-term"):
            if ok:
                yield st1, term_str(v.expr)
            else:
                raise Unsupported("str() of a term that is not an IRI, blank node or literal", node)

    def invariant(self, x: Any) -> list:
        return unfold(x)

    def py_eq(self, a: Any, b: Any) -> Any:
        # IRI/BlankNode/Literal.__eq__ and NamedTuple equality are structural (their contracts: contracts/generic_sink.py)
        return a == b

    def truth(self, x: Any) -> Any:
        return True

    def isinstance(self, eng: Any, v: ADT, c: Any, node: Any) -> Any:
        from pyvc.values import ClassVal, ExtVal
        if isinstance(c, ClassVal):
            rec = CLASS_OF.get(c.info.name)
            if rec is not None and c.info.module.name == GS:
                return rec(v.expr)
            return False     # not a subclass relationship with any other pyjelly class
        if isinstance(c, ExtVal):
            if c.name.startswith("rdflib.") and c.name.split(".")[-1] in RDFLIB_CLASS_OF:
                return RDFLIB_CLASS_OF[c.name.split(".")[-1]](v.expr)
            if c.name == "builtins.tuple":
                return GTerm.is_QTriple(v.expr)
            if c.name == "builtins.str":
                return False
            return False
        raise Unsupported("isinstance of a term against a non-class", node)

    def getattr(self, eng: Any, st: Any, v: ADT, attr: str, node: Any, ctx: Any):
        if attr not in ATTRS and attr not in RDFLIB_ATTRS:
            raise Unsupported(f"attribute {attr} on a generic term", node)
        rec, acc = ATTRS[attr] if attr in ATTRS else RDFLIB_ATTRS[attr]
        cond = rec(v.expr)
        for st1, ok in eng.branch(st, cond, f"L{getattr(node, 'lineno', 0)}attr-{attr}"):
            if ok:
                val = acc(v.expr)
                if isinstance(val, ADT):
                    st1 = st1.assume(*unfold(val.expr))
                yield st1, val
            else:
                yield st1, Raised(ExcVal("AttributeError", attr))

    def iter(self, eng: Any, st: Any, v: ADT, node: Any):
        for st1, ok in eng.branch(st, GTerm.is_QTriple(v.expr), f"L{getattr(node, 'lineno', 0)}iter-term"):
            if ok:
                items = tuple(ADT(f(v.expr), "gterm") for f in (GTerm.qs, GTerm.qp, GTerm.qo))
                for it in items:
                    st1 = st1.assume(*unfold(it.expr))
                st2, r = eng.alloc(st1, "iter", None, items=items, pos=0)
                yield st2, r
            else:
                yield st1, Raised(ExcVal("TypeError"))

    def typeof(self, eng: Any, st: Any, v: ADT, node: Any):
        from pyvc.values import ExtVal
        yield st, ExtVal("gterm.type")     # only ever formatted into an exception message

    def describe(self, ex: Any, v: ADT) -> Any:
        return describe_term(ex, v.expr)

    def check_source(self, tree: Any) -> list[str]:
        """the attribute table above must match the real classes"""
        problems = []
        m = tree.modules.get(GS)
        if m is None:
            return [f"module {GS} missing"]
        import ast
        for cname, attrs in (("IRI", ["_iri"]), ("BlankNode", ["_identifier"]), ("Literal", ["_lex", "_langtag", "_datatype"])):
            c = m.bindings.get(cname)
            if c is None or not hasattr(c, "methods") or "__init__" not in c.methods:
                problems.append(f"class {cname} or its __init__ missing")
                continue
            src = ast.unparse(c.methods["__init__"].node)
            for a in attrs:
                if f"self.{a}" not in src:
                    problems.append(f"{cname}.__init__ no longer sets {a}")
        for cname in ("IRI", "BlankNode", "Literal", "_DefaultGraph"):
            c = m.bindings.get(cname)
            if c is not None and hasattr(c, "methods"):
                for special in ("__bool__", "__len__", "__ne__", "__getattr__", "__getattribute__"):
                    if special in c.methods:
                        problems.append(f"{cname} defines {special}: truthiness/comparison of terms is modelled as the default")
        dg = m.bindings.get("_DefaultGraph")
        if dg is not None and hasattr(dg, "methods") and "__eq__" in dg.methods:
            problems.append("_DefaultGraph defines __eq__ (modelled as identity)")
        t = m.bindings.get("Triple")
        if t is None or getattr(t, "field_order", None) != ["s", "p", "o"]:
            problems.append("Triple is no longer NamedTuple(s, p, o)")
        q = m.bindings.get("Quad")
        if q is None or getattr(q, "field_order", None) != ["s", "p", "o", "g"]:
            problems.append("Quad is no longer NamedTuple(s, p, o, g)")
        return problems


def describe_term(ex: Any, t: Any, depth_left: int = 4) -> Any:
    v = ex.ev(t)
    if z3.is_true(ex.ev(GTerm.is_IRI(v))):
        return {"t": "gterm", "k": "iri", "v": ex.py(GTerm.iri(v))}
    if z3.is_true(ex.ev(GTerm.is_BNode(v))):
        return {"t": "gterm", "k": "bnode", "v": ex.py(GTerm.ident(v))}
    if z3.is_true(ex.ev(GTerm.is_Lit(v))):
        return {"t": "gterm", "k": "lit", "lex": ex.py(GTerm.lex(v)),
                "lang": ex.py(GTerm.lang(v)) if ex.py(GTerm.has_lang(v)) else None,
                "dt": ex.py(GTerm.dt(v)) if ex.py(GTerm.has_dt(v)) else None}
    if z3.is_true(ex.ev(GTerm.is_QTriple(v))):
        if depth_left == 0:
            raise Exception("term too deep")
        return {"t": "gterm", "k": "quoted", "items": [describe_term(ex, f(v), depth_left - 1) for f in (GTerm.qs, GTerm.qp, GTerm.qo)]}
    if z3.is_true(ex.ev(GTerm.is_DefaultGraph(v))):
        return {"t": "gterm", "k": "default"}
    return {"t": "gterm", "k": "other"}


REGISTRY.adts["gterm"] = TermFamily()
REGISTRY.global_overrides = getattr(REGISTRY, "global_overrides", {})
REGISTRY.global_overrides[(GS, "DefaultGraph")] = ADT(GTerm.DefaultGraph, "gterm")
REGISTRY.external_overrides = getattr(REGISTRY, "external_overrides", {})
REGISTRY.external_overrides["rdflib.graph.DATASET_DEFAULT_GRAPH_ID"] = ADT(GTerm.IRI(z3.StringVal(RDFLIB_DEFAULT_GRAPH)), "gterm")
