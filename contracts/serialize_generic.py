"""Contracts for the stream layer above the per-statement encoders: Stream.enroll / namespace_declaration (streams.py),
GraphStream.graph, and the generic integration's generators namespace_declarations / *_stream_frames / split_to_graphs
(pyjelly/integrations/generic/serialize.py).  Properties: C06 (final flush, nothing dropped), C11 (bounded buffering),
C03 (options row, enrolment), C14 (declarations only on request), C07 (frames only at graph/dataset ends for grouped
flows), C20.

Generators are verified as ordinary bodies: `yield` records the yielded value on the path, loops over the (abstract,
arbitrary-length) input carry an invariant, and every frame taken out of the flow is a *linear resource*: on every
path it must have been yielded by the end of the iteration that obtained it (`...-is-handed-on` obligations).
"""
from __future__ import annotations

from typing import Any

import z3

from pyvc.contract import (ABSITER, ABSMAP, ADTS, BOOL, INT, LISTOF, MSG, NEW, NTUP, OBJ, OPT, ROWS, STR, TUP, LoopSpec, Sort, contract,
                           inline, shape)
from pyvc.spec import And, Iff, Implies, Ite, Not, Or, is_none, opt_val, which_is
from pyvc.values import Seg

from .encode import GENC, wf_te
from .flows import BOUNDED, FL, flow_len, same_rows
from .options import PRESET, SPARAMS, STYPES, known_logical, known_phys
from .streams import SS, _stream_fields, is_prefix
from .terms import GS, GTerm

GSER = "pyjelly.integrations.generic.serialize"
SINK = f"{GS}:GenericStatementSink"
IRI_TERM = Sort("adt", "gterm", lambda t: GTerm.is_IRI(t))
TRIPLE = TUP(ADTS("gterm"), ADTS("gterm"), ADTS("gterm"))
QUAD = NTUP(f"{GS}:Quad", ADTS("gterm"), ADTS("gterm"), ADTS("gterm"), ADTS("gterm"))

# a sink is an arbitrary-length store of statements, an arbitrary mapping prefix -> IRI, and an identifier
for _suffix, _stmt in (("", TRIPLE), ("@quads", QUAD)):
    shape(f"{SINK}{_suffix}", fields=dict(_store=ABSITER(_stmt), _namespaces=ABSMAP(STR, IRI_TERM), _identifier=ADTS("gterm")))
inline(f"{GS}:GenericStatementSink.identifier")

U32 = 2 ** 32
ENC_MOD = ["stream.encoder.names", "stream.encoder.prefixes", "stream.encoder.datatypes"]


def stream_ready(S: Any) -> Any:
    """what Stream.__init__ establishes and nothing changes afterwards: the header fields are encodable"""
    lp, ty, sp = S.options.lookup_preset, S.stream_types, S.options.params
    u32 = lambda x: And(x >= 0, x < U32)  # noqa: E731
    return And(u32(lp.max_names), u32(lp.max_prefixes), u32(lp.max_datatypes), u32(sp.version),
               known_phys(ty.physical_type), known_logical(ty.logical_type))


def bounded_ok(S: Any) -> Any:
    return S.flow.frame_size >= 1 if S.flow.cls.name in BOUNDED else True


# ------------------------------------------------------------------------------------------------- Stream.enroll
@contract(f"{SS}:Stream.enroll", serves=["C03", "C13", "C06"])
class _enroll:
    """the options row is written exactly once, when the stream is first used, behind whatever is buffered (nothing is
    buffered before: see the `starts-empty` clause of infer_flow) and with the values the stream was configured with"""
    params = {"self": OBJ(f"{SS}:Stream")}
    modifies = ["self.enrolled", "self.flow.data"]

    def requires(e):
        # C03 (the options row comes first): a stream that has not written its options row yet has nothing buffered -
        # so no row can get in front of it
        return And(stream_ready(e.self), Implies(Not(e.self.enrolled), flow_len(e.self.flow) == 0))

    def lists(e):
        old_items = list(e.old.self.flow.data.items)
        return [dict(label="already-enrolled", when=e.old.self.enrolled, set={"self.flow.data": old_items}),
                dict(label="first-use", when=Not(e.old.self.enrolled),
                     set={"self.flow.data": old_items + [NEW(MSG("RdfStreamRow"), "options_row")]})]

    def ensures(e):
        S, O = e.self, e.old.self
        items = list(S.flow.data.items)
        out = {"enrolled": S.enrolled}
        if not items or isinstance(items[-1], Seg):
            out["options-row-last-on-first-use"] = O.enrolled
            return out
        row = items[-1]
        o, lp, ty, sp = row.options, S.options.lookup_preset, S.stream_types, S.options.params
        out["is-options-row"] = Implies(Not(O.enrolled), which_is(row, "options"))
        out["header-carries-the-configuration"] = Implies(Not(O.enrolled), And(
            o.physical_type == ty.physical_type, o.logical_type == ty.logical_type,
            o.max_name_table_size == lp.max_names, o.max_prefix_table_size == lp.max_prefixes,
            o.max_datatype_table_size == lp.max_datatypes, o.stream_name == sp.stream_name,
            o.generalized_statements == sp.generalized_statements, o.rdf_star == sp.rdf_star, o.version == sp.version))
        return out


inline(f"{SS}:Stream.stream_options")


# ------------------------------------------------------------------------------------ Stream.namespace_declaration
@contract(f"{SS}:Stream.namespace_declaration", serves=["C14", "C03"])
class _stream_ns:
    params = {"self": OBJ(f"{SS}:Stream"), "name": STR, "iri": STR}
    modifies = ["self.encoder.names", "self.encoder.prefixes", "self.flow.data", "self.g_ns"]

    def requires(e): return wf_te(e.self.encoder)

    def ghost_exit(e):
        e.self.g_ns = e.old.self.g_ns + 1

    def lists(e):
        old_items = list(e.old.self.flow.data.items)
        return [dict(label="declared", when=True,
                     set={"self.flow.data": old_items + [..., NEW(MSG("RdfStreamRow"), "namespace_row")]})]

    def ensures(e):
        S = e.self
        items = list(S.flow.data.items)
        out = {"wf": wf_te(S.encoder)}
        if not items or isinstance(items[-1], Seg):
            out["declaration-row-appended"] = False
            return out
        row = items[-1]
        out["declaration-row-appended"] = And(which_is(row, "namespace"), row.namespace.name == e.name)
        return out


# ----------------------------------------------------------------------------------- namespace_declarations(store, stream)
def _te_inv(e):
    return {"tables-well-formed": wf_te(e.stream.encoder)}


def _ns_each(e):
    """C14: every binding is written out at once - its declaration row is in the flow, behind the lookup entries it needs,
    before the next binding touches the tables (collecting entries and declarations separately lets a later binding evict
    what an earlier declaration still refers to)"""
    items = list(e.stream.flow.data.items)
    if not items or isinstance(items[-1], Seg):
        return {"declaration-row-of-this-binding-is-in-the-flow": False}
    row = items[-1]
    return {"declaration-row-of-this-binding-is-in-the-flow": And(which_is(row, "namespace"), row.namespace.name == e.prefix)}


@contract(f"{GSER}:namespace_declarations", serves=["C14"])
class _ns_decls:
    """every binding of the sink goes through Stream.namespace_declaration with the IRI *string* of the namespace
    (D9a: the IRI object itself used to be passed); rows buffered before stay in front"""
    params = {"store": OBJ(SINK), "stream": OBJ(f"{SS}:Stream")}
    variants = [{"store": OBJ(SINK)}, {"store": OBJ(f"{SINK}@quads")}]
    modifies = ["stream.encoder.names", "stream.encoder.prefixes", "stream.flow.data", "stream.g_ns"]
    loops = {0: LoopSpec(invariant=lambda e: {"tables-well-formed": wf_te(e.stream.encoder)},
                         after_each=lambda e: _ns_each(e),
                         modifies=["stream.encoder.names", "stream.encoder.prefixes", "stream.g_ns"],
                         extends=["stream.flow.data"])}

    def requires(e): return wf_te(e.stream.encoder)

    def lists(e):
        return [dict(label="declared", when=True, set={"stream.flow.data": list(e.old.stream.flow.data.items) + [...]})]

    def ensures(e):
        return {"wf": wf_te(e.stream.encoder)}


# ------------------------------------------------------------------------------------------------ *_stream_frames
STMT_MOD = ["stream.encoder.names", "stream.encoder.prefixes", "stream.encoder.datatypes", "stream.repeated_terms",
            "stream.flow.data", "stream.g_ns", "stream.enrolled"]


def _frames_pre(e):
    S = e.stream
    # a stream not yet enrolled is a new one: nothing buffered (Stream.__init__: `inferred-flow-starts-empty`)
    return And(wf_te(S.encoder), stream_ready(S), bounded_ok(S), Implies(Not(S.enrolled), flow_len(S.flow) == 0))


def _frames_post(e):
    S, O = e.stream, e.old.stream
    out = {
        # C06: when the generator is exhausted nothing that was encoded is left behind in the flow
        "final-flush-leaves-nothing-buffered": flow_len(S.flow) == 0,
        "enrolled": S.enrolled,
        "wf": wf_te(S.encoder),
        # C14: with the option off not a single declaration goes through Stream.namespace_declaration
        "no-declaration-unless-enabled": Implies(Not(S.options.params.namespace_declarations), S.g_ns == O.g_ns),
    }
    if S.flow.cls.name in ("GraphsFrameFlow", "DatasetsFrameFlow"):
        # C07: grouped serialisation writes one frame per graph / dataset handed in (the loop over the statements is
        # proved to yield nothing for these flows - `silent` - so the yields recorded on the path are all there is)
        out["at-most-one-frame-per-graph-or-dataset"] = len(e.yields) <= 1
    return out


def _stmt_loop(e):
    """between two statements: tables well-formed, stream enrolled, declarations only if enabled"""
    S, O = e.stream, e.old.stream
    return {"tables-well-formed": wf_te(S.encoder), "enrolled": S.enrolled,
            "no-declaration-unless-enabled": Implies(Not(S.options.params.namespace_declarations), S.g_ns == O.g_ns)}


def _after_stmt(e):
    """C11: after every statement (i.e. whenever the input is asked for the next one, from the second on) fewer than
    frame_size rows are pending in a bounded flow"""
    S = e.stream
    if S.flow.cls.name in BOUNDED:
        return {"pending-rows-below-frame-size": flow_len(S.flow) < S.flow.frame_size}
    return {}


def _silent_loop(e):
    """C07: a flow that is not size-bounded never hands out a frame in the middle of a graph / dataset"""
    return e.stream.flow.cls.name not in BOUNDED


def _variants(stream_cls: str, stmt: Sort, sink_shape: str) -> list:
    out = []
    for sfx in ("", "@manual", "@graphs"):
        for data in (OBJ(sink_shape), ABSITER(stmt)):
            out.append({"stream": OBJ(f"{SS}:{stream_cls}{sfx}"), "data": data})
    return out


MAY_REJECT = {("?", "NotImplementedError"): True, ("?", "JellyConformanceError"): True}


@contract(f"{GSER}:triples_stream_frames", serves=["C06", "C11", "C03", "C14", "C07"])
class _triples_frames:
    params = {"stream": OBJ(f"{SS}:TripleStream"), "data": OBJ(SINK)}
    variants = _variants("TripleStream", TRIPLE, SINK)
    yields = MSG("RdfStreamFrame")
    shards = 6          # one worker per variant
    modifies = STMT_MOD
    # loop 0: `for graph in graphs` (a one-element tuple, unrolled); loop 1: the statements
    loops = {1: LoopSpec(invariant=_stmt_loop, after_each=_after_stmt, modifies=STMT_MOD[:5], silent=_silent_loop)}

    def requires(e): return _frames_pre(e)
    def raises(e): return MAY_REJECT
    def on_raise(e): return {"tables-still-well-formed": wf_te(e.stream.encoder)}
    def ensures(e): return _frames_post(e)


@contract(f"{GSER}:quads_stream_frames", serves=["C06", "C11", "C03", "C14", "C07"])
class _quads_frames:
    params = {"stream": OBJ(f"{SS}:QuadStream"), "data": OBJ(f"{SINK}@quads")}
    variants = _variants("QuadStream", QUAD, f"{SINK}@quads")
    yields = MSG("RdfStreamFrame")
    shards = 6          # one worker per variant
    modifies = STMT_MOD
    loops = {0: LoopSpec(invariant=_stmt_loop, after_each=_after_stmt, modifies=STMT_MOD[:5], silent=_silent_loop)}

    def requires(e): return _frames_pre(e)
    def raises(e): return MAY_REJECT
    def on_raise(e): return {"tables-still-well-formed": wf_te(e.stream.encoder)}
    def ensures(e): return _frames_post(e)


# ------------------------------------------------------------------------------------------------ GraphStream.graph
GRAPH_MOD = ["self.encoder.names", "self.encoder.prefixes", "self.encoder.datatypes", "self.repeated_terms", "self.flow.data"]


def _graph_variants() -> list:
    out = []
    for sfx in ("", "@manual", "@graphs"):
        for g in (OBJ(SINK), ABSITER(TRIPLE)):
            out.append({"self": OBJ(f"{SS}:GraphStream{sfx}"), "graph": g})
    # the rdflib integration: its encoder, an rdflib Graph as the graph's content
    for sfx in ("@r", "@rmanual", "@rgraphs"):
        out.append({"self": OBJ(f"{SS}:GraphStream{sfx}"), "graph": Sort("rgraph", False)})
    return out


for _sfx, _flowcls in (("@manual", "ManualFrameFlow"), ("@graphs", "GraphsFrameFlow")):
    shape(f"{SS}:GraphStream{_sfx}", fields={**_stream_fields, "flow": OBJ(f"{FL}:{_flowcls}")}, ghost=dict(g_ns=INT))
from .encode import RENC as _RENC  # noqa: E402
for _sfx, _flowcls in (("@r", "BoundedFrameFlow"), ("@rmanual", "ManualFrameFlow"), ("@rgraphs", "GraphsFrameFlow")):
    shape(f"{SS}:GraphStream{_sfx}", fields={**_stream_fields, "encoder": OBJ(_RENC), "flow": OBJ(f"{FL}:{_flowcls}")}, ghost=dict(g_ns=INT))


@contract(f"{SS}:GraphStream.graph", serves=["C03", "C06", "C11", "C07"])
class _graph:
    """one graph = graph-start row (behind the entries its name needs), the triples, graph-end row; frames cut on the
    way are yielded at once, and the flow is offered a cut after the end row"""
    params = {"self": OBJ(f"{SS}:GraphStream"), "graph_id": ADTS("gterm"), "graph": OBJ(SINK)}
    variants = _graph_variants()
    yields = MSG("RdfStreamFrame")
    shards = 9          # one worker per variant
    modifies = GRAPH_MOD
    loops = {0: LoopSpec(invariant=lambda e: {"tables-well-formed": wf_te(e.self.encoder)},
                         after_each=lambda e: ({"pending-rows-below-frame-size": flow_len(e.self.flow) < e.self.flow.frame_size}
                                               if e.self.flow.cls.name in BOUNDED else {}),
                         silent=lambda e: e.self.flow.cls.name not in BOUNDED,
                         modifies=GRAPH_MOD)}

    # C07: with a flow that is not size-bounded a graph never produces a frame by itself
    def silent(e): return e.self.flow.cls.name not in BOUNDED

    def requires(e):
        from .encode import encoder_universe
        return And(wf_te(e.self.encoder), bounded_ok(e.self), encoder_universe(e.self.encoder, [e.graph_id]))
    def raises(e): return MAY_REJECT
    def on_raise(e): return {"tables-still-well-formed": wf_te(e.self.encoder)}

    def lists(e):
        # C03 (graphs are bracketed): the last thing put into the flow is the graph-end row - it is still buffered, or
        # the flow was cut right behind it
        if e.self.flow.cls.name in BOUNDED:
            n = flow_len(e.self.flow)
            return [dict(label="cut-after-end-row", when=n == 0, set={"self.flow.data": []}),
                    dict(label="end-row-buffered", when=n != 0, set={"self.flow.data": [..., NEW(MSG("RdfStreamRow"), "end_row")]})]
        return [dict(label="end-row-buffered", when=True, set={"self.flow.data": [..., NEW(MSG("RdfStreamRow"), "end_row")]})]

    def ensures(e):
        S = e.self
        out = {"wf": wf_te(S.encoder)}
        items = list(S.flow.data.items)
        if items and not isinstance(items[-1], Seg):
            out["end-row-is-graph-end"] = which_is(items[-1], "graph_end")
        if S.flow.cls.name in BOUNDED:
            out["pending-rows-below-frame-size"] = flow_len(S.flow) < S.flow.frame_size
        return out


# -------------------------------------------------------------------------------------------------- split_to_graphs
@contract(f"{GSER}:split_to_graphs", serves=["C07", "C19"])
class _split:
    """consumes the quads and hands out sinks; touches nothing else (what the sinks hold is left to the bounded nets)"""
    params = {"data": ABSITER(QUAD)}
    yields = OBJ(SINK)
    loops = {0: LoopSpec(invariant=lambda e: {"a-sink-is-open-whenever-a-graph-name-is-current":
                                              Implies(is_none(e.current_sink), is_none(e.current_g))},
                         modifies=["current_g", "current_sink"],
                         local_sorts={"current_g": OPT(ADTS("gterm")), "current_sink": OPT(OBJ(f"{SINK}@open"))})}

    def ensures(e): return {}


shape(f"{SINK}@open", fields=dict(_store=Sort("absbag"), _namespaces=ABSMAP(STR, IRI_TERM), _identifier=ADTS("gterm")))


# ------------------------------------------------------------------------------------------- graphs_stream_frames
def _gvariants() -> list:
    out = []
    for sfx in ("", "@manual", "@graphs"):
        for data in (OBJ(f"{SINK}@quads"), ABSITER(QUAD)):
            out.append({"stream": OBJ(f"{SS}:GraphStream{sfx}"), "data": data})
    return out


@contract(f"{GSER}:graphs_stream_frames", serves=["C06", "C11", "C03", "C14", "C07"])
class _graphs_frames:
    params = {"stream": OBJ(f"{SS}:GraphStream"), "data": OBJ(f"{SINK}@quads")}
    variants = _gvariants()
    yields = MSG("RdfStreamFrame")
    shards = 6          # one worker per variant
    modifies = STMT_MOD
    loops = {0: LoopSpec(invariant=_stmt_loop, after_each=_after_stmt, modifies=STMT_MOD[:5], silent=_silent_loop)}

    def requires(e): return _frames_pre(e)
    def raises(e): return MAY_REJECT
    def on_raise(e): return {"tables-still-well-formed": wf_te(e.stream.encoder)}
    def ensures(e): return _frames_post(e)

inline(f"{GS}:GenericStatementSink.__init__")      # three assignments: an empty deque, an empty dict, the identifier
inline(f"{GS}:GenericStatementSink.add")           # self._store.append(statement)


# ------------------------------------------------------------------------------------------------- Stream.__init__
from pyvc.contract import NEWOBJ  # noqa: E402
from .options import valid_pair  # noqa: E402
from .streams import CLASS_LOGICAL, PHYS_OF, SOPTS, expected_flow_class  # noqa: E402


def _is_new(e: Any, v: Any) -> bool:
    """the object was allocated during the call (it is shared with nothing that existed before)"""
    return v._ref.id not in e._old_heap


@contract(f"{SS}:Stream.__init__", serves=["C12", "C06", "C13", "C03"])
class _stream_init:
    """C12: everything a stream mutates later is created here, per stream - the repeated-terms list and (unless the caller
    supplied one) the flow are new objects, and the caller's options object is not written to. C06/C13: the flow is the
    supplied one or the inferred one, and the header types are (class physical type, the flow's logical type)."""
    params = {"self": NEWOBJ(f"{SS}:TripleStream"), "encoder": OBJ(GENC), "options": OBJ(SOPTS)}
    variants = [{"self": NEWOBJ(f"{SS}:TripleStream")}, {"self": NEWOBJ(f"{SS}:QuadStream")}, {"self": NEWOBJ(f"{SS}:GraphStream")}]
    modifies = ["self"]

    def requires(e):
        o = e.options
        if o.flow is None:          # a concrete options object without a flow
            return known_logical(o.logical_type)
        return And(known_logical(o.logical_type), Implies(Not(is_none(o.flow)), known_logical(opt_val(o.flow).logical_type)))

    def on_raise(e): return {"the-half-built-stream-is-discarded": True}

    def aliases(e): return {"self.encoder": e.encoder, "self.options": e.options}

    def lists(e):
        o = e.options
        supplied = Not(is_none(o.flow))
        cases = [] if o.flow is None else [dict(label="flow-supplied", when=supplied, set={}, alias={"self.flow": opt_val(o.flow)})]
        # a call site continues with a new flow of each class the inference can choose (the body is checked by `ensures`)
        for name, cond in expected_flow_class(e.self.cls.name, o.logical_type, o.params.delimited).items():
            if cond is not False:
                cases.append(dict(label=f"flow-inferred-{name}", when=And(Not(supplied), cond), set={},
                                  new={"self.flow": OBJ(f"{FL}:{name}")}))
        return cases

    def _final_logical(e):
        o = e.options
        supplied = Not(is_none(o.flow))
        inferred = z3.If(o.logical_type != 0, o.logical_type, _default_logical(e.self.cls.name, o.params.delimited))
        if o.flow is None:
            return inferred
        return z3.If(supplied, opt_val(o.flow).logical_type, inferred)

    def raises(e):
        phys = PHYS_OF[e.self.cls.name]
        return {"JellyAssertionError": Not(valid_pair(z3.IntVal(phys), _stream_init._final_logical(e)))}

    def ensures(e):
        from pyvc.values import Opt
        S, o = e.self, e.options
        supplied = Not(is_none(o.flow))
        flow = S.flow.val if isinstance(S.flow, Opt) else S.flow
        out = {
            "not-yet-enrolled": Not(S.enrolled),
            "no-remembered-terms": And(*[is_none(x) for x in S.repeated_terms.items]) if len(S.repeated_terms.items) == 4 else False,
            "repeated-terms-list-is-per-stream": _is_new(e, S.repeated_terms),
            "stream-types-object-is-per-stream": _is_new(e, S.stream_types),
            "physical-type-of-the-class": S.stream_types.physical_type == PHYS_OF[S.cls.name],
            "logical-type-of-the-flow": S.stream_types.logical_type == flow.logical_type,
            "header-pair-is-valid": valid_pair(S.stream_types.physical_type, S.stream_types.logical_type),
        }
        if _is_new(e, flow):
            exp = expected_flow_class(S.cls.name, o.logical_type, o.params.delimited)
            out["a-flow-is-inferred-only-when-none-was-supplied"] = Not(supplied)
            out["inferred-flow-class-as-specified"] = exp.get(flow.cls.name, False)
            out["inferred-flow-starts-empty"] = flow_len(flow) == 0
        else:
            out["a-flow-that-is-not-new-is-the-supplied-one"] = supplied
        return out


def _default_logical(stream_cls: str, delimited: Any) -> Any:
    from .streams import DEFAULT_FLOW
    return z3.If(delimited, CLASS_LOGICAL[DEFAULT_FLOW[stream_cls]], 0)


# --------------------------------------------------------------------- TermEncoder.__init__, guess_options, guess_stream
from .encode import SE, TENC  # noqa: E402
from .spec_tables import empty_table, table_eq  # noqa: E402
from .terms import GTerm as _GT  # noqa: E402,F401


def tables_match_header(S: Any) -> Any:
    """C03/C13: the sizes announced in the options row are the sizes the writer's tables really have"""
    lp, E = S.options.lookup_preset, S.encoder
    return And(E.names.lookup.max_size == lp.max_names, E.prefixes.lookup.max_size == lp.max_prefixes,
               E.datatypes.lookup.max_size == lp.max_datatypes)


@contract(f"{SE}:TermEncoder.__init__", serves=["C03", "C13", "C12", "C05"])
class _term_encoder_init:
    """a new term encoder has three empty tables of exactly the preset's sizes, coupled with the empty spec tables, and
    shares them with nobody"""
    params = {"self": NEWOBJ(GENC), "lookup_preset": OPT(OBJ(PRESET))}
    variants = [{"self": NEWOBJ(GENC)}, {"self": NEWOBJ("pyjelly.integrations.rdflib.serialize:RDFLibTermEncoder")}]
    modifies = ["self"]

    def requires(e):
        lp = opt_val(e.lookup_preset)
        if lp is None:
            return True       # called without a preset
        return Implies(Not(is_none(e.lookup_preset)),
                       And(lp.max_names >= 1, lp.max_names < 2 ** 32, lp.max_prefixes >= 0, lp.max_prefixes < 2 ** 32,
                           lp.max_datatypes >= 0, lp.max_datatypes < 2 ** 32))

    def lists(e):
        given = Not(is_none(e.lookup_preset))
        if opt_val(e.lookup_preset) is None:
            return [dict(label="default-preset", when=True, set={}, new={"self.lookup_preset": OBJ(PRESET)})]
        return [dict(label="preset-given", when=given, set={}, alias={"self.lookup_preset": opt_val(e.lookup_preset)}),
                dict(label="default-preset", when=Not(given), set={}, new={"self.lookup_preset": OBJ(PRESET)})]

    def ensures(e):
        E = e.self
        from pyvc.values import Opt
        given = Not(is_none(e.lookup_preset))
        lp = opt_val(e.lookup_preset)
        if lp is None:
            sizes = [z3.IntVal(4000), z3.IntVal(150), z3.IntVal(32)]
        else:
            sizes = [z3.If(given, a, d) for a, d in ((lp.max_names, 4000), (lp.max_prefixes, 150), (lp.max_datatypes, 32))]
        new = lambda v: v._ref.id not in e._old_heap  # noqa: E731
        P = E.lookup_preset.val if isinstance(E.lookup_preset, Opt) else E.lookup_preset
        return {"tables-well-formed-and-coupled": wf_te(E),
                "sizes-are-the-preset's-or-the-defaults": And(E.names.lookup.max_size == sizes[0], E.prefixes.lookup.max_size == sizes[1],
                                                              E.datatypes.lookup.max_size == sizes[2]),
                "recorded-preset-has-those-sizes": And(P.max_names == sizes[0], P.max_prefixes == sizes[1], P.max_datatypes == sizes[2]),
                "spec-tables-empty": And(table_eq(E.names.T, empty_table(sizes[0])), table_eq(E.prefixes.T, empty_table(sizes[1])),
                                         table_eq(E.datatypes.T, empty_table(sizes[2]))),
                "tables-are-per-encoder": new(E.names) and new(E.prefixes) and new(E.datatypes)}


@contract(f"{GSER}:guess_stream", serves=["C03", "C13", "C06", "C15", "C12"])
class _guess_stream:
    """the stream built for an entry point uses a new encoder whose tables have exactly the sizes its options row will
    announce; QuadStream unless the sink holds triples or a graphs logical type was asked for"""
    params = {"options": OBJ(SOPTS), "sink": OBJ(f"{SINK}@open")}
    result = Sort("anyobj")
    inline_at_calls = True

    def requires(e):
        o, lp = e.options, e.options.lookup_preset
        return And(known_logical(o.logical_type), is_none(o.flow), lp.max_names >= 1, lp.max_names < 2 ** 32,
                   lp.max_prefixes >= 0, lp.max_prefixes < 2 ** 32, lp.max_datatypes >= 0, lp.max_datatypes < 2 ** 32)

    def raises(e): return {("?", "JellyAssertionError"): True}

    def ensures(e):
        S = e.result
        return {"header-sizes-are-the-encoder's-table-sizes": tables_match_header(S),
                "tables-well-formed": wf_te(S.encoder),
                "options-handed-on": S.options == e.options,
                "not-yet-enrolled": Not(S.enrolled)}

inline(f"{GS}:GenericStatementSink.is_triples_sink")     # bool(store) and len(store[0]) == 3
inline(f"{GSER}:GenericSinkTermEncoder.__init__") if False else None
