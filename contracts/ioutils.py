"""Contracts for pyjelly/parse/ioutils.py and pyjelly/serialize/ioutils.py (C08, later C09/C10/C11)."""
from __future__ import annotations

from typing import Any

import z3

from pyvc.contract import BOOL, BYTES, NAT, contract, inline, lemma
from pyvc.spec import And, Iff, Implies, Not, Or, sel

PIO = "pyjelly.parse.ioutils"


def byte(h: Any, i: int) -> Any:
    return sel(h.b, i)


def hint_formula(h: Any) -> Any:
    return And(h.len >= 3, Or(byte(h, 0) != 0x0A, And(byte(h, 1) == 0x0A, byte(h, 2) != 0x0A)))


# delimited_jelly_hint has no contract of its own: a contract could only restate its boolean formula, and any
# formula that agrees with it on the headers real streams can start with is just as good.  Its body is executed in
# place by the lemma below (and by get_options_and_frames), so the obligation is the property itself.
inline(f"{PIO}:delimited_jelly_hint")


# ---- wire facts (protobuf encoding, A-PROTO): varint first byte, row tag ---------------------------------------------
def varint_first_byte(n: Any) -> Any:
    """first byte of the base-128 varint of n >= 0"""
    return z3.If(n < 128, n, n % 128 + 128)


def varint_len_is_1(n: Any) -> Any:
    return n < 128


ROW_TAG = 0x0A       # RdfStreamFrame.rows: field 1, wire type 2
OPTIONS_TAG = 0x0A   # RdfStreamRow.options: field 1, wire type 2


def stream_header(h: Any, delimited: Any, L: Any, rowlen: Any) -> Any:
    """`h` holds the first three bytes of a stream laid out as the property's premise says:
    delimited:      varint(L) ++ frame, the frame is empty (L == 0) or starts with a row: ROW_TAG varint(rowlen) ...,
                    and that row lies inside the frame (2 + rowlen <= L for a one-byte frame length);
    non-delimited:  one frame starting with a row ROW_TAG varint(rowlen) whose payload is the options row, i.e. starts
                    with OPTIONS_TAG (the options row is never empty on the wire: rowlen >= 2)."""
    b0, b1, b2 = byte(h, 0), byte(h, 1), byte(h, 2)
    delim = And(
        b0 == varint_first_byte(L),
        Implies(And(L >= 1, L < 128), And(b1 == ROW_TAG, b2 == varint_first_byte(rowlen), rowlen >= 0,
                                          2 + rowlen <= L)),     # tag + length byte + payload fit in the frame
        # L == 0 (empty first frame) or L >= 128 (two-byte length): the following bytes are unconstrained
    )
    nondelim = And(b0 == ROW_TAG, b1 == varint_first_byte(rowlen), rowlen >= 2,
                   Implies(rowlen < 128, b2 == OPTIONS_TAG))
    return And(h.len >= 3, L >= 0, z3.If(delimited, delim, nondelim))


@lemma("hint_matches_framing", serves=["C08"], src='''
def hint_matches_framing(header, ghost_delimited, ghost_L, ghost_rowlen):
    return delimited_jelly_hint(header)
''')
class _hint_lemma:
    """Every three-byte header a stream of either framing can start with is classified correctly, for all frame
    lengths and options-row lengths (including L == 10 and rowlen == 10)."""
    params = {"header": BYTES, "ghost_delimited": BOOL, "ghost_L": NAT, "ghost_rowlen": NAT}
    result = BOOL

    def requires(e): return stream_header(e.header, e.ghost_delimited, e.ghost_L, e.ghost_rowlen)

    def ensures(e): return {"classified-as-written": Iff(e.result, e.ghost_delimited)}


# ------------------------------------------------------------------------------------------- get_options_and_frames
from pyvc.contract import LoopSpec, MSG, Sort  # noqa: E402
from pyvc.spec import is_none  # noqa: E402


@contract(f"{PIO}:frame_iterator", serves=["C09", "C10"])
class _frame_iterator:
    """frames are taken off the source one at a time, each handed out before the next one is read (C10/C11: no
    look-ahead); the parser itself is outside the contracts (A-IO)"""
    params = {"inp": Sort("bytesrc", True)}
    variants = [{"inp": Sort("bytesrc", True)}]
    yields = (Sort("frame0"), Sort("frame1", "parsed"))      # a frame without rows, or one with at least one row
    modifies = ["inp"]
    loops = {0: LoopSpec(invariant=lambda e: {"nothing-pending": True}, modifies=["inp", "frame"],
                         after_each=lambda e: {"each-frame-is-handed-out-before-the-next-read": len(e.iter_yields) == 1})}

    def raises(e): return {("?", "DecodeError"): True}
    def on_raise(e): return {"anything": True}
    def ensures(e): return {}


def classified_as_laid_out(src: Any, decision: Any) -> Any:
    """for every way the content can be laid out as a Jelly stream (either framing, any frame length L and first-row length
    rowlen - the premise of C08's lemma, universally quantified: gd/L/rowlen are free constants), the decision taken is
    that framing.  Deliberately *not* the boolean formula of delimited_jelly_hint: any hint that is right on the headers
    real streams can start with is as good."""
    gd, L, rowlen = z3.Bool("gd$c09"), z3.Int("L$c09"), z3.Int("rowlen$c09")
    return Implies(stream_header(src.data, gd, L, rowlen), decision == gd)


@contract(f"{PIO}:get_options_and_frames", serves=["C09", "C08", "C10"])
class _get_options_and_frames:
    """C09: a stream laid out in either framing is classified by its content - not by how the source chunks its reads.
    Proved for seekable sources (read(3) is exact) and for non-seekable ones whenever `BufferedReader.peek(3)` delivered
    three bytes; peek may legally return fewer: that clause carries the known-finding label (D5), reported from the list."""
    params = {"inp": Sort("bytesrc", True)}
    variants = [{"inp": Sort("bytesrc", True)}, {"inp": Sort("bytesrc", False)}]
    result = Sort("anyval")
    modifies = ["inp"]
    tag_suffix = {"@nonseekable-short-peek": ["C09"]}
    loops = {0: LoopSpec(invariant=lambda e: {"no-non-empty-frame-seen-yet": is_none(e.first_frame) if e.first_frame is not None else True},
                         modifies=["skipped_frames"])}

    def raises(e): return {("?", "DecodeError", "JellyConformanceError", "JellyAssertionError"): True}
    def on_raise(e): return {"anything": True}

    def ensures(e):
        opts = e.result.items[0]
        delimited = opts.items[2].delimited
        src = e.old.inp
        same = classified_as_laid_out(src, delimited)
        if src.seekable:
            return {"classified-as-laid-out-whatever-the-chunking": same}
        n = src.data.len
        enough = e.inp.peeked >= z3.If(n < 3, n, 3)      # the peek delivered the first three bytes (or all there is)
        return {"classified-as-laid-out-whatever-the-chunking": Implies(enough, same),
                # D5: BufferedReader.peek(3) may deliver fewer bytes than are available
                "classified-as-laid-out-whatever-the-chunking@nonseekable-short-peek": Implies(Not(enough), same)}
