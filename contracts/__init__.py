"""Sidecar contracts for pyjelly. Importing this package registers every contract with pyvc.contract.REGISTRY."""
from pyvc.contract import REGISTRY

REGISTRY.lemma_imports = {
    "LookupEncoder": "pyjelly.serialize.lookup:LookupEncoder",
    "LookupDecoder": "pyjelly.parse.lookup:LookupDecoder",
    "Lookup": "pyjelly.serialize.lookup:Lookup",
}

from . import spec_tables  # noqa: E402,F401
from . import lookup  # noqa: E402,F401
