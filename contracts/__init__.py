"""Sidecar contracts for pyjelly. Importing this package registers every contract with pyvc.contract.REGISTRY."""
from pyvc.contract import REGISTRY

REGISTRY.lemma_imports = {
    "LookupEncoder": "pyjelly.serialize.lookup:LookupEncoder",
    "LookupDecoder": "pyjelly.parse.lookup:LookupDecoder",
    "Lookup": "pyjelly.serialize.lookup:Lookup",
    "jelly": "pyjelly:jelly",
    "encode_options": "pyjelly.serialize.encode:encode_options",
    "options_from_frame": "pyjelly.parse.decode:options_from_frame",
    "delimited_jelly_hint": "pyjelly.parse.ioutils:delimited_jelly_hint",
}

from . import spec_tables  # noqa: E402,F401
from . import lookup  # noqa: E402,F401
from . import options  # noqa: E402,F401
from . import ioutils  # noqa: E402,F401
from . import terms  # noqa: E402,F401
from . import rows  # noqa: E402,F401
from . import encode  # noqa: E402,F401
from . import flows  # noqa: E402,F401
from . import streams  # noqa: E402,F401
from . import decode  # noqa: E402,F401
from . import serialize_generic  # noqa: E402,F401
from . import roundtrip  # noqa: E402,F401
from . import rdflib_serialize  # noqa: E402,F401
from . import rdflib_parse  # noqa: E402,F401
from . import to_file  # noqa: E402,F401
