"""Contracts for the rdflib integration's term encoder (pyjelly/integrations/rdflib/serialize.py): C02, C15, C03, C01.

rdflib's term classes are read through the same term datatype as the generic integration (contracts/terms.py, A-RDFLIB):
URIRef ~ IRI, BNode ~ BNode, Literal ~ Lit(str(term), .language, .datatype); there is no quoted-triple term, anything
else is a foreign object (`Other`).  RDFLibTermEncoder.encode_spo is verified against *the same contract* as
GenericSinkTermEncoder.encode_spo (restricted to terms that are not quoted triples): whatever is proved of the callers
through that contract - the statement-level encoders, C01/C03/C19 - holds for either encoder, and corresponding inputs
of the two integrations are written identically at term level (C15).
"""
from __future__ import annotations

from typing import Any

import z3

from pyvc.contract import ADTS, INT, MSG, OBJ, ROWS, ROWS_UPTO, contract, inline, shape
from pyvc.spec import And, Implies, Ite, Not, Or, which_is, which_unset, msg_written

from .encode import (_generic_encode_spo, _te_fields, enc_keys, graph_group_untouched, iri_ids_denote, lru_step,
                     other_slots_untouched, rows_account, wf_te)
from .terms import GTerm, RDFLIB_DEFAULT_GRAPH, exc_of

RSER = "pyjelly.integrations.rdflib.serialize"
from .encode import RENC  # noqa: E402


def rdf_term(t: Any) -> Any:
    """the rdflib universe: no quoted triples (a tuple handed in as a term is a foreign object)"""
    return Not(GTerm.is_QTriple(t))


@contract(f"{RENC}.encode_spo", serves=["C02", "C15", "C03", "C01", "C19", "C20"])
class _rdflib_encode_spo(_generic_encode_spo):
    __doc__ = _generic_encode_spo.__doc__
    params = {"self": OBJ(RENC), "term": ADTS("gterm"), "slot": INT, "statement": MSG("RdfTriple")}
    result = ROWS
    modifies = list(_generic_encode_spo.modifies)

    def requires(e):
        return And(_generic_encode_spo.requires(e), rdf_term(e.term))

    raises = _generic_encode_spo.raises
    on_raise = _generic_encode_spo.on_raise
    ensures = _generic_encode_spo.ensures


def is_default_r(t: Any) -> Any:
    return And(GTerm.is_IRI(t), GTerm.iri(t) == z3.StringVal(RDFLIB_DEFAULT_GRAPH))


def graph_exc_r(t: Any) -> Any:
    """rdflib graph names: the default-graph id, a URIRef or a BNode; anything else is refused"""
    return z3.If(Or(GTerm.is_IRI(t), GTerm.is_BNode(t)), 0, 1)


def graph_occ_n_r(t: Any) -> Any:
    return z3.If(And(GTerm.is_IRI(t), Not(is_default_r(t))), 1, 0)


@contract(f"{RENC}.encode_graph", serves=["C02", "C15", "C03", "C01"])
class _rdflib_encode_graph:
    """graph name of a quad / graph start: rdflib's default-graph identifier is written as the default graph, a URIRef
    through the IRI tables (ids denote the IRI), a BNode as its label; literals and foreign objects are refused"""
    params = {"self": OBJ(RENC), "term": ADTS("gterm"), "statement": MSG("RdfQuad")}
    result = ROWS_UPTO(2)
    modifies = ["self.names", "self.prefixes", "self.datatypes", "statement"]

    def requires(e): return And(wf_te(e.self), which_unset(e.statement, "graph"))

    def raises(e): return {"NotImplementedError": graph_exc_r(e.term) == 1}

    def ensures(e):
        E, O, st, t = e.self, e.old.self, e.statement, e.term
        en = E.prefixes.lookup.max_size > 0
        pk, nk = enc_keys(GTerm.iri(t), en)
        named = And(GTerm.is_IRI(t), Not(is_default_r(t)))
        return {"wf": wf_te(E),
                "rows-account-for-table-changes": rows_account(O, E, e.result.items),
                "default-graph-id-is-written-as-the-default-graph": Implies(is_default_r(t), which_is(st, "g_default_graph")),
                "iri-graph-name-denoted": Implies(named, And(
                    which_is(st, "g_iri"),
                    iri_ids_denote(O.prefixes, O.names, E.prefixes, E.names, pk, nk, en, st.g_iri.prefix_id, st.g_iri.name_id),
                    Ite(en, z3.Concat(pk, nk) == GTerm.iri(t), nk == GTerm.iri(t)))),
                "bnode-graph-name": Implies(GTerm.is_BNode(t), And(which_is(st, "g_bnode"), st.g_bnode == GTerm.ident(t))),
                "spo-slots-untouched": other_slots_untouched(st, e.old.statement, z3.IntVal(-1)),
                "message-written": msg_written(st),
                "lru-names": lru_step(O.names.lookup.data, E.names.lookup.data, E.names.lookup.max_size, graph_occ_n_r(t)),
                "lru-prefixes": lru_step(O.prefixes.lookup.data, E.prefixes.lookup.data, E.prefixes.lookup.max_size,
                                         Ite(en, graph_occ_n_r(t), 0)),
                "sizes-fixed": And(E.names.lookup.max_size == O.names.lookup.max_size,
                                   E.prefixes.lookup.max_size == O.prefixes.lookup.max_size,
                                   E.datatypes.lookup.max_size == O.datatypes.lookup.max_size)}


# =========================================================================== rdflib stream_frames (TRIPLES physical type)
from pyvc.contract import ABSITER, MSG, REGISTRY, STR, TUP, LoopSpec, Sort  # noqa: E402
from pyvc.values import BuiltinMethod, Ref, Unsupported  # noqa: E402

from .serialize_generic import (ENC_MOD, MAY_REJECT, STMT_MOD, TRIPLE, IRI_TERM, _after_stmt, _frames_post, _frames_pre,  # noqa: E402
                                _silent_loop, _stmt_loop)
from .streams import SS  # noqa: E402


# a term as rdflib can hold one: anything but a quoted triple
RTERM = Sort("adt", "gterm", lambda t: Not(GTerm.is_QTriple(t)))
RTRIPLE = TUP(RTERM, RTERM, RTERM)


class RGraphModel:
    """A-RDFLIB: an rdflib Graph or Dataset as far as the serializer looks at it: iterating a Graph delivers triples of
    terms, `Dataset.graphs()` delivers graphs, `.namespaces()` delivers (prefix, URIRef) pairs, `.identifier` is a term;
    all of unknown length / content.  isinstance(x, Graph) holds for both, isinstance(x, Dataset) for datasets only."""
    name = "A-RDFLIB rdflib Graph / Dataset as abstract containers"
    kind = "rgraph"

    def make(self, eng: Any, st: Any, sort: Sort, name: str):
        st, ident, inv = eng.make(st, RTERM, name + ".identifier")
        st, r = eng.alloc(st, "rgraph", "Graph", dataset=bool(sort.arg), identifier=ident)
        return st, r, inv

    def isinstance(self, eng: Any, st: Any, v: Ref, nm: str) -> Any:
        last = nm.split(".")[-1]
        if last == "Graph":
            return True
        if last == "Dataset":
            return st.obj(v).get("dataset")
        return False

    def truth(self, eng: Any, st: Any, r: Ref) -> Any:
        raise Unsupported("truthiness of an rdflib graph (len())")

    def getattr(self, eng: Any, st: Any, r: Ref, attr: str, node: Any, ctx: Any):
        if attr == "identifier":
            yield st, st.obj(r).get("identifier")
        else:
            yield st, BuiltinMethod(r, attr)

    def call_method(self, eng: Any, st: Any, r: Ref, name: str, args: list, kwargs: dict, node: Any, ctx: Any):
        if name == "namespaces" and not args:
            st, it, inv = eng.make(st, ABSITER(TUP(STR, IRI_TERM)), "namespaces")
        elif name == "graphs" and not args and st.obj(r).get("dataset"):
            st, it, inv = eng.make(st, ABSITER(Sort("rgraph", False)), "graphs")
        elif name == "quads" and not args and st.obj(r).get("dataset"):
            st, it, inv = eng.make(st, ABSITER(TUP(RTERM, RTERM, RTERM, RTERM)), "quads")
        elif name == "__iter__":
            st, it, inv = eng.make(st, ABSITER(RTRIPLE), "triples")
        else:
            raise Unsupported(f"rdflib Graph.{name}", node)
        yield st.assume(*inv), it

    def iter(self, eng: Any, st: Any, r: Ref, node: Any, ctx: Any):
        yield from self.call_method(eng, st, r, "__iter__", [], {}, node, ctx)


REGISTRY.models["rgraph"] = RGraphModel()


@contract(f"{RSER}:namespace_declarations", serves=["C14", "C02"])
class _r_ns_decls:
    """every binding of the graph's namespace manager goes through Stream.namespace_declaration, in order, one at a time"""
    params = {"store": Sort("rgraph", False), "stream": OBJ(f"{SS}:TripleStream@r")}
    variants = [{"store": Sort("rgraph", False)}, {"store": Sort("rgraph", True)}]
    modifies = ["stream.encoder.names", "stream.encoder.prefixes", "stream.flow.data", "stream.g_ns"]
    loops = {0: LoopSpec(invariant=lambda e: {"tables-well-formed": wf_te(e.stream.encoder)},
                         modifies=["stream.encoder.names", "stream.encoder.prefixes", "stream.g_ns"],
                         extends=["stream.flow.data"])}

    def requires(e): return wf_te(e.stream.encoder)

    def lists(e):
        return [dict(label="declared", when=True, set={"stream.flow.data": list(e.old.stream.flow.data.items) + [...]})]

    def ensures(e): return {"wf": wf_te(e.stream.encoder)}


def _r_variants() -> list:
    out = []
    for sfx in ("@r", "@rmanual", "@rgraphs"):
        for data in (Sort("rgraph", False), Sort("rgraph", True), ABSITER(RTRIPLE)):
            out.append({"stream": OBJ(f"{SS}:TripleStream{sfx}"), "data": data})
    return out


@contract(f"{RSER}:triples_stream_frames", serves=["C06", "C11", "C03", "C14", "C07", "C02"])
class _r_triples_frames:
    """the rdflib twin of the generic triples_stream_frames, under the same clauses: final flush leaves nothing buffered,
    every frame taken out of the flow is yielded, fewer than frame_size rows pending after every statement, declarations
    only on request - for a Graph, for every graph of a Dataset, and for a generator of triples"""
    params = {"stream": OBJ(f"{SS}:TripleStream@r"), "data": Sort("rgraph", False)}
    variants = _r_variants()
    yields = MSG("RdfStreamFrame")
    shards = 9          # one worker per variant
    modifies = STMT_MOD
    # loop 0: the graphs (one for a Graph / generator, arbitrarily many for a Dataset); loop 1: the statements of a graph
    loops = {0: LoopSpec(invariant=_stmt_loop, modifies=STMT_MOD[:5]),
             1: LoopSpec(invariant=_stmt_loop, after_each=_after_stmt, modifies=STMT_MOD[:5], silent=_silent_loop)}

    def requires(e): return _frames_pre(e)
    def raises(e): return MAY_REJECT
    def on_raise(e): return {"tables-still-well-formed": wf_te(e.stream.encoder)}

    def ensures(e):
        out = _frames_post(e)
        out.pop("at-most-one-frame-per-graph-or-dataset", None)     # a Dataset holds any number of graphs
        return out


# ------------------------------------------------------------------------ rdflib quads_stream_frames (QUADS physical type)
from pyvc.contract import NTUP  # noqa: E402
RQUAD = TUP(RTERM, RTERM, RTERM, RTERM)


def _rq_variants() -> list:
    out = []
    for sfx in ("@r", "@rmanual", "@rgraphs"):
        for data in (Sort("rgraph", True), ABSITER(RQUAD)):
            out.append({"stream": OBJ(f"{SS}:QuadStream{sfx}"), "data": data})
    return out


@contract(f"{RSER}:quads_stream_frames", serves=["C06", "C11", "C14", "C02"])
class _r_quads_frames:
    """the rdflib twin of the generic quads_stream_frames (a Dataset's quads, or a generator of quads), same clauses"""
    params = {"stream": OBJ(f"{SS}:QuadStream@r"), "data": Sort("rgraph", True)}
    variants = _rq_variants()
    yields = MSG("RdfStreamFrame")
    shards = 6
    modifies = STMT_MOD
    loops = {0: LoopSpec(invariant=_stmt_loop, after_each=_after_stmt, modifies=STMT_MOD[:5], silent=_silent_loop)}

    def requires(e): return _frames_pre(e)
    def raises(e): return MAY_REJECT
    def on_raise(e): return {"tables-still-well-formed": wf_te(e.stream.encoder)}
    def ensures(e): return _frames_post(e)


@contract(f"{RSER}:graphs_stream_frames", serves=["C06", "C11", "C14", "C02", "C03"])
class _r_graphs_frames:
    """GRAPHS physical type over a Dataset: every graph goes through GraphStream.graph (bracketed, frames handed on at
    once), then the final flush.  (The branch that first collects a generator of quads into a Dataset is not covered: it
    needs a model of Dataset.get_context.)"""
    params = {"stream": OBJ(f"{SS}:GraphStream@r"), "data": Sort("rgraph", True)}
    variants = [{"stream": OBJ(f"{SS}:GraphStream{sfx}"), "data": Sort("rgraph", True)} for sfx in ("@r", "@rmanual", "@rgraphs")]
    yields = MSG("RdfStreamFrame")
    shards = 3
    modifies = STMT_MOD
    loops = {0: LoopSpec(invariant=_stmt_loop, after_each=_after_stmt, modifies=STMT_MOD[:5], silent=_silent_loop)}

    def requires(e): return _frames_pre(e)
    def raises(e): return MAY_REJECT
    def on_raise(e): return {"tables-still-well-formed": wf_te(e.stream.encoder)}
    def ensures(e): return _frames_post(e)


# ----------------------------------------------------------------------------------- Stream.for_rdflib / guess_stream
from .serialize_generic import tables_match_header  # noqa: E402
from .streams import SOPTS  # noqa: E402
from .options import known_logical  # noqa: E402
from pyvc.spec import is_none  # noqa: E402


def _preset_ok(lp: Any) -> Any:
    return And(lp.max_names >= 1, lp.max_names < 2 ** 32, lp.max_prefixes >= 0, lp.max_prefixes < 2 ** 32,
               lp.max_datatypes >= 0, lp.max_datatypes < 2 ** 32)


@contract(f"{SS}:Stream.for_rdflib", serves=["C03", "C13", "C15", "C02", "C12"])
class _for_rdflib:
    """the stream the rdflib entry points build: a new rdflib term encoder whose tables have exactly the sizes the options
    row will announce"""
    params = {"cls": Sort("classref", f"{SS}:TripleStream"), "options": OBJ(SOPTS)}
    variants = [{"cls": Sort("classref", f"{SS}:{c}")} for c in ("TripleStream", "QuadStream", "GraphStream")]
    result = Sort("anyobj")
    inline_at_calls = True

    def requires(e):
        o = e.options
        return And(known_logical(o.logical_type), is_none(o.flow), _preset_ok(o.lookup_preset))

    def raises(e): return {("?", "JellyAssertionError", "TypeError"): True}

    def ensures(e):
        S = e.result
        return {"header-sizes-are-the-encoder's-table-sizes": tables_match_header(S),
                "rdflib-term-encoder": S.encoder.cls.name == "RDFLibTermEncoder",
                "tables-well-formed": wf_te(S.encoder),
                "not-yet-enrolled": Not(S.enrolled)}


@contract(f"{RSER}:guess_stream", serves=["C03", "C13", "C15", "C02", "C06"])
class _r_guess_stream:
    """the rdflib entry points' stream: QuadStream for a Dataset unless a graphs logical type was asked for, TripleStream
    otherwise; its encoder is sized as its header will announce"""
    params = {"options": OBJ(SOPTS), "sink": Sort("rgraph", False)}
    variants = [{"sink": Sort("rgraph", False)}, {"sink": Sort("rgraph", True)}]
    result = Sort("anyobj")
    inline_at_calls = True

    def requires(e):
        o = e.options
        return And(known_logical(o.logical_type), is_none(o.flow), _preset_ok(o.lookup_preset))

    def raises(e): return {("?", "JellyAssertionError"): True}

    def ensures(e):
        S, o = e.result, e.options
        want_quads = And(o.logical_type % 10 != 3, bool(e.sink.dataset))
        return {"header-sizes-are-the-encoder's-table-sizes": tables_match_header(S),
                "quad-stream-for-datasets-unless-graphs": want_quads == (S.cls.name == "QuadStream"),
                "triple-stream-otherwise": Or(want_quads, S.cls.name == "TripleStream"),
                "rdflib-term-encoder": S.encoder.cls.name == "RDFLibTermEncoder"}


# ------------------------------------------------------------------------------ RDFLibJellySerializer.serialize (entry)
shape(f"{RSER}:RDFLibJellySerializer", fields=dict(store=Sort("rgraph", False)))
inline(f"{RSER}:guess_options")

from .flows import flow_len  # noqa: E402
SIO = "pyjelly.serialize.ioutils"
inline(f"{SIO}:write_delimited")
inline(f"{SIO}:write_single")


def _each_frame_written(e):
    """C06: the frame just obtained is written, once, with the framing the stream's options ask for, before the next one
    is asked for"""
    w_new, w_old = e.out._obj().get("writes"), e.old.out._obj().get("writes")
    ok = len(w_new) == len(w_old) + 1 and w_new[:len(w_old)] == w_old
    out = {"exactly-one-write-per-frame": ok}
    if ok:
        how, msg = w_new[-1]
        delim = e.stream.options.params.delimited
        out["the-frame-itself-is-written"] = msg == e.stream_frame._ref
        out["framing-as-configured"] = Ite(delim, how == "delimited", how == "single")
    return out


@contract(f"{RSER}:RDFLibJellySerializer.serialize", serves=["C06", "C02", "C08"])
class _r_serialize:
    """the rdflib plugin's entry point: every frame that stream_frames produces for the store is written to `out`, in
    order, length-prefixed iff the options say delimited (stream given by the caller; the guessing branch is guess_stream's
    contract)"""
    params = {"self": OBJ(f"{RSER}:RDFLibJellySerializer"), "out": Sort("bytesink"), "stream": OBJ(f"{SS}:TripleStream@r"),
              "options": OBJ(SOPTS), "unused": Sort("const", None)}
    variants = [{"stream": OBJ(f"{SS}:TripleStream{sfx}")} for sfx in ("@r", "@rmanual", "@rgraphs")]
    modifies = ["out"] + STMT_MOD
    loops = {0: LoopSpec(invariant=lambda e: {"stream-kept": True}, after_each=_each_frame_written, modifies=["out"])}

    def requires(e): return _frames_pre(e)
    def raises(e): return MAY_REJECT
    def on_raise(e): return {"anything": True}
    def ensures(e): return {"nothing-left-buffered": flow_len(e.stream.flow) == 0}
