"""Contracts for the rdflib integration's term encoder (pyjelly/integrations/rdflib/serialize.py): C02, C15, C03, C01.

rdflib's term classes are read through the same term datatype as the generic integration (contracts/terms.py, A-RDFLIB):
URIRef ~ IRI, BNode ~ BNode, Literal ~ Lit(str(term), .language, .datatype); there is no quoted-triple term, anything
else is a foreign object (`Other`).  RDFLibTermEncoder.encode_spo is verified against *the same contract* as
GenericSinkTermEncoder.encode_spo (restricted to terms that are not quoted triples): whatever is proved of the callers
through that contract - the statement-level encoders, C01/C03/C19 - holds for either encoder, and corresponding inputs
of the two integrations are written identically at term level (C15).
"""
from __future__ import annotations

from typing import Any

import z3

from pyvc.contract import ADTS, INT, MSG, OBJ, ROWS, ROWS_UPTO, contract, shape
from pyvc.spec import And, Implies, Ite, Not, Or, which_is, which_unset, msg_written

from .encode import (_generic_encode_spo, _te_fields, enc_keys, graph_group_untouched, iri_ids_denote, lru_step,
                     other_slots_untouched, rows_account, wf_te)
from .terms import GTerm, RDFLIB_DEFAULT_GRAPH, exc_of

RSER = "pyjelly.integrations.rdflib.serialize"
from .encode import RENC  # noqa: E402


def rdf_term(t: Any) -> Any:
    """the rdflib universe: no quoted triples (a tuple handed in as a term is a foreign object)"""
    return Not(GTerm.is_QTriple(t))


@contract(f"{RENC}.encode_spo", serves=["C02", "C15", "C03", "C01", "C19", "C20"])
class _rdflib_encode_spo(_generic_encode_spo):
    __doc__ = _generic_encode_spo.__doc__
    params = {"self": OBJ(RENC), "term": ADTS("gterm"), "slot": INT, "statement": MSG("RdfTriple")}
    result = ROWS
    modifies = list(_generic_encode_spo.modifies)

    def requires(e):
        return And(_generic_encode_spo.requires(e), rdf_term(e.term))

    raises = _generic_encode_spo.raises
    on_raise = _generic_encode_spo.on_raise
    ensures = _generic_encode_spo.ensures


def is_default_r(t: Any) -> Any:
    return And(GTerm.is_IRI(t), GTerm.iri(t) == z3.StringVal(RDFLIB_DEFAULT_GRAPH))


def graph_exc_r(t: Any) -> Any:
    """rdflib graph names: the default-graph id, a URIRef or a BNode; anything else is refused"""
    return z3.If(Or(GTerm.is_IRI(t), GTerm.is_BNode(t)), 0, 1)


def graph_occ_n_r(t: Any) -> Any:
    return z3.If(And(GTerm.is_IRI(t), Not(is_default_r(t))), 1, 0)


@contract(f"{RENC}.encode_graph", serves=["C02", "C15", "C03", "C01"])
class _rdflib_encode_graph:
    """graph name of a quad / graph start: rdflib's default-graph identifier is written as the default graph, a URIRef
    through the IRI tables (ids denote the IRI), a BNode as its label; literals and foreign objects are refused"""
    params = {"self": OBJ(RENC), "term": ADTS("gterm"), "statement": MSG("RdfQuad")}
    result = ROWS_UPTO(2)
    modifies = ["self.names", "self.prefixes", "self.datatypes", "statement"]

    def requires(e): return And(wf_te(e.self), which_unset(e.statement, "graph"))

    def raises(e): return {"NotImplementedError": graph_exc_r(e.term) == 1}

    def ensures(e):
        E, O, st, t = e.self, e.old.self, e.statement, e.term
        en = E.prefixes.lookup.max_size > 0
        pk, nk = enc_keys(GTerm.iri(t), en)
        named = And(GTerm.is_IRI(t), Not(is_default_r(t)))
        return {"wf": wf_te(E),
                "rows-account-for-table-changes": rows_account(O, E, e.result.items),
                "default-graph-id-is-written-as-the-default-graph": Implies(is_default_r(t), which_is(st, "g_default_graph")),
                "iri-graph-name-denoted": Implies(named, And(
                    which_is(st, "g_iri"),
                    iri_ids_denote(O.prefixes, O.names, E.prefixes, E.names, pk, nk, en, st.g_iri.prefix_id, st.g_iri.name_id),
                    Ite(en, z3.Concat(pk, nk) == GTerm.iri(t), nk == GTerm.iri(t)))),
                "bnode-graph-name": Implies(GTerm.is_BNode(t), And(which_is(st, "g_bnode"), st.g_bnode == GTerm.ident(t))),
                "spo-slots-untouched": other_slots_untouched(st, e.old.statement, z3.IntVal(-1)),
                "message-written": msg_written(st),
                "lru-names": lru_step(O.names.lookup.data, E.names.lookup.data, E.names.lookup.max_size, graph_occ_n_r(t)),
                "lru-prefixes": lru_step(O.prefixes.lookup.data, E.prefixes.lookup.data, E.prefixes.lookup.max_size,
                                         Ite(en, graph_occ_n_r(t), 0)),
                "sizes-fixed": And(E.names.lookup.max_size == O.names.lookup.max_size,
                                   E.prefixes.lookup.max_size == O.prefixes.lookup.max_size,
                                   E.datatypes.lookup.max_size == O.datatypes.lookup.max_size)}
