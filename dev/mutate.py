"""Development gate: apply textual mutations to a scratch copy of /repo/pyjelly and run a command on it.
usage: python3 dev/mutate.py <catalogue.json> [ids...] -- <command with {tree}>"""
import json, os, shutil, subprocess, sys, tempfile

def main():
    args = sys.argv[1:]
    sep = args.index("--")
    cat = json.load(open(args[0]))
    ids = args[1:sep]
    cmd = args[sep + 1:]
    for m in cat:
        if ids and m["id"] not in ids:
            continue
        d = tempfile.mkdtemp(prefix="pyvc_mut_")
        try:
            shutil.copytree("/repo/pyjelly", os.path.join(d, "pyjelly"), ignore_dangling_symlinks=True, ignore=shutil.ignore_patterns("__pycache__"))
            path = os.path.join(d, m["file"])
            s = open(path).read()
            if s.count(m["old"]) != 1:
                print(f"## {m['id']}: pattern occurs {s.count(m['old'])} times, skipped"); continue
            open(path, "w").write(s.replace(m["old"], m["new"]))
            c = [x.replace("{tree}", d) for x in cmd]
            p = subprocess.run(c, capture_output=True, text=True)
            out = (p.stdout + p.stderr).strip().splitlines()
            bad = [l for l in out if l.strip().startswith(("REFUTED", "UNKNOWN", "UNSUPPORTED", "VIOLATION", "UNDECIDED", "KNOWN", "EXIT", "MACHINERY", "Traceback"))]
            print(f"## {m['id']} ({m.get('expect','')}): exit={p.returncode} {out[-1] if out else ''}")
            for l in bad[:6]:
                print("     ", l.strip()[:200])
        finally:
            shutil.rmtree(d, ignore_errors=True)
main()
