"""dev/obs.py <tree> <pattern>: list every obligation generated for the matching contracts (no solving)"""
import sys
sys.path.insert(0, "/verif")
from pyvc import models
from pyvc.contract import REGISTRY
from pyvc.engine import Engine
from pyvc.run import load_proto
from pyvc.source import Tree
root, pats = sys.argv[1], sys.argv[2:]
tree = Tree(root); proto = load_proto(root); models.install()
import contracts  # noqa
eng = Engine(tree, REGISTRY, proto)
for c in list(REGISTRY.contracts.values()) + list(REGISTRY.lemmas.values()):
    if any(p in c.key for p in pats) and not c.trusted and not c.inline:
        obs = eng.verify(c)
        print(c.key, eng.func_stats[c.key])
        for o in obs:
            print("   ", o.kind, o.label, "| note:", " ".join(o.note)[-150:] if isinstance(o.note, tuple) else o.note)
