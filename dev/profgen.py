import sys, cProfile, pstats
sys.path.insert(0,'/verif')
from pyvc import models
from pyvc.contract import REGISTRY
from pyvc.engine import Engine
from pyvc.source import Tree
from pyvc.run import load_proto
models.install()
import contracts
tree=sys.argv[1]; key=sys.argv[2]
eng = Engine(Tree(tree), REGISTRY, load_proto(tree))
c = REGISTRY.contracts.get(key) or REGISTRY.lemmas.get(key)
cProfile.run('eng.verify(c)', '/tmp/prof.out')
p=pstats.Stats('/tmp/prof.out'); p.sort_stats('cumulative').print_stats(28)
