"""dev/mkmanifest.py: regenerate MANIFEST.json from properties_map.py (single source for level texts)"""
import json, sys
sys.path.insert(0, "/verif")
from properties_map import PROPS
m = json.load(open("/verif/MANIFEST.json"))
SEC = {p: f"DESIGN.md section 7 ({p})" for p in PROPS}
checks = []
for pid in sorted(PROPS):
    P = PROPS[pid]
    note = ("Proved obligations hold for all inputs under the trusted base listed in the evidence (library models, CPython "
            "semantics of the supported subset, mathematical integers, working-tree source only). ")
    if P["level"] != "proof":
        note = ("Mixed level: obligations on the functions under contract are proved for all inputs; everything else in this "
                "property is bounded (scope in the evidence), never counted as proved. ")
    note += P.get("note", "")
    checks.append({
        "property_id": pid, "quick_cmd": f"./check {pid} quick", "thorough_cmd": f"./check {pid} thorough",
        "evidence_file": f"evidence/{pid}.json", "replay_cmd_template": "./check --replay {path}", "engine": "pyvc",
        "level_claimed": {"category": P["level"], "text": P["explanation"], "design_ref": SEC[pid]},
        "level_note": note.strip(), "technique": P["technique"]})
m["checks"] = checks
m["not_applicable"] = []
m["notes"] = ("All 20 properties are claimed. Categories: `proof` = the core of the statement is carried by discharged proof "
              "obligations; `other` = mixed (proved obligations on the functions under contract + a bounded net, labelled "
              "bounded, for the rest). Known findings (D5, D6, D7) are listed in known_findings.json and printed as "
              "KNOWN-FINDING lines; see DESIGN.md sections 7-8.")
json.dump(m, open("/verif/MANIFEST.json", "w"), indent=1)
print("checks:", len(checks))
