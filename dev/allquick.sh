#!/bin/sh
# run every registered quick check on /repo, 3 at a time; print the summary lines
cd /verif
python3 -c "import json;[print(c['property_id']) for c in json.load(open('MANIFEST.json'))['checks']]" | xargs -P 3 -I{} sh -c './check {} quick > scratch/quick_{}.log 2>&1; echo "{} exit=$?"'
grep -h " -> exit" scratch/quick_*.log | cut -c1-160
