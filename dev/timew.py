import sys,time,json
sys.path.insert(0,'/verif')
import driver, multiprocessing as mp
if __name__=='__main__':
    pid = sys.argv[1] if len(sys.argv)>1 else 'C05'
    driver._PROTO=driver.load_proto()
    from pyvc import models
    from pyvc.contract import REGISTRY
    models.install()
    import contracts
    jobs=[(c.key,'quick',i,c.shards) for c in REGISTRY.for_property(pid) for i in range(c.shards)]
    ctx=mp.get_context('spawn')
    t=time.time()
    with ctx.Pool(16, initializer=driver._init_worker, initargs=(driver._PROTO, driver.TREE, ["@undersized-tables","rejected-statement-leaves-no-trace"])) as pool:
        print('pool up', time.time()-t)
        for r in pool.imap_unordered(driver._worker, jobs, chunksize=1):
            print(round(time.time()-t,2), r['key'], round(r['wall'],2), r.get('error','')[:300])
