"""dev/handmatrix.py [ids...]: run every hand-made change of dev/catalogue.json against the quick check of the property
named first in its `expect` text (scratch copy, PYVC_TREE); harmless entries (expect starts with 'harmless') must exit 0."""
import json, os, re, shutil, subprocess, sys, tempfile
from concurrent.futures import ThreadPoolExecutor
cat = json.load(open("/verif/dev/catalogue.json"))
ids = sys.argv[1:]


def run(m):
    props = re.findall(r"C\d\d", m.get("expect", "") + " " + m.get("props", ""))
    harmless = m.get("expect", "").lower().startswith("harmless")
    if not props:
        return f"{m['id']}: no property named in expect ({m.get('expect','')[:40]})"
    d = tempfile.mkdtemp(prefix="pyvc_mut_")
    try:
        shutil.copytree("/repo/pyjelly", os.path.join(d, "pyjelly"), ignore=shutil.ignore_patterns("__pycache__", "_proto"), ignore_dangling_symlinks=True)
        path = os.path.join(d, m["file"])
        s = open(path).read()
        if s.count(m["old"]) != 1:
            return f"{m['id']}: pattern occurs {s.count(m['old'])} times, skipped"
        open(path, "w").write(s.replace(m["old"], m["new"]))
        outs = []
        for prop in props[:2]:
            r = subprocess.run(["python3-vt", "/verif/driver.py", prop, "quick"], capture_output=True, text=True,
                               env=dict(os.environ, PYVC_TREE=d, PYVC_PROCS="5", PYVC_NET_BUDGET="8"))
            lines = (r.stdout + r.stderr).splitlines()
            v = next((l for l in lines if l.startswith("VIOLATION")), "")
            rp = v.split("replay=")[1].split("/")[-1][:90] if v else ""
            outs.append(f"{prop}: exit={r.returncode} {rp}")
            if r.returncode == 1 and not harmless:
                break
        verdict = "OK" if (harmless and all("exit=0" in o for o in outs)) or (not harmless and any("exit=1" in o for o in outs)) else "**MISSED**" if not harmless else "**FALSE ALARM**"
        return f"{m['id']} [{verdict}] {' | '.join(outs)}  ({m.get('expect','')[:60]})"
    finally:
        shutil.rmtree(d, ignore_errors=True)


todo = [m for m in cat if not ids or m["id"] in ids]
with ThreadPoolExecutor(3) as ex:
    for line in ex.map(run, todo):
        print(line, flush=True)
