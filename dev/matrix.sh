#!/bin/sh
# dev/matrix.sh: run each seeded change against its target property's check (scratch copy, PYVC_TREE); 3 at a time
cd /verif
mkdir -p scratch
registered=$(python3 -c "import json;print(' '.join(c['property_id'] for c in json.load(open('MANIFEST.json'))['checks']))")
for d in seeded/*/; do
  id=$(basename $d); prop=${id%-*}
  case " $registered " in *" $prop "*) ;; *) continue;; esac
  echo "$id $prop"
done | xargs -P 3 -L 1 sh -c 'PYVC_PROCS=5 python3 dev/seeded.py $0 $1 > scratch/matrix_$0.txt 2>&1'
cat scratch/matrix_*.txt
