#!/bin/sh
# run every registered thorough check on /repo, 2 at a time; print the summary lines
cd /verif
python3 -c "import json;[print(c['property_id']) for c in json.load(open('MANIFEST.json'))['checks']]" | xargs -P 2 -I{} sh -c './check {} thorough > scratch/thorough_{}.log 2>&1; echo "{} exit=$?"'
grep -h " -> exit" scratch/thorough_*.log | cut -c1-200
