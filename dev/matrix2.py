"""dev/matrix2.py [ids...]: run every seeded change against the check of its target property (scratch copy via PYVC_TREE),
record in seeded/<id>/meta.json which layer reported it (proof obligations refuted / bounded-net classes), print a table."""
import json, os, re, shutil, subprocess, sys, tempfile
from concurrent.futures import ThreadPoolExecutor

ROOT = "/verif"
ids = sys.argv[1:] or sorted(d for d in os.listdir(f"{ROOT}/seeded") if os.path.isdir(f"{ROOT}/seeded/{d}"))


def run(sid: str) -> dict:
    prop = sid.split("-")[0]
    d = tempfile.mkdtemp(prefix="pyvc_seed_")
    try:
        shutil.copytree("/repo/pyjelly", os.path.join(d, "pyjelly"), ignore=shutil.ignore_patterns("__pycache__", "_proto"))
        p = subprocess.run(["patch", "-p1", "-s", "-i", f"{ROOT}/seeded/{sid}/patch.diff"], cwd=d, capture_output=True, text=True)
        if p.returncode:
            return {"id": sid, "error": "patch failed"}
        r = subprocess.run(["python3-vt", f"{ROOT}/driver.py", prop, "quick"], capture_output=True, text=True,
                           env=dict(os.environ, PYVC_TREE=d, PYVC_PROCS="5"))
        out = (r.stdout + r.stderr).splitlines()
        viol = [l for l in out if l.startswith("VIOLATION")]
        proof = sorted({re.sub(r"-[0-9a-f]{10}\.json.*$", "", l.split("replay=")[1].split("/")[-1]) for l in viol if "bounded" not in l.split("replay=")[1]})
        bounded = sorted({re.sub(r"-[0-9a-f]{10}\.json.*$", "", l.split("replay=")[1].split("/")[-1]) for l in viol if "bounded" in l.split("replay=")[1]})
        undec = [l[:160] for l in out if l.startswith("UNDECIDED")][:3]
        summ = next((l for l in out if " -> exit" in l), "")
        return {"id": sid, "check": prop, "exit": r.returncode, "proof": proof, "bounded": bounded, "undecided": undec, "summary": summ[:200]}
    finally:
        shutil.rmtree(d, ignore_errors=True)


with ThreadPoolExecutor(3) as ex:
    results = list(ex.map(run, ids))
for r in results:
    mp = f"{ROOT}/seeded/{r['id']}/meta.json"
    meta = json.load(open(mp)) if os.path.exists(mp) else {}
    meta["detected_by"] = {k: r.get(k) for k in ("check", "exit", "proof", "bounded", "undecided")}
    json.dump(meta, open(mp, "w"), indent=1)
    print(f"{r['id']}: exit={r.get('exit')} proof={len(r.get('proof', []))} bounded={len(r.get('bounded', []))} undecided={len(r.get('undecided', []))} :: {(r.get('proof') or r.get('bounded') or [''])[0][:110]}")
