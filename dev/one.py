import sys,time
sys.path.insert(0,'/verif')
import driver
if __name__=='__main__':
    driver._PROTO=driver.load_proto()
    r=driver._worker((sys.argv[1],'quick',0,1))
    print(r.get('error',''))
    for row in r['rows']:
        if row['ms']>300 or row['status']!='proved': print(row['name'], row['status'], row['ms'], row['backend'], row['note'])
    print('wall', r['wall'])
