import sys, time
sys.path.insert(0,'/verif')
exec(open('/verif/dev/one_ob.py').read().split("for ob in obs:")[0])
for ob in obs:
    if label in ob.label and ob.kind!='cover' and ob.note==('L271if=T', 'L276if=F', 'L281if=T'):
        for seed in range(0,5):
            for extra in ({}, {"smt.mbqi": False}, {"smt.ematching": True, "smt.mbqi": False, "smt.qi.eager_threshold": 100}):
                s=z3.Solver(); s.set('timeout', 20000); s.set('smt.random_seed', seed)
                for k,v in extra.items(): s.set(k, v)
                for x in ob.pc: s.add(x)
                s.add(z3.Not(ob.goal))
                t=time.time(); r=s.check(); print(seed, extra, r, round(time.time()-t,1), flush=True)
        open('/tmp/hard.smt2','w').write(s.to_smt2())
