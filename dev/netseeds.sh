#!/bin/sh
# run every bounded net on /repo with several seeds (quick tier); print nets that report a failure that is not a listed class
cd /verif
for seed in 1 2 3 7; do
  for n in bounded/c[0-9][0-9].py; do
    id=$(basename $n .py)
    out=$(cd /repo && PYTHONPATH=/repo:/verif PYTHONHASHSEED=0 /venv/bin/python /verif/$n --tree /repo --tier quick --seed $seed --replays /verif/scratch/netseed_replays 2>&1 | tail -1)
    echo "$id seed=$seed $(echo "$out" | python3 -c "
import json,sys
try:
    o=json.loads(sys.stdin.read()); print('evals=%s failures=%s %s' % (o['evaluations'], o['failures_n'], sorted({f['class'] for f in o['failures']})))
except Exception as e: print('CRASH', e)
")"
  done
done
