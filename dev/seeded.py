"""dev/seeded.py <seed-id> <what...>: apply a seeded change to a scratch copy and run checks/nets on it.
what = property ids (runs ./check <id> quick with PYVC_TREE) or net:<cXX> (runs the bounded net alone)."""
import json, os, shutil, subprocess, sys, tempfile
sid, whats = sys.argv[1], sys.argv[2:]
d = tempfile.mkdtemp(prefix="pyvc_seed_")
try:
    shutil.copytree("/repo/pyjelly", os.path.join(d, "pyjelly"), ignore=shutil.ignore_patterns("__pycache__", "_proto"))
    p = subprocess.run(["patch", "-p1", "-s", "-i", f"/verif/seeded/{sid}/patch.diff"], cwd=d, capture_output=True, text=True)
    if p.returncode:
        print("PATCH FAILED", p.stdout, p.stderr); sys.exit(2)
    for w in whats:
        if w.startswith("net:"):
            env = dict(os.environ, PYTHONPATH=f"{d}:/verif")
            r = subprocess.run(["/venv/bin/python", f"/verif/bounded/{w[4:]}.py", "--tree", d, "--tier", os.environ.get("TIER", "quick"), "--replays", "/verif/replays"], capture_output=True, text=True, env=env, cwd=d)
            try:
                o = json.loads(r.stdout.strip().splitlines()[-1])
                print(f"{sid} {w}: evaluations={o['evaluations']} failures={o['failures_n']}", [f["class"] for f in o["failures"]][:5])
            except Exception:
                print(f"{sid} {w}: CRASH", r.stderr[-800:])
        else:
            r = subprocess.run(["python3-vt", "/verif/driver.py", w, os.environ.get("TIER", "quick")], capture_output=True, text=True, env=dict(os.environ, PYVC_TREE=d))
            lines = [l for l in (r.stdout + r.stderr).splitlines() if l.startswith(("VIOLATION", "KNOWN", "UNDECIDED", "MACHINERY", "VACUOUS")) or " -> exit" in l]
            print(f"{sid} {w}: exit={r.returncode}", " | ".join(x[:230] for x in lines[:4]))
finally:
    shutil.rmtree(d, ignore_errors=True)
