#!/bin/sh
# dev/ingest.sh <PROP> <VARIANT>: verify an agent-made change in its worktree and keep it as /verif/seeded/<PROP>-<VARIANT>/
P=$1; V=$2; WT=/tmp/wt_$P; OUT=$WT/_out/$V; DEST=/verif/seeded/$P-$V
set -e
cd $WT
git checkout -q -- pyjelly tests 2>/dev/null || true
git apply $OUT/patch.diff
T=$(/venv/bin/python -m pytest -q -p no:cacheprovider --timeout=900 --ignore=_out 2>&1 | tail -1)
git checkout -q -- tests
set +e
TREE=$WT /venv/bin/python $OUT/demo_$V.py > /tmp/demo_mod.txt 2>&1; D1=$?
git checkout -q -- pyjelly
TREE=$WT /venv/bin/python $OUT/demo_$V.py > /tmp/demo_clean.txt 2>&1; D0=$?
echo "$P-$V tests: $T | demo modified exit=$D1 | demo clean exit=$D0"
case "$T" in *failed*|*error*) echo "REJECT: tests"; exit 1;; *" passed"*) ;; *) echo "REJECT: tests"; exit 1;; esac
[ "$D1" = "1" ] && [ "$D0" = "0" ] || { echo "REJECT: demo"; exit 1; }
mkdir -p $DEST
cp $OUT/patch.diff $DEST/patch.diff
cp $OUT/demo_$V.py $DEST/demo.py
cp $OUT/notes.md $DEST/notes.md
python3 - "$P" "$V" "$T" <<'PY'
import json,sys,subprocess
p,v,t=sys.argv[1:4]
notes=open(f'/verif/seeded/{p}-{v}/notes.md').read()
head=subprocess.run(['git','-C','/repo','rev-parse','--short','HEAD'],capture_output=True,text=True).stdout.strip()
json.dump({"id":f"{p}-{v}","breaks_property":p,"base_commit":head,"origin":"independent sub-agent given only the property text and a scratch worktree",
 "needs_to_manifest":notes[:1500],
 "confirmed":{"tests_with_change":t,"demo_with_change_exit":1,"demo_without_change_exit":0,"how":"dev/ingest.sh: git apply in a scratch worktree, full pytest run, demo with TREE=<worktree>, git checkout, demo again"},
 "detected_by":[]}, open(f'/verif/seeded/{p}-{v}/meta.json','w'), indent=1)
PY
tail -3 /tmp/demo_mod.txt
