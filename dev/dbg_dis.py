import sys, time
sys.path.insert(0,'/verif')
exec(open('/verif/dev/one_ob.py').read().split("for ob in obs:")[0])
import pyvc.solve as S
for ob in obs:
    if label in ob.label and ob.kind!='cover' and ob.note==('L271if=T', 'L276if=T', 'L281if=T'):
        parts=S.split_goal(ob.goal); print(len(parts))
        ctx2=z3.Context()
        pc2=[c.translate(ctx2) for c in ob.pc if c is not True]
        for part in parts:
            sp=z3.Solver(ctx=ctx2); sp.set('timeout',6000); sp.set('smt.mbqi',False); sp.add(*pc2); sp.add(z3.Not(part.translate(ctx2)))
            t=time.time(); r=sp.check(); print(r, round(time.time()-t,1), flush=True)
        t=time.time(); S.discharge(ob); print(ob.status, ob.detail, round(time.time()-t,1))
