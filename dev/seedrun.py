"""dev/seedrun.py <seed-id> <pattern...>: run pyvc.run (selected contracts) on a scratch copy with the seeded change"""
import os, shutil, subprocess, sys, tempfile
sid, pats = sys.argv[1], sys.argv[2:]
d = tempfile.mkdtemp(prefix="pyvc_seed_")
try:
    shutil.copytree("/repo/pyjelly", os.path.join(d, "pyjelly"), ignore=shutil.ignore_patterns("__pycache__", "_proto"))
    p = subprocess.run(["patch", "-p1", "-s", "-i", f"/verif/seeded/{sid}/patch.diff"], cwd=d, capture_output=True, text=True)
    assert p.returncode == 0, p.stdout + p.stderr
    r = subprocess.run(["python3-vt", "-m", "pyvc.run", d] + pats, capture_output=True, text=True, cwd="/verif")
    out = (r.stdout + r.stderr).splitlines()
    print(f"## {sid}:", out[-1] if out else "")
    for l in out:
        if l.strip().startswith(("REFUTED", "UNKNOWN", "UNSUPPORTED", "Traceback")) :
            print("   ", l.strip()[:190])
finally:
    shutil.rmtree(d, ignore_errors=True)
