import sys, time
sys.path.insert(0,'/verif')
exec(open('/verif/dev/one_ob.py').read().split("for ob in obs:")[0])
import pyvc.solve as S
for ob in obs:
    if label in ob.label and ob.kind!='cover' and ob.note==('L271if=T', 'L276if=T', 'L281if=T'):
        for i,part in enumerate(S.split_goal(ob.goal)):
            s=z3.Solver()
            for c in ob.pc:
                if c is not True: s.add(c)
            s.add(z3.Not(part))
            open(f'/tmp/part{i}.smt2','w').write(s.to_smt2())
