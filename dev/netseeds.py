"""dev/netseeds.py: every bounded net on /repo with several seeds (quick tier); reports failure classes per run"""
import glob, json, os, subprocess, sys
from concurrent.futures import ThreadPoolExecutor
seeds = [int(x) for x in sys.argv[1:]] or [1, 2, 3, 7]
known = {"c09": {"short-first-read"}, "c18": {"overflow"}, "c20": {"partial"}}
jobs = [(n, s) for s in seeds for n in sorted(glob.glob("/verif/bounded/c[0-9][0-9].py"))]


def run(job):
    n, seed = job
    nid = os.path.basename(n)[:-3]
    env = dict(os.environ, PYTHONPATH="/repo:/verif", PYTHONHASHSEED="0")
    p = subprocess.run(["/venv/bin/python", n, "--tree", "/repo", "--tier", "quick", "--seed", str(seed), "--replays", "/verif/scratch/netseed_replays"],
                       capture_output=True, text=True, cwd="/repo", env=env)
    try:
        o = json.loads(p.stdout.strip().splitlines()[-1])
        cls = {f["class"] for f in o["failures"]}
        bad = cls - known.get(nid, set())
        return f"{nid} seed={seed} evals={o['evaluations']} classes={sorted(cls)} {'**UNLISTED FAILURE**' if bad else 'ok'}"
    except Exception as e:  # noqa: BLE001
        return f"{nid} seed={seed} **CRASH** {e} {p.stderr[-300:]}"


with ThreadPoolExecutor(3) as ex:
    for line in ex.map(run, jobs):
        print(line, flush=True)
