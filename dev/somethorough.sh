#!/bin/sh
# dev/somethorough.sh <ids...>: thorough checks for the given properties, 2 at a time
cd /verif
for p in "$@"; do echo $p; done | xargs -P 2 -I{} sh -c './check {} thorough > scratch/thorough_{}.log 2>&1; echo "{} exit=$?"'
