import sys, time
sys.path.insert(0,'/verif')
from pyvc import models
from pyvc.contract import REGISTRY
from pyvc.engine import Engine
from pyvc.source import Tree
from pyvc.run import load_proto
import z3
models.install()
import contracts
tree, key, label, tmo = sys.argv[1], sys.argv[2], sys.argv[3], int(sys.argv[4])
eng = Engine(Tree(tree), REGISTRY, load_proto(tree))
c = REGISTRY.contracts.get(key) or REGISTRY.lemmas.get(key)
obs = eng.verify(c)
for ob in obs:
    if label in ob.label and ob.kind!='cover':
        s=z3.Solver(); s.set('timeout', tmo*1000)
        for x in ob.pc: s.add(x)
        s.add(z3.Not(ob.goal))
        t=time.time(); r=s.check(); print(ob.label, ob.note, r, round(time.time()-t,1))
