import sys, time
sys.path.insert(0,'/verif')
exec(open('/verif/dev/one_ob.py').read().split("for ob in obs:")[0])
from pyvc.solve import split_goal
for ob in obs:
    if label in ob.label and ob.kind!='cover' and ob.note==('L271if=T', 'L276if=T', 'L281if=T'):
        for part in split_goal(ob.goal):
            for mb in (False, True):
                s=z3.Solver(); s.set('timeout', tmo*1000); s.set('smt.mbqi', mb)
                for x in ob.pc: s.add(x)
                s.add(z3.Not(part))
                t=time.time(); r=s.check(); dt=time.time()-t
                print(mb, r, round(dt,1), str(part.children()[1])[:150].replace('\n',' '), flush=True)
                if r==z3.unsat: break
