#!/bin/sh
# usage: dev/mutcheck.sh <tree> <prop> [tier]  -- runs check on a mutated tree (only pyjelly/ copied; tests not needed)
PYVC_TREE="$1" python3-vt /verif/driver.py "$2" "${3:-quick}"
echo "EXIT=$?"
