import sys, time
sys.path.insert(0,'/verif')
exec(open('/verif/dev/one_ob.py').read().split("for ob in obs:")[0].replace("tree, key, label, tmo = sys.argv[1], sys.argv[2], sys.argv[3], int(sys.argv[4])","tree, key = sys.argv[1], sys.argv[2]"))
import collections
tot=collections.Counter()
for ob in obs:
    if ob.kind=='cover' or ob.status!='open': continue
    s=z3.Solver(); s.set('timeout', 20000); s.set('smt.mbqi', False)
    for x in ob.pc: s.add(x)
    s.add(z3.Not(ob.goal))
    t=time.time(); r=s.check(); dt=time.time()-t
    tot[ob.label]+=dt
    if dt>1.5: print(ob.label, ob.note, r, round(dt,1), flush=True)
print(sorted(((round(v,1),k) for k,v in tot.items()), reverse=True)[:12])
