"""dev/summary.py: seeded/SUMMARY.md from seeded/*/meta.json (written by dev/matrix2.py)"""
import json, os
rows = []
for sid in sorted(os.listdir("/verif/seeded")):
    mp = f"/verif/seeded/{sid}/meta.json"
    if not os.path.exists(mp):
        continue
    m = json.load(open(mp))
    d = m.get("detected_by") or {}
    patch = open(f"/verif/seeded/{sid}/patch.diff").read()
    files = sorted({l[6:].strip() for l in patch.splitlines() if l.startswith("+++ b/")})
    proof = d.get("proof") or []
    bounded = d.get("bounded") or []
    first = (proof or bounded or ["-"])[0]
    first = first.replace(f"{d.get('check','')}-", "", 1)
    rows.append((sid, ", ".join(f.replace("pyjelly/", "") for f in files), d.get("exit"), len(proof), len(bounded), len(d.get("undecided") or []), first[:95]))
with open("/verif/seeded/SUMMARY.md", "w") as f:
    f.write("# Independently seeded changes vs the registered checks\n\n"
            "Each change was produced by a sub-agent that saw only the property text, passes the 487 tests and breaks the\n"
            "property (demo in the directory). Column *proof* = number of distinct proof obligations reported as violated by\n"
            "`./check <property> quick` on a scratch copy with the change; *bounded* = bounded-net failure classes reported;\n"
            "*undecided* = obligations the change pushed outside the supported subset (exit is still 1 when anything is reported).\n\n"
            "| id | files | exit | proof | bounded | undecided | first report |\n|---|---|---|---|---|---|---|\n")
    for r in rows:
        f.write("| " + " | ".join(str(x) for x in r) + " |\n")
    n = len(rows)
    f.write(f"\n{sum(1 for r in rows if r[2] == 1)}/{n} reported (exit 1); {sum(1 for r in rows if r[3])}/{n} by at least one proof obligation; "
            f"{sum(1 for r in rows if r[4])}/{n} by the bounded net.\n")
print(open("/verif/seeded/SUMMARY.md").read()[-300:])
