"""C10 bounded net: every cut offset of small delimited streams; yielded items must be a prefix covering all complete frames."""
from common import *  # noqa: F403

def main() -> None:
    a = parse_args()
    net = Net("C10", a)
    from pyjelly.integrations.generic.parse import parse_jelly_flat
    from pyjelly.integrations.rdflib.parse import parse_jelly_flat as rflat
    rng = net.rng
    for it in range(14 if net.quick else 150):
        if not net.time_left():
            break
        phys = rng.choice([1, 2, 3])
        regular = rng.random() < 0.4
        if regular:     # equally shaped statements: frames of equal size
            stmts = [(("iri", f"http://ex.org/s{i}"), ("iri", "http://ex.org/p"), ("lit", f"v{i}", None, None)) + ((("iri", "http://ex.org/g"),) if phys != 1 else ()) for i in range(8)]
        else:
            stmts = gen_statements(rng, 1 if phys == 1 else 2, rng.randrange(2, 7), quoted_ok=False)
        fs = rng.choice([1, 2, 3])
        data = serialize_generic(stmts, phys, make_options(phys, (16, 8, 8), logical={1: 1, 2: 2, 3: 2}[phys], frame_size=fs))
        frames = wire.split_delimited(data)
        offs, pos = [], 0
        d = RefDecoder(); per_frame = []
        for f in frames:
            pos += len(wire.write_varint(len(f))) + len(f); offs.append(pos)
            before = len(d.events); d.feed_frame(wire.decode("RdfStreamFrame", f)); per_frame.append(d.events[before:])
        full = [e for p in per_frame for e in p]
        for k in range(0, len(data) + 1):
            net.case((k, data), nontrivial=(k not in offs))
            complete = [e for p, o in zip(per_frame, offs) if o <= k for e in p]
            for nm, fn in (("generic", parse_jelly_flat),) + ((("rdflib", rflat),) if all(s[0][0] != "lit" for s in stmts) else ()):
                got = []
                try:
                    for x in fn(io.BytesIO(data[:k])):
                        got.append(event_from_generic(x) if nm == "generic" else ("triple" if len(x) == 3 else "quad", *[from_rdflib(t) for t in x]))
                except Exception:  # noqa: BLE001
                    pass
                g, w = lower_lang(got), lower_lang(rdflib_norm(full) if nm == "rdflib" else full)
                if g != w[: len(g)]:
                    net.fail("not-a-prefix", f"{nm}: stream cut at byte {k} yields something that is not a prefix of the original", {"bytes_hex": data.hex(), "cut": k}, got, full)
                    break
                if len(got) < len(complete) and k >= 3:
                    net.fail("lost-complete-frame", f"{nm}: stream cut at byte {k}: {len(complete)} statements were fully delivered but only {len(got)} were yielded", {"bytes_hex": data.hex(), "cut": k}, got, complete)
                    break
    net.finish("bounded", "small delimited streams (2..8 statements, also equally shaped ones), frame sizes {1,2,3}, 3 physical types, cut at every byte offset 0..len, generic and rdflib flat parsers",
               "each case = (cut offset, byte string); non-trivial = cut not on a frame boundary")
if __name__ == "__main__":
    from common import run_main
    run_main(main, "C10")
