"""C16 bounded net: one violation of each catalogued class injected at every applicable row of valid streams
(built by the reference encoder, confirmed invalid by the reference decoder); pyjelly must raise."""
import copy
from common import *  # noqa: F403

def rows_of(frames):
    return [(fi, ri, r) for fi, f in enumerate(frames) for ri, r in enumerate(f.get("rows", []))]

def term_fields(m):
    return [k for k in m if k != "_type"]

def mutations(frames, rng):
    """yield (class, mutated_frames)"""
    allrows = rows_of(frames)
    opts = allrows[0][2]["options"]
    N, P, D = opts["max_name_table_size"], opts.get("max_prefix_table_size", 0), opts.get("max_datatype_table_size", 0)
    for fi, ri, row in allrows:
        kind = wire.which(row, "row")
        def mut(fn):
            fr = copy.deepcopy(frames)
            fn(fr[fi]["rows"][ri])
            return fr
        if kind in ("name", "prefix", "datatype"):
            size = {"name": N, "prefix": P, "datatype": D}[kind]
            yield "entry-id-beyond-size", mut(lambda r: r[kind].__setitem__("id", size + 1 + rng.randrange(3)))
        if kind in ("triple", "quad", "graph_start"):
            m = row[kind]
            for f in term_fields(m):
                if f.endswith("_iri"):
                    yield "name-ref-beyond-size", mut(lambda r, f=f: r[kind][f].__setitem__("name_id", N + 1))
                    if P:
                        yield "prefix-ref-beyond-size", mut(lambda r, f=f: r[kind][f].__setitem__("prefix_id", P + 1))
                    else:
                        yield "prefix-ref-with-disabled-table", mut(lambda r, f=f: r[kind][f].__setitem__("prefix_id", 1 + rng.randrange(7)))
                if f.endswith("_literal"):
                    if "datatype" in m[f]:
                        yield "datatype-ref-beyond-size", mut(lambda r, f=f: r[kind][f].__setitem__("datatype", D + 1))
                        yield "datatype-ref-zero", mut(lambda r, f=f: r[kind][f].__setitem__("datatype", 0))
                if f.endswith("_triple_term"):
                    def drop_inner(r, f=f):
                        q = r[kind][f]
                        for k in list(q):
                            if k.startswith("s_"):
                                del q[k]
                    yield "repeated-marker-in-quoted", mut(drop_inner)
    # first statement with a missing slot (no previous term)
    for fi, ri, row in allrows:
        kind = wire.which(row, "row")
        if kind in ("triple", "quad"):
            def drop(fr=None):
                fr = copy.deepcopy(frames)
                m = fr[fi]["rows"][ri][kind]
                for k in list(m):
                    if k.startswith("p_"):
                        del m[k]
                return fr
            yield "repeat-without-previous", drop()
            break
    # missing options row
    fr = copy.deepcopy(frames)
    for f in fr:
        if f.get("rows"):
            del f["rows"][0]
            break
    yield "missing-options-row", fr
    # unsupported version / physical type
    fr = copy.deepcopy(frames); rows_of(fr)[0][2]["options"]["version"] = 3
    yield "unsupported-version", fr
    fr = copy.deepcopy(frames); rows_of(fr)[0][2]["options"]["physical_type"] = 0
    yield "unsupported-physical-type", fr
    fr = copy.deepcopy(frames); rows_of(fr)[0][2]["options"]["max_name_table_size"] = 4097
    yield "table-too-large", fr
    fr = copy.deepcopy(frames); rows_of(fr)[0][2]["options"]["max_name_table_size"] = 7
    yield "name-table-too-small", fr
    # row kind the physical type forbids
    phys = opts["physical_type"]
    for fi, ri, row in allrows:
        kind = wire.which(row, "row")
        if kind == "triple" and phys == 1:
            def toquad():
                fr = copy.deepcopy(frames)
                r = fr[fi]["rows"][ri]
                m = r.pop("triple"); m["_type"] = "RdfQuad"; m["g_default_graph"] = {"_type": "RdfDefaultGraph"}
                r["quad"] = m
                return fr
            yield "quad-row-in-triples-stream", toquad()
            break
        if kind == "quad" and phys == 2:
            def totriple():
                fr = copy.deepcopy(frames)
                r = fr[fi]["rows"][ri]
                m = r.pop("quad"); m["_type"] = "RdfTriple"
                for k in list(m):
                    if k.startswith("g_"):
                        del m[k]
                r["triple"] = m
                return fr
            yield "triple-row-in-quads-stream", totriple()
            def gstart():
                fr = copy.deepcopy(frames)
                fr[fi]["rows"].insert(ri, {"_type": "RdfStreamRow", "graph_start": {"_type": "RdfGraphStart", "g_default_graph": {"_type": "RdfDefaultGraph"}}})
                return fr
            yield "graph-start-in-quads-stream", gstart()
            break
    if phys == 3:
        # triple after a graph_end (outside any graph, but a graph was open before)
        for fi, ri, row in allrows:
            if wire.which(row, "row") == "graph_end":
                trip = next((r for _, _, r in allrows if wire.which(r, "row") == "triple"), None)
                if trip is not None:
                    fr = copy.deepcopy(frames)
                    fr[fi]["rows"].insert(ri + 1, copy.deepcopy(trip))
                    yield "triple-after-graph-end", fr
                break
        # triple outside any graph: drop the first graph_start
        for fi, ri, row in allrows:
            if wire.which(row, "row") == "graph_start":
                fr = copy.deepcopy(frames)
                del fr[fi]["rows"][ri]
                yield "triple-outside-graph", fr
                break
    if D:
        # datatype reference while the datatype table is disabled
        fr = copy.deepcopy(frames)
        rows_of(fr)[0][2]["options"]["max_datatype_table_size"] = 0
        for f in fr:
            f["rows"] = [r for r in f.get("rows", []) if wire.which(r, "row") != "datatype"]
        if any("datatype" in v for _, _, r in rows_of(fr) for kind in [wire.which(r, "row")] if kind in ("triple", "quad", "graph_start")
               for v in r[kind].values() if isinstance(v, dict)):
            yield "datatype-with-disabled-table", fr

def main() -> None:
    a = parse_args()
    net = Net("C16", a)
    from pyjelly.integrations.generic.parse import parse_jelly_flat
    from pyjelly.integrations.rdflib.parse import parse_jelly_flat as rdflib_flat
    rng = net.rng
    for it in range(25 if net.quick else 400):
        if not net.time_left():
            break
        phys = rng.choice([1, 2, 3])
        has_quoted = rng.random() < 0.5
        stmts = gen_statements(rng, 1 if phys == 1 else 2, rng.randrange(2, 6), quoted_ok=has_quoted)
        has_quoted = any(t[0] == "quoted" for s in stmts for t in s)
        occs = [occ(s) for s in stmts]
        k = {t: max(o[t] for o in occs) for t in "npd"}
        sizes = (max(8, k["n"]) + 1, rng.choice([0, max(1, k["p"]) + 1]), max(1, k["d"]))
        enc = RefEncoder(rng, phys, sizes, version=1, redundancy=0.0, early=0.0)
        if phys == 3:
            cur = None
            for q in stmts:
                if q[3] != cur:
                    if cur is not None: enc.graph_end()
                    enc.graph_start(q[3]); cur = q[3]
                enc.triple(*q[:3])
            enc.graph_end()
        else:
            for s in stmts:
                (enc.triple if phys == 1 else enc.quad)(*s)
        frames = enc.finish()
        for cls, mfr in mutations(frames, rng):
            try:
                d = decode_frames(mfr)
                continue   # the mutation happened to stay valid (e.g. slot exists): not a test case
            except SpecInvalid as e:
                reason = e.reason
            except Exception:  # noqa: BLE001
                continue
            data = wire.join_delimited(mfr)
            net.case((cls, data))
            kind, got = guarded(lambda: [event_from_generic(x) for x in parse_jelly_flat(io.BytesIO(data))])
            if kind == "ok":
                net.fail(cls, f"spec-invalid stream ({reason}) was accepted and answered with data", {"class": cls, "bytes_hex": data.hex(), "spec_reason": reason}, got, "an exception")
            if not has_quoted:
                kind, got = guarded(lambda: list(rdflib_flat(io.BytesIO(data))))
                if kind == "ok":
                    net.fail(cls + "-rdflib", f"spec-invalid stream ({reason}) was accepted by the rdflib parser and answered with data", {"class": cls, "bytes_hex": data.hex(), "spec_reason": reason}, [tuple(map(str, x)) for x in got], "an exception")
    net.finish("bounded", "valid streams from the reference encoder (2..5 statements, 3 physical types) x every catalogued violation class x every applicable row",
               "each case = (violation class, mutated byte string) confirmed invalid by the reference decoder; distinct by bytes")
if __name__ == "__main__":
    from common import run_main
    run_main(main, "C16")
