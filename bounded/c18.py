"""C18 bounded net: statements that overflow an undersized table must be refused or still decode to the input.
Known finding D7 is the class `overflow`: the statement - after eliding what repeats the previous statement - needs more
distinct entries of an enabled table than the table has.  Anything failing outside that class is new."""
from common import *  # noqa: F403

def distinct_needed(st, prev, psize):
    """distinct prefix/name/datatype strings the encoder has to touch for st given the previous statement"""
    P, N, D = set(), set(), set()
    def split(i):
        for sep in "#/":
            a, c, b = i.rpartition(sep)
            if c:
                return a + c, b
        return "", i
    def walk(t):
        if t[0] == "iri":
            p, n = split(t[1])
            if psize:
                P.add(p); N.add(n)
            else:
                N.add(t[1])
        elif t[0] == "lit" and t[3] is not None:
            D.add(t[3])
        elif t[0] == "quoted":
            for x in t[1:]:
                walk(x)
    for j, t in enumerate(st):
        if prev is not None and j < len(prev) and prev[j] == t:
            continue
        walk(t)
    return len(P), len(N), len(D)

def main() -> None:
    a = parse_args()
    net = Net("C18", a)
    rng = net.rng
    IR = [f"http://p{i}.example/n{i}" for i in range(6)] + [f"http://p{i}.example/m" for i in range(3)]
    DT = [f"http://dt.example/t{i}" for i in range(5)]
    def term(kind):
        if kind == "iri":
            return ("iri", rng.choice(IR))
        if kind == "lit":
            return ("lit", rng.choice(["a", "b"]), None, rng.choice(DT))
        if kind == "q":
            return ("quoted", term("iri"), term("iri"), term(rng.choice(["iri", "lit"])))
        return ("bnode", "b")
    for it in range(400 if net.quick else 6000):
        if not net.time_left():
            break
        phys = rng.choice([1, 2])
        mode = rng.choice(["prefix", "datatype", "names"])
        if mode == "prefix":
            sizes = (16, rng.choice([1, 2, 3]), 4)
            kinds = ["iri", "iri", "iri", "iri"]
        elif mode == "datatype":
            sizes = (16, 8, rng.choice([1, 2, 3]))
            kinds = ["lit", "iri", "lit", "lit"]
        else:
            sizes = (8, 0, 4)
            kinds = ["q", "iri", "q", "iri"]
        stmts = []
        for i in range(rng.randrange(1, 4)):
            st = tuple(term(k) for k in kinds[: 3 if phys == 1 else 4])
            if stmts and rng.random() < 0.6:
                st = (stmts[-1][0],) + st[1:]            # shared subject: elided by the encoder
            if stmts and rng.random() < 0.3:
                st = st[:1] + (stmts[-1][1],) + st[2:]
            stmts.append(st)
        fs = rng.choice([1, 2, 250])
        inp = {"physical": phys, "sizes": sizes, "frame_size": fs, "statements": stmts}
        net.case(inp)
        kind, data = guarded(lambda: serialize_generic(stmts, phys, make_options(phys, sizes, logical=phys, frame_size=fs)))
        if kind == "raise":
            continue          # refused: fine
        want = [("triple" if phys == 1 else "quad", *s) for s in stmts]
        try:
            got = decode_stream(data, True).events
        except Exception as e:  # noqa: BLE001
            got = f"invalid stream: {e}"
        if got != want:
            over = False
            prev = None
            for st in stmts:
                p, n, d = distinct_needed(st, prev, sizes[1])
                if (sizes[1] and p > sizes[1]) or n > sizes[0] or (sizes[2] and d > sizes[2]):
                    over = True
                prev = st
            cls = "overflow" if over else "fits"
            net.fail(cls, "bytes were written without error but decode to different statements" + (" (every statement fits its tables once repeats are elided)" if not over else ""), inp, got, want)
    net.finish("bounded", "1..3 statements with shared subjects/predicates, prefix tables 1..3 / datatype tables 1..3 / name table 8 with quoted triples, frame sizes {1,2,250}, TRIPLES and QUADS",
               "each case = (preset, frame size, statement list); failures are classed `overflow` (known finding D7: more distinct entries than slots in one statement) or `fits`")
if __name__ == "__main__":
    from common import run_main
    run_main(main, "C18")
