"""C20 bounded net: catch-and-continue over stream.triple()/quad() with unencodable statements injected at every position
and slot; what was written must decode to exactly the accepted statements (or the stream must refuse further use).
Known finding D6 is the class `partial`: the rejected statement had already encoded at least one (non-elided) term
before the failing slot, so tables / remembered terms are ahead of the rows written."""
from common import *  # noqa: F403

class Weird:
    pass

def main() -> None:
    a = parse_args()
    net = Net("C20", a)
    rng = net.rng
    from pyjelly.integrations.generic.generic_sink import Triple, Quad
    for it in range(400 if net.quick else 6000):
        if not net.time_left():
            break
        phys = rng.choice([1, 2])
        arity = 3 if phys == 1 else 4
        cause = rng.choice(["unsupported", "typed-literal-no-table", "malformed"])
        dsize = 0 if cause == "typed-literal-no-table" else 4
        stmts = gen_statements(rng, phys, rng.randrange(2, 6), quoted_ok=False, lits=(dsize != 0))
        if dsize == 0:
            stmts = [tuple(t if not (t[0] == "lit" and t[3]) else ("lit", t[1], None, None) for t in st) for st in stmts]
        pos = rng.randrange(0, len(stmts) + 1)
        slot = rng.randrange(0, arity)
        base = stmts[pos - 1] if pos > 0 and rng.random() < 0.7 else gen_statements(rng, phys, 1, quoted_ok=False, lits=(dsize != 0))[0]
        if dsize == 0:
            base = tuple(t if not (t[0] == "lit" and t[3]) else ("lit", t[1], None, None) for t in base)
        repeat_twice = rng.random() < 0.4
        fs = rng.choice([1, 2, 3, 250])
        inp = {"physical": phys, "cause": cause, "position": pos, "slot": slot, "bad_base": base, "retry": repeat_twice, "frame_size": fs, "statements": stmts}
        net.case(inp)
        opts = make_options(phys, (16, 8, dsize), logical=phys, frame_size=fs)
        stream = make_stream(phys, opts)
        stream.enroll()
        frames = []
        accepted = []
        refused_later = False
        def feed(terms):
            fn = stream.triple if phys == 1 else stream.quad
            fr = fn(terms)
            if fr:
                frames.append(fr)
        def bad_terms():
            terms = [to_generic(t) for t in base]
            if cause == "unsupported":
                terms[slot] = Weird()
            elif cause == "typed-literal-no-table":
                terms[slot] = to_generic(("lit", "x", None, "http://ex.org/dt#a"))
            else:
                terms = terms[: max(0, slot)]          # too few terms: the tuple ends before `slot`
            return terms
        ok = True
        for i in range(len(stmts) + 1):
            if i == pos:
                for _ in range(2 if repeat_twice else 1):
                    try:
                        feed(bad_terms())
                        ok = False       # the bad statement was accepted?!
                        break
                    except Exception:  # noqa: BLE001
                        pass
                if not ok:
                    break
            if i < len(stmts):
                try:
                    feed(stmt_to_generic(stmts[i]))
                    accepted.append(stmts[i])
                except Exception:  # noqa: BLE001
                    refused_later = True     # the stream refuses further use: allowed
                    break
        if not ok:
            if cause == "malformed" and slot >= 3 and phys == 1:
                continue
            net.fail("bad-accepted", "an unencodable statement was accepted", inp)
            continue
        last = stream.flow.to_stream_frame()
        if last:
            frames.append(last)
        data = write_frames(frames)
        want = [("triple" if phys == 1 else "quad", *s) for s in accepted]
        try:
            got = decode_stream(data, True).events
        except Exception as e:  # noqa: BLE001
            got = f"invalid stream: {e}"
        if got != want:
            # did the rejected statement encode something before failing?  (slots before `slot` that are not elided)
            prev = stmts[pos - 1] if pos > 0 else None
            encoded_before = any(prev is None or base[j] != prev[j] for j in range(min(slot, len(base))))
            cls = "partial" if (encoded_before and not (cause == "malformed" and slot == 0)) else "no-trace-expected"
            net.fail(cls, "after a rejected statement the written stream no longer decodes to the accepted statements", inp, got, want)
    net.finish("bounded", "2..5 statements, one unencodable statement (unsupported term / typed literal with datatype table disabled / short tuple) at every position and slot, optionally retried, frame sizes {1,2,3,250}, TRIPLES and QUADS",
               "each case = (cause, position, slot, retry, frame size, statements); failures classed `partial` (known finding D6) or `no-trace-expected`")
if __name__ == "__main__":
    from common import run_main
    run_main(main, "C20")
