"""C12 bounded net: bytes alone vs interleaved vs threaded vs other hash seeds; parsers interleaved."""
from common import *  # noqa: F403
import subprocess, threading

def workload(seed):
    rng = random.Random(seed)
    phys = rng.choice([1, 2])
    stmts = gen_statements(rng, phys, rng.randrange(3, 8), quoted_ok=False)
    return phys, stmts, sizes_for(stmts, rng), rng.choice([1, 2, 250])

def solo_bytes(w, shared_opts=None):
    phys, stmts, sizes, fs = w
    opts = shared_opts or make_options(phys, sizes, logical=phys, frame_size=fs)
    return serialize_generic(stmts, phys, opts)

def main() -> None:
    a = parse_args()
    net = Net("C12", a)
    from pyjelly.integrations.generic.parse import parse_jelly_flat
    rng = net.rng
    for it in range(40 if net.quick else 500):
        if not net.time_left():
            break
        w1, w2 = workload(rng.randrange(10**9)), workload(rng.randrange(10**9))
        b1, b2 = solo_bytes(w1), solo_bytes(w2)
        net.case((w1, w2))
        # (1) statement-by-statement interleaving of two live streams (fresh options each, and one shared options object)
        # options shared by both streams must fit both workloads (a table too small for a workload is C18's subject)
        ss = tuple(max(a, b) for a, b in zip(w1[2], w2[2]))
        for shared in (False, True):
            def interleaved():
                outs = []
                streams = []
                shared_opts = make_options(w1[0], ss, frame_size=w1[3]) if shared else None   # logical type left to be inferred
                for w in (w1, w2):
                    phys, stmts, sizes, fs = w
                    if shared and phys != w1[0]:
                        return None
                    opts = shared_opts if shared else make_options(phys, sizes, logical=phys, frame_size=fs)
                    st = make_stream(phys, opts); st.enroll(); streams.append((st, [], stmts, phys))
                for i in range(max(len(s[2]) for s in streams)):
                    for st, frames, stmts, phys in streams:
                        if i < len(stmts):
                            fr = (st.triple if phys == 1 else st.quad)(stmt_to_generic(stmts[i]))
                            if fr: frames.append(fr)
                for st, frames, stmts, phys in streams:
                    fr = st.flow.to_stream_frame()
                    if fr: frames.append(fr)
                    outs.append(write_frames(frames))
                return outs
            kind, outs = guarded(interleaved)
            if outs is None and kind == "ok":
                continue
            if shared:
                ref = [solo_bytes(w1, make_options(w1[0], ss, frame_size=w1[3])), solo_bytes((w2[0], w2[1], ss, w1[3]), make_options(w1[0], ss, frame_size=w1[3]))]
            else:
                ref = [b1, b2]
            if kind == "raise" or outs != ref:
                net.fail("interleaved-streams" + ("-shared-options" if shared else ""), "two streams written interleaved differ from the same streams written alone", {"w1": w1, "w2": w2, "shared_options": shared}, outs if kind == "raise" else [o.hex()[:80] for o in outs])
        # (2) two parsers advanced alternately
        g1, g2 = parse_jelly_flat(io.BytesIO(b1)), parse_jelly_flat(io.BytesIO(b2))
        o1, o2 = [], []
        for _ in range(40):
            x = next(g1, None); y = next(g2, None)
            if x is not None: o1.append(event_from_generic(x))
            if y is not None: o2.append(event_from_generic(y))
        if o1 != parse_generic_flat(b1) or o2 != parse_generic_flat(b2):
            net.fail("interleaved-parsers", "two parsers advanced alternately return different statements than alone", {"w1": w1, "w2": w2}, (o1, o2))
        # (3) threads
        res = {}
        def run(k, w):
            res[k] = solo_bytes(w)
        ts = [threading.Thread(target=run, args=(k, w)) for k, w in (("a", w1), ("b", w2), ("c", w1))]
        [t.start() for t in ts]; [t.join() for t in ts]
        if res.get("a") != b1 or res.get("b") != b2 or res.get("c") != b1:
            net.fail("threads", "bytes differ when the same workloads run in threads", {"w1": w1, "w2": w2})
    # (4) other processes with different hash seeds
    w = workload(12345)
    ref = solo_bytes(w).hex()
    code = ("import sys; sys.path.insert(0, %r); sys.path.insert(0, %r); sys.path.insert(0, %r)\n"
            "from common import *; import c12; setup(%r); print(c12.solo_bytes(c12.workload(12345)).hex())" % (HERE, os.path.dirname(HERE), a.tree, a.tree))
    for hs in ("0", "1", "4242"):
        env = dict(os.environ, PYTHONHASHSEED=hs)
        p = subprocess.run([sys.executable, "-c", code], capture_output=True, text=True, env=env, cwd=a.tree)
        net.case(("hashseed", hs))
        if p.stdout.strip().splitlines()[-1:] != [ref]:
            net.fail("hash-seed", f"bytes differ in a process with PYTHONHASHSEED={hs}", {"seed": hs}, p.stdout[-200:] + p.stderr[-300:])
    net.finish("bounded", "pairs of random workloads (3..7 statements): alone vs statement-interleaved (fresh and shared options objects) vs alternately advanced parsers vs threads; three PYTHONHASHSEED values in subprocesses",
               "each case = a pair of workloads or a hash seed")

if __name__ == "__main__":
    from common import run_main
    run_main(main, "C12")
