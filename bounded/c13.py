"""C13 bounded net: option cross product written as bytes and read back; validation on both sides; strict gates."""
from common import *  # noqa: F403

LOGICALS = [0, 1, 2, 3, 4, 13, 14, 114]

def main() -> None:
    a = parse_args()
    net = Net("C13", a)
    from pyjelly.parse.ioutils import get_options_and_frames
    from pyjelly.integrations.generic import parse as gp
    from pyjelly.integrations.rdflib import parse as rp
    from pyjelly.options import LookupPreset, StreamTypes
    from pyjelly.parse.lookup import LookupDecoder
    rng = net.rng
    names = ["", "x", "ünï-çødé", "n" * 10, "日本語" * 5]
    st3 = [(("iri", "http://ex.org/a"), ("iri", "http://ex.org/b"), ("bnode", "b"))]
    st4 = [st3[0] + (("default",),)]
    # constructor-side validation, all 4x8 pairs
    for p in (0, 1, 2, 3):
        for lt in LOGICALS:
            net.case(("pair", p, lt))
            ok = (p == 0 or lt == 0 or ((p == 1) == (lt in (1, 3, 13))))
            kind, _ = guarded(lambda: StreamTypes(physical_type=p, logical_type=lt))
            if (kind == "ok") != ok:
                net.fail("pair-validation", f"StreamTypes({p},{lt}) {'accepted' if kind=='ok' else 'rejected'} but the spec says {'valid' if ok else 'invalid'}", {"physical": p, "logical": lt})
    for n in (0, 7, 8):
        kind, _ = guarded(lambda: LookupPreset(max_names=n))
        net.case(("names", n))
        if (kind == "ok") != (n >= 8):
            net.fail("min-name-table", f"LookupPreset(max_names={n}) {'accepted' if kind=='ok' else 'rejected'}", {"max_names": n})
    for n in (4096, 4097, 2**31):
        kind, _ = guarded(lambda: LookupDecoder(lookup_size=n) and None)
        net.case(("maxsize", n))
        if (kind == "ok") != (n <= 4096):
            net.fail("max-table", f"LookupDecoder(lookup_size={n}) {'accepted' if kind=='ok' else 'rejected'}", {"size": n})
    it = 0
    for phys in (1, 2, 3):
        for lt in LOGICALS:
            for delimited in (True, False):
                for ns in (False, True):
                    it += 1
                    if net.quick and it % 2:
                        continue
                    name = rng.choice(names)
                    sizes = (rng.choice([8, 9, 4096]), rng.choice([0, 1, 4096]), rng.choice([0, 1, 4096]))
                    gen, star = rng.random() < 0.5, rng.random() < 0.5
                    inp = {"physical": phys, "logical": lt, "delimited": delimited, "ns": ns, "name": name, "sizes": sizes, "gen": gen, "star": star}
                    def build():
                        opts = make_options(phys, sizes, logical=lt, delimited=delimited, ns=ns, name=name, gen=gen, star=star)
                        return opts, serialize_generic(st3 if phys == 1 else st4, phys, opts)
                    kind, r = guarded(build)
                    net.case(inp, nontrivial=(kind == "ok"))
                    if kind == "raise":
                        continue
                    opts, data = r
                    if not data:
                        continue   # C06's subject
                    kind, po = guarded(lambda: get_options_and_frames(io.BytesIO(data))[0])
                    if kind == "raise":
                        net.fail("header-rejected", f"reader rejects a header the writer produced: {po}", inp)
                        continue
                    got = (po.stream_types.physical_type, po.stream_types.logical_type, po.lookup_preset.max_names, po.lookup_preset.max_prefixes,
                           po.lookup_preset.max_datatypes, po.params.stream_name, po.params.generalized_statements, po.params.rdf_star,
                           po.params.version, po.params.namespace_declarations, po.params.delimited)
                    # a logical type left UNSPECIFIED is inferred by the writer for delimited output (the flat type of the
                    # stream class); the reader must be told the type the stream actually has
                    eff = lt if (lt != 0 or not delimited) else (1 if phys == 1 else 2)
                    want = (phys, eff, *sizes, name, gen, star, 2 if ns else 1, ns, delimited)
                    if got != want:
                        net.fail("header-fidelity", "reader is told different options than the stream was written with", inp, got, want)
                    # strict gates, both integrations
                    for mod, nm in ((gp, "generic"), (rp, "rdflib")):
                        flat = eff in (1, 2)
                        for strict in (True, False):
                            k1, _ = guarded(lambda: list(mod.parse_jelly_flat(io.BytesIO(data), logical_type_strict=strict)))
                            k2, _ = guarded(lambda: list(mod.parse_jelly_grouped(io.BytesIO(data), logical_type_strict=strict)))
                            if (k1 == "ok") != (not strict or flat):
                                net.fail("strict-flat-gate", f"{nm}.parse_jelly_flat strict={strict} logical={eff}: {'accepted' if k1=='ok' else 'rejected'}", inp)
                            if (k2 == "ok") != (not strict or (eff != 0 and not flat)):
                                net.fail("strict-grouped-gate", f"{nm}.parse_jelly_grouped strict={strict} logical={eff}: {'accepted' if k2=='ok' else 'rejected'}", inp)
    net.finish("bounded", "4x8 type pairs; name-table minimum; reader maximum; 3 stream classes x 8 logical types x framing x ns x random sizes/names/flags written and read back; strict gates of both integrations",
               "each case = one configuration point; non-trivial = accepted by the writer")
if __name__ == "__main__":
    from common import run_main
    run_main(main, "C13")
