"""C08 bounded net: real streams in both framings with options rows / first frames of every small length."""
from common import *  # noqa: F403

def main() -> None:
    a = parse_args()
    net = Net("C08", a)
    from pyjelly.parse.ioutils import delimited_jelly_hint, get_options_and_frames
    rng = net.rng
    stmts = [(("iri", "http://ex.org/a"), ("iri", "http://ex.org/b"), ("lit", "x", None, None))]
    top = 60 if net.quick else 300
    for n in range(0, top):
        name = "n" * n
        for delimited in (True, False):
            for fs in (1, 250):
                opts = make_options(1, (8, 2, 2), logical=1, frame_size=fs, delimited=delimited, name=name)
                data = serialize_generic(stmts, 1, opts)
                net.case((n, delimited, fs))
                h = delimited_jelly_hint(data[:3])
                if h != delimited:
                    net.fail("misclassified", f"stream written with delimited={delimited} classified as delimited={h}", {"stream_name_len": n, "delimited": delimited, "frame_size": fs, "header": list(data[:3])})
                    continue
                kind, got = guarded(lambda: parse_generic_flat(data))
                if kind == "raise" or got != [("triple", *stmts[0])]:
                    net.fail("parse-differs", "the same content parses differently depending on framing", {"stream_name_len": n, "delimited": delimited, "frame_size": fs}, got)
    # leading empty frames, hand-built first frames of every length via the reference encoder
    for n in range(0, top):
        enc = RefEncoder(random.Random(n), 1, (8, 2, 2), stream_name="s" * n, frame_cut=0.0)
        enc.triple(*stmts[0])
        frames = enc.finish()
        for lead in (0, 1, 2):
            data = wire.join_delimited([{"_type": "RdfStreamFrame"}] * lead + frames)
            net.case(("lead", n, lead))
            if len(data) >= 3 and not delimited_jelly_hint(data[:3]):
                net.fail("misclassified", "delimited stream (with leading empty frames) classified as non-delimited", {"name_len": n, "leading_empty_frames": lead, "header": list(data[:3])})
            single = wire.encode(frames[0]) if len(frames) == 1 else None
            if single is not None and len(single) >= 3 and delimited_jelly_hint(single[:3]):
                net.fail("misclassified", "single-frame stream classified as delimited", {"name_len": n, "header": list(single[:3])})
    # (3) the header domain of the property, enumerated: every constrained byte exhaustively, unconstrained bytes over a
    #     set of interesting values (whitespace and 0x0A neighbours, sign/continuation bits)
    odd = [0, 1, 8, 9, 10, 11, 12, 13, 32, 126, 127, 128, 129, 138, 255]
    for b0 in range(256):
        if 1 <= b0 <= 127:                      # one-byte frame length L = b0, the frame starts with a row
            for b2 in range(0, max(b0 - 1, 0)):  # first byte of varint(rowlen), rowlen + 2 <= L
                net.case(("hdr", 1, b0, 0x0A, b2), nontrivial=False)
                if not delimited_jelly_hint(bytes([b0, 0x0A, b2])):
                    net.fail("misclassified", "delimited header classified as non-delimited", {"header": [b0, 0x0A, b2], "frame_len": b0, "row_len": b2})
        else:                                    # empty first frame or multi-byte length: next bytes unconstrained
            for b1 in odd:
                for b2 in odd:
                    net.case(("hdr", 1, b0, b1, b2), nontrivial=False)
                    if not delimited_jelly_hint(bytes([b0, b1, b2])):
                        net.fail("misclassified", "delimited header classified as non-delimited", {"header": [b0, b1, b2]})
    for b1 in range(256):                        # non-delimited: row tag, varint(rowlen) (rowlen >= 2), options tag
        for b2 in ([0x0A] if b1 < 128 else odd):
            if b1 in (0, 1):
                continue
            net.case(("hdr", 0, 0x0A, b1, b2), nontrivial=False)
            if delimited_jelly_hint(bytes([0x0A, b1, b2])):
                net.fail("misclassified", "single-frame header classified as delimited", {"header": [0x0A, b1, b2]})
    # (4) frames whose size sits on every varint boundary, written delimited and compared with varint(len) ++ payload
    from pyjelly import jelly
    from pyjelly.serialize.ioutils import write_delimited, write_single
    from pyjelly.parse.ioutils import get_options_and_frames
    sizes = [0, 1, 9, 10, 11, 126, 127, 128, 129, 255, 256, 16382, 16383, 16384, 16385, 16510, 16511, 16512, 32768]
    if not net.quick:
        sizes += [2097151, 2097152, 2097153, 2113535]
    for target in sizes:
        fr = jelly.RdfStreamFrame()
        if target:
            row = fr.rows.add()
            row.options.physical_type = 1
            row.options.max_name_table_size = 8
            row.options.version = 1
            pad = max(0, target - fr.ByteSize() - 8)
            row.options.stream_name = "x" * pad
            while fr.ByteSize() < target:
                row.options.stream_name += "x"
        net.case(("size", fr.ByteSize()))
        out = io.BytesIO(); write_delimited(fr, out)
        payload = fr.SerializeToString(deterministic=True)
        want = wire.write_varint(len(payload)) + payload
        if out.getvalue() != want:
            net.fail("bad-length-prefix", f"write_delimited of a {len(payload)}-byte frame is not varint(len) ++ payload", {"frame_bytes": len(payload), "prefix_got": list(out.getvalue()[:5]), "prefix_want": list(want[:5])})
        elif target:
            k, got = guarded(lambda: get_options_and_frames(io.BytesIO(out.getvalue()))[0].params.delimited)
            if k == "raise" or got is not True:
                net.fail("parse-differs", f"a delimited stream with a {len(payload)}-byte first frame does not read back as delimited", {"frame_bytes": len(payload)}, got)
    net.finish("bounded", f"stream names of every length 0..{top-1} (options row length sweeps through 10 and 128) x both framings x frame sizes {{1,250}}; reference-encoder streams with 0..2 leading empty frames",
               "each case = (options-row length, framing, frame size), one header of the enumerated header domain, or one frame size on a varint boundary")
if __name__ == "__main__":
    from common import run_main
    run_main(main, "C08")
