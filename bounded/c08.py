"""C08 bounded net: real streams in both framings with options rows / first frames of every small length."""
from common import *  # noqa: F403

def main() -> None:
    a = parse_args()
    net = Net("C08", a)
    from pyjelly.parse.ioutils import delimited_jelly_hint, get_options_and_frames
    rng = net.rng
    stmts = [(("iri", "http://ex.org/a"), ("iri", "http://ex.org/b"), ("lit", "x", None, None))]
    top = 60 if net.quick else 300
    for n in range(0, top):
        name = "n" * n
        for delimited in (True, False):
            for fs in (1, 250):
                opts = make_options(1, (8, 2, 2), logical=1, frame_size=fs, delimited=delimited, name=name)
                data = serialize_generic(stmts, 1, opts)
                net.case((n, delimited, fs))
                h = delimited_jelly_hint(data[:3])
                if h != delimited:
                    net.fail("misclassified", f"stream written with delimited={delimited} classified as delimited={h}", {"stream_name_len": n, "delimited": delimited, "frame_size": fs, "header": list(data[:3])})
                    continue
                kind, got = guarded(lambda: parse_generic_flat(data))
                if kind == "raise" or got != [("triple", *stmts[0])]:
                    net.fail("parse-differs", "the same content parses differently depending on framing", {"stream_name_len": n, "delimited": delimited, "frame_size": fs}, got)
    # leading empty frames, hand-built first frames of every length via the reference encoder
    for n in range(0, top):
        enc = RefEncoder(random.Random(n), 1, (8, 2, 2), stream_name="s" * n, frame_cut=0.0)
        enc.triple(*stmts[0])
        frames = enc.finish()
        for lead in (0, 1, 2):
            data = wire.join_delimited([{"_type": "RdfStreamFrame"}] * lead + frames)
            net.case(("lead", n, lead))
            if len(data) >= 3 and not delimited_jelly_hint(data[:3]):
                net.fail("misclassified", "delimited stream (with leading empty frames) classified as non-delimited", {"name_len": n, "leading_empty_frames": lead, "header": list(data[:3])})
            single = wire.encode(frames[0]) if len(frames) == 1 else None
            if single is not None and len(single) >= 3 and delimited_jelly_hint(single[:3]):
                net.fail("misclassified", "single-frame stream classified as delimited", {"name_len": n, "header": list(single[:3])})
    net.finish("bounded", f"stream names of every length 0..{top-1} (options row length sweeps through 10 and 128) x both framings x frame sizes {{1,250}}; reference-encoder streams with 0..2 leading empty frames",
               "each case = (options-row length, framing, frame size); distinct by that triple")
main()
