"""C04 bounded net: valid streams from the reference encoder (arbitrary legal choices) through all six parse entry points."""
from common import *  # noqa: F403

def build_stream(rng, phys, stmts, version):
    occs = [occ(s) for s in stmts]
    k = {t: max(o[t] for o in occs) for t in "npd"}
    sizes = (max(8, k["n"]) + rng.randrange(0, 3), rng.choice([0, max(1, k["p"]) + rng.randrange(0, 3)]), max(1, k["d"]) + rng.randrange(0, 3))
    enc = RefEncoder(rng, phys, sizes, version=version, stream_name=rng.choice(["", "s"]))
    expect = []
    ns = []
    if version == 2 and rng.random() < 0.5:
        for name, iri in rng.sample([("ex", "http://ex.org/ns#"), ("", "http://ex.org/"), ("u", "urn:nosep")], rng.randrange(1, 3)):
            enc.namespace(name, iri); expect.append(("ns", name, iri))
    if phys == 3:
        cur = None
        for q in stmts:
            if q[3] != cur:
                if cur is not None: enc.graph_end()
                enc.graph_start(q[3]); cur = q[3]
            enc.triple(*q[:3]); expect.append(("quad", *q))
            if rng.random() < 0.1: enc.repeat_options()
        if rng.random() < 0.8: enc.graph_end()
    else:
        for s in stmts:
            (enc.triple if phys == 1 else enc.quad)(*s); expect.append(("triple" if phys == 1 else "quad", *s))
            if rng.random() < 0.1: enc.repeat_options()
            if rng.random() < 0.1: enc.empty_frame()
    return enc.finish(), expect

def main() -> None:
    a = parse_args()
    net = Net("C04", a)
    from pyjelly.integrations.generic import parse as gp
    from pyjelly.integrations.rdflib import parse as rp
    rng = net.rng
    for it in range(300 if net.quick else 5000):
        if not net.time_left():
            break
        phys = rng.choice([1, 2, 3])
        rdf11 = rng.random() < 0.5       # RDF 1.1 only: also through the rdflib integration
        stmts = gen_statements(rng, 1 if phys == 1 else 2, rng.randrange(1, 7), quoted_ok=not rdf11)
        if rdf11:
            stmts = [s for s in stmts if s[0][0] in ("iri", "bnode") and s[1][0] == "iri" and (len(s) == 3 or s[3][0] != "lit")]
            if not stmts:
                continue
        frames, expect = build_stream(rng, phys, stmts, rng.choice([1, 2]))
        lead = rng.choice([0, 0, 1, 2])
        frames = [{"_type": "RdfStreamFrame"}] * lead + frames
        delimited = True if len(frames) != 1 else rng.random() < 0.5
        data = wire.join_delimited(frames) if delimited else wire.encode(frames[0])
        net.case(data)
        # the reference decoder must agree with the expectation (otherwise the generator is wrong: machinery error)
        assert decode_frames(frames).events == expect, "reference encoder/decoder disagree"
        kind, got = guarded(lambda: [event_from_generic(x) for x in gp.parse_jelly_flat(io.BytesIO(data))])
        if kind == "raise" or got != expect:
            net.fail("generic-flat", "parse_jelly_flat (generic) differs from what the valid stream denotes", {"bytes_hex": data.hex(), "delimited": delimited}, got, expect)
            continue
        def grouped():
            out = []
            for sink in gp.parse_jelly_grouped(io.BytesIO(data)):
                out += [("ns", p, i._iri) for p, i in sink.namespaces] + [event_from_generic(x) for x in sink]
            return out
        kind, got = guarded(grouped)
        want_g = expect
        if kind == "raise" or sorted(map(repr, got)) != sorted(map(repr, want_g)):
            net.fail("generic-grouped", "parse_jelly_grouped (generic, concatenated) differs from the flat parse", {"bytes_hex": data.hex()}, got, want_g)
        if rdf11:
            def rflat():
                out = []
                for x in rp.parse_jelly_flat(io.BytesIO(data)):
                    if isinstance(x, rp.Prefix):
                        out.append(("ns", x.prefix, str(x.iri)))
                    else:
                        out.append(("triple" if len(x) == 3 else "quad", *[from_rdflib(t) for t in x]))
                return out
            kind, got = guarded(rflat)
            if kind == "raise" or lower_lang(got) != lower_lang(rdflib_norm(expect)):
                net.fail("rdflib-flat", "parse_jelly_flat (rdflib) differs from what the valid stream denotes", {"bytes_hex": data.hex()}, got, expect)
    net.finish("bounded", "reference-encoder streams: arbitrary eviction victims, IRI split points, explicit/zero ids, redundant and early entries, elision on/off, random frame cuts, empty frames, repeated options rows, leading empty frames, both framings, versions 1-2 with namespace rows; 3 physical types",
               "each case = one byte string (distinct by bytes); outputs compared as lists (grouped: as multisets per stream)")
if __name__ == "__main__":
    from common import run_main
    run_main(main, "C04")
