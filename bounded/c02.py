"""C02 bounded net: rdflib Graph / Dataset round trips through the plugin and the stream functions, compared as sets."""
from common import *  # noqa: F403

def main() -> None:
    a = parse_args()
    net = Net("C02", a)
    import rdflib
    from rdflib import Dataset, Graph
    from pyjelly.integrations.rdflib import serialize as rs, parse as rp
    from pyjelly.serialize.streams import GraphStream, QuadStream, TripleStream
    from pyjelly.options import LookupPreset, StreamParameters
    from pyjelly.serialize.streams import SerializerOptions
    rng = net.rng
    def ok_term(t, pos):
        if t in (("bnode", ""), ("iri", "")):
            return False
        if pos == 0: return t[0] in ("iri", "bnode")
        if pos == 1: return t[0] == "iri"
        if pos == 3: return t[0] in ("iri", "bnode", "default")
        return t[0] in ("iri", "bnode", "lit")
    for it in range(150 if net.quick else 2500):
        if not net.time_left():
            break
        quads = rng.random() < 0.6
        stmts = [s for s in gen_statements(rng, 2 if quads else 1, rng.randrange(1, 8), quoted_ok=False) if all(ok_term(t, i) for i, t in enumerate(s))]
        if not stmts:
            continue
        if quads and rng.random() < 0.3:
            empty_named = ("iri", "http://ex.org/g/empty")     # an empty named graph visited before others
        else:
            empty_named = None
        sizes = sizes_for(stmts, rng, allow_zero_prefix=True)
        if rng.random() < 0.3:
            sizes = (sizes[0], sizes[1], 0 if not any(t[0] == "lit" and t[3] for s in stmts for t in s) else sizes[2])
        fs = rng.choice([1, 2, 4, 250])
        delimited = rng.random() < 0.75
        stream_kind = rng.choice(["quad", "graph"]) if quads else "triple"
        logical = {"triple": rng.choice([1, 3] if delimited else [1]), "quad": rng.choice([2, 4] if delimited else [2]), "graph": rng.choice([2, 4] if delimited else [2])}[stream_kind]
        xsd_string_explicit = rng.random() < 0.3
        inp = {"quads": quads, "stream": stream_kind, "logical": logical, "sizes": sizes, "frame_size": fs, "delimited": delimited, "empty_named_graph": empty_named, "statements": stmts}
        net.case(inp)
        def conv(t):
            if xsd_string_explicit and t[0] == "lit" and t[2] is None and t[3] is None:
                return rdflib.Literal(t[1], datatype=rdflib.XSD.string)
            return to_rdflib(t)
        def run():
            if quads:
                src = Dataset()
                if empty_named:
                    src.graph(to_rdflib(empty_named))
                for s in stmts:
                    ctx = src.default_context if s[3] == ("default",) else src.graph(to_rdflib(s[3]))
                    ctx.add(tuple(conv(t) for t in s[:3]))
            else:
                src = Graph()
                for s in stmts:
                    src.add(tuple(conv(t) for t in s))
            opts = SerializerOptions(logical_type=logical, frame_size=fs, params=StreamParameters(delimited=delimited),
                                     lookup_preset=LookupPreset(max_names=sizes[0], max_prefixes=sizes[1], max_datatypes=sizes[2]))
            cls = {"triple": TripleStream, "quad": QuadStream, "graph": GraphStream}[stream_kind]
            stream = cls.for_rdflib(options=opts)
            data = src.serialize(format="jelly", stream=stream, options=opts, encoding="jelly")
            dst = Dataset() if quads else Graph()
            dst.parse(data=data, format="jelly")
            if quads:
                return {("quad", from_rdflib(s), from_rdflib(p), from_rdflib(o), from_rdflib(c)) for s, p, o, c in dst.quads()}
            return {("triple", *[from_rdflib(t) for t in tr]) for tr in dst}
        kind, got = guarded(run)
        want = set(lower_lang(rdflib_norm([("quad" if quads else "triple", *s) for s in stmts])))
        if kind == "raise" or set(lower_lang(list(got))) != want:
            net.fail("rdflib-roundtrip", "rdflib round trip does not give back the same set of statements", inp, got if kind == "raise" else sorted(map(repr, got))[:8], sorted(map(repr, want))[:8])
    net.finish("bounded", "Graphs (TRIPLES) and Datasets (QUADS / GRAPHS physical type, default graph, bnode graph names, empty named graphs) of 1..7 statements x presets (prefix table 0, datatype table 0 when unused) x frame sizes x delimited / non-delimited flat x flat / grouped logical types x explicit xsd:string",
               "each case = (configuration, statement set); compared as sets with rdflib's own term normalisation as the expectation")

if __name__ == "__main__":
    from common import run_main
    run_main(main, "C02")
