"""C19 bounded net: row-level audit of real output by the reference decoder (redundant entries, missed elisions, missed zero forms)."""
from common import *  # noqa: F403

def main() -> None:
    a = parse_args()
    net = Net("C19", a)
    n_iter = 1500 if net.quick else 30000
    for it in range(n_iter):
        if not net.time_left():
            break
        rng = net.rng
        phys = rng.choice([1, 2, 3])
        stmts = gen_statements(rng, 1 if phys == 1 else 2, rng.randrange(2, 9), repeat=0.6)
        big = rng.random() < 0.5
        sizes = (64, 32, 16) if big else sizes_for(stmts, rng, allow_zero_prefix=False)
        inp = {"physical": phys, "sizes": sizes, "statements": stmts}
        net.case(inp)
        kind, data = guarded(lambda: serialize_generic(stmts, phys, make_options(phys, sizes, logical={1: 1, 2: 2, 3: 2}[phys], frame_size=rng.choice([1, 3, 250]))))
        if kind == "raise":
            continue
        try:
            d = decode_stream(data, True)
        except Exception:  # noqa: BLE001  (C03's business)
            continue
        au = d.audit
        # audit 'redundant_entries' counts values present anywhere in the table; with big tables nothing is evicted, so any is a defect
        if big and au["redundant_entries"]:
            net.fail("redundant-entry", "an entry was sent for a string already resident", inp, au)
        if au["missed_elisions"]:
            net.fail("missed-elision", "a term equal to the previous statement's term in the same slot was sent again", inp, au)
        if au["missed_zero_entry"] or au["missed_zero_name"] or au["missed_zero_prefix"]:
            net.fail("missed-zero", "an explicit id was sent where the zero form is equivalent", inp, au)
        if phys == 3:
            runs = sum(1 for i, s in enumerate(stmts) if i == 0 or s[3] != stmts[i - 1][3])
            if au["graph_starts"] != runs:
                net.fail("graph-runs", "graph starts differ from the number of maximal runs of equal graph names", inp, au["graph_starts"], runs)
    # long runs of equal graph names must still travel under a single graph start
    for run_lens in ([251, 2], [3, 600, 5], [1300]) if not net.quick else ([251, 2], [3, 300]):
        stmts = []
        for gi, n in enumerate(run_lens):
            stmts += [(("iri", f"http://ex.org/s{i}"), ("iri", "http://ex.org/p"), ("lit", str(i), None, None), ("iri", f"http://ex.org/g{gi}")) for i in range(n)]
        net.case(("runs", run_lens))
        kind, data = guarded(lambda: serialize_generic(stmts, 3, make_options(3, (64, 32, 16), logical=2, frame_size=250)))
        if kind == "ok":
            au = decode_stream(data, True).audit
            if au["graph_starts"] != len(run_lens):
                net.fail("graph-runs", "consecutive quads with equal graph names do not travel under a single graph start", {"run_lengths": run_lens}, au["graph_starts"], len(run_lens))
    net.finish("bounded", "random statement lists (2..9, repeat probability 0.6), tables large (64/32/16) or minimal, 3 physical types",
               "each case = (physical type, preset, statement list); audit counters from the reference decoder must be 0")
if __name__ == "__main__":
    from common import run_main
    run_main(main, "C19")
