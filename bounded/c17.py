"""C17 bounded net: hostile byte strings through the parsing entry points in a watch-dogged child process
(wall-time and allocation caps); outcome must be 'returns' or 'raises an ordinary Exception'."""
from common import *  # noqa: F403
import subprocess, tracemalloc

TIME_CAP = 5.0
MEM_CAP = 48 * 1024 * 1024

def child() -> None:
    import signal
    from pyjelly.integrations.generic.parse import parse_jelly_flat, parse_jelly_grouped
    from pyjelly.integrations.rdflib.parse import parse_jelly_flat as rflat, parse_jelly_to_graph as rgraph
    entries = [("g.flat", lambda b: sum(1 for _ in parse_jelly_flat(io.BytesIO(b)))),
               ("g.grouped", lambda b: sum(1 for _ in parse_jelly_grouped(io.BytesIO(b)))),
               ("r.flat", lambda b: sum(1 for _ in rflat(io.BytesIO(b)))),
               ("r.graph", lambda b: len(rgraph(io.BytesIO(b))))]
    for line in sys.stdin:
        b = bytes.fromhex(line.strip())
        res = {}
        for name, fn in entries:
            tracemalloc.start()
            t0 = time.time()
            try:
                fn(b); out = "ok"
            except Exception as e:  # noqa: BLE001
                out = "exc:" + type(e).__name__
            except BaseException as e:  # noqa: BLE001
                out = "base:" + type(e).__name__
            peak = tracemalloc.get_traced_memory()[1]
            tracemalloc.stop()
            res[name] = [out, round(time.time() - t0, 3), peak]
        print(json.dumps(res), flush=True)

def hostile(rng, valid):
    k = rng.random()
    if k < 0.2:
        return bytes(rng.randrange(256) for _ in range(rng.randrange(0, 60)))
    v = bytearray(rng.choice(valid))
    if k < 0.45:
        for _ in range(rng.randrange(1, 6)):
            if v:
                v[rng.randrange(len(v))] ^= 1 << rng.randrange(8)
        return bytes(v)
    if k < 0.6:
        w = rng.choice(valid)
        i, j = rng.randrange(len(v) + 1), rng.randrange(len(w) + 1)
        return bytes(v[:i]) + w[j:]
    if k < 0.7:
        return bytes(v[: rng.randrange(len(v) + 1)])
    # structure aware
    frames = wire.frames_of(bytes(v), True)
    rows = [r for f in frames for r in f.get("rows", [])]
    o = rows[0]["options"]
    choice = rng.randrange(7)
    if choice == 0:
        o[rng.choice(["max_name_table_size", "max_prefix_table_size", "max_datatype_table_size"])] = rng.choice([4097, 2**20, 2**31, 2**32 - 1])
    elif choice == 1:
        for r in rows:
            for kind in ("name", "prefix", "datatype"):
                if kind in r:
                    r[kind]["id"] = rng.choice([30_000_000, 2**31, 2**32 - 1])
    elif choice == 2:
        return wire.write_varint(rng.choice([2**31, 2**40, 2**62])) + bytes(v[1:])
    elif choice == 3:
        t = {"_type": "RdfTriple", "s_bnode": "a", "p_bnode": "b", "o_bnode": "c"}
        for _ in range(rng.choice([50, 99, 101, 400])):
            t = {"_type": "RdfTriple", "s_triple_term": t, "p_bnode": "b", "o_bnode": "c"}
        rows.append({"_type": "RdfStreamRow", "triple": t})
    elif choice == 4:
        rows.insert(rng.randrange(len(rows) + 1), {"_type": "RdfStreamRow", "options": dict(o, max_name_table_size=4096)})
    elif choice == 5:
        for r in rows:
            for kind in ("triple", "quad"):
                if kind in r:
                    for f in list(r[kind]):
                        if f.endswith("_iri"):
                            r[kind][f]["name_id"] = rng.choice([2**31, 2**32 - 1, 5000])
    else:
        o["version"] = rng.choice([0, 3, 2**31])
    return wire.join_delimited([{"_type": "RdfStreamFrame", "rows": rows}])

def main() -> None:
    a = parse_args()
    net = Net("C17", a)
    rng = net.rng
    valid = []
    for i in range(12):
        phys = rng.choice([1, 2, 3])
        stmts = gen_statements(rng, 1 if phys == 1 else 2, rng.randrange(1, 6))
        valid.append(serialize_generic(stmts, phys, make_options(phys, sizes_for(stmts, rng), logical={1: 1, 2: 2, 3: 2}[phys], frame_size=rng.choice([1, 250]))))
    inputs = [hostile(rng, valid) for _ in range(250 if net.quick else 4000)]
    env = dict(os.environ)
    def spawn():
        return subprocess.Popen([sys.executable, os.path.abspath(__file__), "--tree", a.tree, "--child"], stdin=subprocess.PIPE, stdout=subprocess.PIPE,
                                stderr=subprocess.DEVNULL, text=True, env=env, cwd=a.tree)
    import select
    p = spawn()
    for b in inputs:
        if not net.time_left():
            break
        net.case(b)
        try:
            p.stdin.write(b.hex() + "\n"); p.stdin.flush()
        except BrokenPipeError:
            pass
        r, _, _ = select.select([p.stdout], [], [], 4 * TIME_CAP + 5)
        line = p.stdout.readline() if r else ""
        if not r:
            p.kill(); p = spawn()
            net.fail("hang", "a parsing entry point did not come back within the time cap", {"bytes_hex": b.hex()})
            continue
        if not line:
            rc = p.poll()
            p = spawn()
            net.fail("interpreter-died", f"the child interpreter died (exit {rc}) while parsing", {"bytes_hex": b.hex()})
            continue
        res = json.loads(line)
        for name, (out, dt, peak) in res.items():
            if out.startswith("base:"):
                net.fail("non-exception", f"{name} ended in {out[5:]}, which is not an ordinary Exception", {"bytes_hex": b.hex()})
            elif dt > TIME_CAP:
                net.fail("slow", f"{name} took {dt}s on {len(b)} bytes", {"bytes_hex": b.hex()})
            elif peak > MEM_CAP:
                net.fail("balloon", f"{name} allocated {peak >> 20} MiB for a {len(b)}-byte input (memory proportional to a declared size)", {"bytes_hex": b.hex()}, peak)
    try:
        p.stdin.close(); p.wait(timeout=5)
    except Exception:  # noqa: BLE001
        p.kill()
    net.finish("bounded", "random bytes, bit flips, splices and truncations of valid streams, and structure-aware hostile streams (table sizes up to 2^32-1, entry/reference ids up to 2^32-1, frame lengths up to 2^62, quoted triples nested 50..400 deep, stray options rows, odd versions); 4 entry points; child process with 5 s and 48 MiB caps per call",
               "each case = one byte string")

if __name__ == "__main__":
    if "--child" in sys.argv:
        sys.argv.remove("--child")
        ap = argparse.ArgumentParser(); ap.add_argument("--tree"); setup(ap.parse_args().tree)
        child()
    else:
        from common import run_main
        run_main(main, "C17")
