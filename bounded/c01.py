"""C01 bounded net: generic API round trip, lists compared (order, duplicates), every physical type, framing, preset."""
from common import *  # noqa: F403

def main() -> None:
    a = parse_args()
    net = Net("C01", a)
    n_iter = 1500 if net.quick else 30000
    for it in range(n_iter):
        if not net.time_left():
            break
        rng = net.rng
        phys = rng.choice([1, 2, 3])
        if rng.random() < 0.3:
            # datatype-heavy generalized statements against a small, evicting datatype table (LRU order matters)
            from spec.gen import DTS, LEX
            dts = [d for d in DTS if not d.endswith("#string")]
            def tl():
                return ("lit", rng.choice(LEX), None, rng.choice(dts))
            stmts = []
            for _ in range(rng.randrange(4, 12)):
                st = (tl(), ("iri", "http://ex.org/p"), tl()) + ((tl(),) if phys != 1 else ())
                stmts.append(st)
            k = max(occ(s)["d"] for s in stmts)
            sizes = (8, rng.choice([0, 4]), k + rng.randrange(0, 2))
        else:
            stmts = gen_statements(rng, 1 if phys == 1 else 2, rng.randrange(1, 7))
            sizes = sizes_for(stmts, rng)
        fs = rng.choice([1, 2, 3, 4, 250])
        delimited = True if phys == 3 else rng.random() < 0.7
        logical = {1: 1, 2: 2, 3: 2}[phys] if not delimited else rng.choice([None, {1: 1, 2: 2, 3: 2}[phys]])
        inp = {"physical": phys, "sizes": sizes, "frame_size": fs, "delimited": delimited, "logical": logical, "statements": stmts}
        net.case(inp)
        def run() -> list:
            opts = make_options(phys, sizes, logical=logical, frame_size=fs, delimited=delimited)
            data = serialize_generic(stmts, phys, opts)
            return parse_generic_flat(data)
        kind, got = guarded(run)
        want = [("triple" if phys == 1 else "quad", *s) for s in stmts]
        if kind == "raise" or got != want:
            net.fail("roundtrip", "generic round trip differs from the input sequence", inp, got, want)
    net.finish("bounded", "random statement lists of 1..7 over 13 IRIs/7 lexical forms/quoted depth<=2, tables sized k..k+2 (prefix table also 0), frame sizes {1,2,3,4,250}, 3 physical types, delimited and non-delimited flat",
               "each case = (physical type, preset, frame size, framing, statement list); distinct by hash of the whole case; all are non-trivial (>=1 statement)")
if __name__ == "__main__":
    from common import run_main
    run_main(main, "C01")
