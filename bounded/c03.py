"""C03 bounded net: bytes of every generic entry point decoded by the independent wire codec + spec state machine."""
from common import *  # noqa: F403

def main() -> None:
    a = parse_args()
    net = Net("C03", a)
    from pyjelly.integrations.generic.generic_sink import GenericStatementSink, IRI
    from pyjelly.integrations.generic.serialize import flat_stream_to_file, grouped_stream_to_file
    n_iter = 1500 if net.quick else 30000
    for it in range(n_iter):
        if not net.time_left():
            break
        rng = net.rng
        phys = rng.choice([1, 2, 3])
        stmts = gen_statements(rng, 1 if phys == 1 else 2, rng.randrange(1, 7))
        sizes = sizes_for(stmts, rng)
        fs = rng.choice([1, 2, 3, 250])
        entry = rng.choice(["stream_frames", "flat_to_file", "sink.serialize", "grouped_to_file"]) if phys != 3 else "stream_frames"
        # declarations with a *generator* of quads are C14's subject (missing isinstance guard); here only via sinks
        ns = rng.random() < 0.3 and (entry in ("sink.serialize", "grouped_to_file") or phys == 1)
        inp = {"physical": phys, "sizes": sizes, "frame_size": fs, "ns": ns, "entry": entry, "statements": stmts}
        net.case(inp)
        def run() -> bytes:
            logical = {1: 1, 2: 2, 3: 2}[phys]
            opts = make_options(phys, sizes, logical=logical, frame_size=fs, ns=ns)
            if entry == "stream_frames":
                return serialize_generic(stmts, phys, opts)
            out = io.BytesIO()
            if entry == "flat_to_file":
                flat_stream_to_file((stmt_to_generic(s) for s in stmts), out, opts)
            else:
                sink = GenericStatementSink()
                for s in stmts:
                    sink.add(stmt_to_generic(s))
                if ns:
                    sink.bind("ex", IRI("http://ex.org/ns#"))
                if entry == "sink.serialize":
                    sink.serialize(out)
                else:
                    grouped_stream_to_file((x for x in [sink]), out, options=opts)
            return out.getvalue()
        kind, data = guarded(run)
        if kind == "raise":
            net.fail("serialize-raised", "serializer raised on a statement list inside C01's domain", inp, data)
            continue
        try:
            d = decode_stream(data, True)
        except (SpecInvalid, wire.WireError) as e:
            net.fail("invalid-stream", f"independent decoder rejects the emitted stream: {e}", inp, data.hex()[:400])
            continue
        got = [e for e in d.events if e[0] != "ns"]
        want = [("triple" if phys == 1 else "quad", *s) for s in stmts]
        if got != want:
            net.fail("wrong-denotation", "emitted stream denotes different statements for an independent decoder", inp, got, want)
        nsrows = [e for e in d.events if e[0] == "ns"]
        if nsrows and d.options.get("version", 0) < 2:
            net.fail("ns-in-v1", "namespace row in a version-1 stream", inp, nsrows)
    net.finish("bounded", "as C01, plus entry points stream_frames/flat_stream_to_file/sink.serialize/grouped_stream_to_file and namespace declarations on/off",
               "each case = (entry point, physical type, preset, frame size, ns flag, statement list)")
if __name__ == "__main__":
    from common import run_main
    run_main(main, "C03")
