"""
Shared helpers of the bounded nets (run with /venv/bin/python, PYTHONPATH=<tree>:/verif).
Everything here is labelled *bounded*: it executes the real code on small-scope inputs and compares with the
specification model in /verif/spec; it is a net under the proofs and the source of replayable real inputs,
never counted as proved.
"""
from __future__ import annotations

import argparse
import hashlib
import io
import json
import os
import random
import sys
import time
import traceback
from typing import Any, Callable

HERE = os.path.dirname(os.path.abspath(__file__))
sys.path.insert(0, os.path.dirname(HERE))

from spec import wire  # noqa: E402
from spec.gen import gen_statements, gen_term, occ  # noqa: E402
from spec.jelly_spec import RefDecoder, RefEncoder, SpecInvalid, decode_frames, decode_stream, norm_lit  # noqa: E402


def setup(tree: str) -> None:
    tree = os.path.abspath(tree)
    if tree not in sys.path:
        sys.path.insert(0, tree)
    import logging
    logging.getLogger("rdflib").setLevel(logging.CRITICAL)
    logging.getLogger("rdflib.term").setLevel(logging.CRITICAL)
    import pyjelly
    assert os.path.abspath(pyjelly.__file__).startswith(tree), f"wrong pyjelly imported: {pyjelly.__file__} (want {tree})"


# ------------------------------------------------------------------ conversions
def to_generic(t: tuple) -> Any:
    from pyjelly.integrations.generic.generic_sink import IRI, BlankNode, DefaultGraph, Literal, Triple
    k = t[0]
    if k == "iri":
        return IRI(t[1])
    if k == "bnode":
        return BlankNode(t[1])
    if k == "lit":
        return Literal(t[1], t[2], t[3])
    if k == "quoted":
        return Triple(*(to_generic(x) for x in t[1:]))
    if k == "default":
        return DefaultGraph
    raise ValueError(t)


def from_generic(o: Any) -> tuple:
    from pyjelly.integrations.generic.generic_sink import IRI, BlankNode, DefaultGraph, Literal, Triple
    if isinstance(o, IRI):
        return ("iri", o._iri)
    if isinstance(o, BlankNode):
        return ("bnode", o._identifier)
    if isinstance(o, Literal):
        return norm_lit(o._lex, o._langtag, o._datatype)
    if isinstance(o, Triple):
        return ("quoted", *(from_generic(x) for x in o))
    if o is DefaultGraph:
        return ("default",)
    return ("??", repr(o))


def stmt_to_generic(st: tuple) -> Any:
    from pyjelly.integrations.generic.generic_sink import Quad, Triple
    terms = [to_generic(t) for t in st]
    return Triple(*terms) if len(terms) == 3 else Quad(*terms)


def event_from_generic(x: Any) -> tuple:
    from pyjelly.integrations.generic.generic_sink import Prefix, Quad, Triple
    if isinstance(x, Prefix):
        return ("ns", x.prefix, x.iri._iri)
    if isinstance(x, Quad):
        return ("quad", *(from_generic(t) for t in x))
    if isinstance(x, Triple):
        return ("triple", *(from_generic(t) for t in x))
    return ("??", repr(x))


def to_rdflib(t: tuple) -> Any:
    import rdflib
    from rdflib.graph import DATASET_DEFAULT_GRAPH_ID
    k = t[0]
    if k == "iri":
        return rdflib.URIRef(t[1])
    if k == "bnode":
        return rdflib.BNode(t[1])
    if k == "lit":
        return rdflib.Literal(t[1], lang=t[2], datatype=rdflib.URIRef(t[3]) if t[3] else None)
    if k == "default":
        return DATASET_DEFAULT_GRAPH_ID
    raise ValueError(t)


def from_rdflib(o: Any) -> tuple:
    import rdflib
    from rdflib.graph import DATASET_DEFAULT_GRAPH_ID
    if isinstance(o, rdflib.Graph):
        o = o.identifier
    if o == DATASET_DEFAULT_GRAPH_ID and isinstance(o, rdflib.URIRef):
        return ("default",)
    if isinstance(o, rdflib.URIRef):
        return ("iri", str(o))
    if isinstance(o, rdflib.BNode):
        return ("bnode", str(o))
    if isinstance(o, rdflib.Literal):
        return norm_lit(str(o), (o.language or None) and o.language.lower(), str(o.datatype) if o.datatype else None)
    return ("??", repr(o))


def rdflib_norm(ev: Any) -> Any:
    """what rdflib itself makes of the terms of an event (it normalises some lexical forms, e.g. xsd:boolean, and
    lower-cases language tags): the expectation for rdflib-facing comparisons (A-RDFLIB)"""
    if isinstance(ev, list):
        return [rdflib_norm(x) for x in ev]
    if isinstance(ev, tuple) and ev and ev[0] in ("triple", "quad"):
        return (ev[0], *[from_rdflib(to_rdflib(t)) for t in ev[1:]])
    return ev


def lower_lang(ev: Any) -> Any:
    """language tags compare case-insensitively (RDF 1.1); used only by rdflib-facing oracles"""
    if isinstance(ev, list):
        return [lower_lang(x) for x in ev]
    if isinstance(ev, tuple):
        if ev and ev[0] == "lit":
            return ("lit", ev[1], ev[2].lower() if ev[2] else None, ev[3])
        return tuple(lower_lang(x) for x in ev)
    return ev


# -------------------------------------------------------------------- options
def make_options(physical: int, sizes: tuple[int, int, int], *, logical: int | None = None, frame_size: int | None = None,
                 delimited: bool = True, ns: bool = False, flow: Any = None, name: str = "", gen: bool = True,
                 star: bool = True) -> Any:
    from pyjelly.options import LookupPreset, StreamParameters
    from pyjelly.serialize.streams import SerializerOptions
    kw: dict = {}
    if logical is not None:
        kw["logical_type"] = logical
    if frame_size is not None:
        kw["frame_size"] = frame_size
    if flow is not None:
        kw["flow"] = flow
    return SerializerOptions(
        params=StreamParameters(generalized_statements=gen, rdf_star=star, delimited=delimited,
                                namespace_declarations=ns, stream_name=name),
        lookup_preset=LookupPreset(max_names=sizes[0], max_prefixes=sizes[1], max_datatypes=sizes[2]), **kw)


def make_stream(physical: int, options: Any) -> Any:
    from pyjelly.integrations.generic.serialize import GenericSinkTermEncoder
    from pyjelly.serialize.streams import GraphStream, QuadStream, TripleStream
    cls = {1: TripleStream, 2: QuadStream, 3: GraphStream}[physical]
    return cls(encoder=GenericSinkTermEncoder(lookup_preset=options.lookup_preset), options=options)


def write_frames(frames: Any, delimited: bool = True) -> bytes:
    from pyjelly.serialize.ioutils import write_delimited, write_single
    out = io.BytesIO()
    for f in frames:
        (write_delimited if delimited else write_single)(f, out)
    return out.getvalue()


def serialize_generic(stmts: list[tuple], physical: int, options: Any) -> bytes:
    """statement list -> bytes through stream_frames with an explicit stream of the given physical type"""
    from pyjelly.integrations.generic.serialize import stream_frames
    stream = make_stream(physical, options)
    gen = (stmt_to_generic(s) for s in stmts)
    return write_frames(stream_frames(stream, gen), options.params.delimited)


def parse_generic_flat(data: bytes) -> list[tuple]:
    from pyjelly.integrations.generic.parse import parse_jelly_flat
    return [event_from_generic(x) for x in parse_jelly_flat(io.BytesIO(data))]


def expected_events(stmts: list[tuple], physical: int) -> list[tuple]:
    return [("triple" if physical == 1 else "quad", *s) for s in stmts]


def sizes_for(stmts: list[tuple], rng: random.Random, slack: int = 2, allow_zero_prefix: bool = True) -> tuple[int, int, int]:
    occs = [occ(s) for s in stmts] or [{"n": 0, "p": 0, "d": 0}]
    k = {t: max(o[t] for o in occs) for t in "npd"}
    n = max(8, k["n"]) + rng.randrange(0, slack + 1)
    p = max(1, k["p"]) + rng.randrange(0, slack + 1)
    if allow_zero_prefix and rng.random() < 0.25:
        p = 0
    d = k["d"] + rng.randrange(0, slack + 1)
    return n, p, d


# -------------------------------------------------------------------- harness
class Net:
    def __init__(self, prop: str, args: argparse.Namespace) -> None:
        self.prop = prop
        self.tier = args.tier
        self.seed = args.seed
        self.replays = args.replays
        self.rng = random.Random(f"{prop}-{args.seed}")
        self.evaluations = 0
        self.distinct: set[str] = set()
        self.failures: list[dict] = []
        self.samples: list[Any] = []
        self.t0 = time.time()
        self.budget = float(os.environ.get("PYVC_NET_BUDGET", "25" if args.tier == "quick" else "240"))

    @property
    def quick(self) -> bool:
        return self.tier == "quick"

    def time_left(self) -> bool:
        return time.time() - self.t0 < self.budget

    def case(self, key: Any, nontrivial: bool = True) -> None:
        self.evaluations += 1
        if nontrivial:
            self.distinct.add(hashlib.sha1(repr(key).encode()).hexdigest()[:12])
        if len(self.samples) < 4:
            self.samples.append(_short(key))

    def fail(self, cls: str, what: str, inp: Any, got: Any = None, want: Any = None) -> None:
        if sum(1 for f in self.failures if f["class"] == cls) >= 3:
            return
        payload = {"property": self.prop, "obligation": f"bounded-net:{cls}", "class": cls, "what": what,
                   "input": inp, "got": _short(got, 2000), "want": _short(want, 2000), "seed": self.seed}
        path = ""
        if self.replays:
            os.makedirs(self.replays, exist_ok=True)
            h = hashlib.sha1(json.dumps(payload, sort_keys=True, default=repr).encode()).hexdigest()[:10]
            path = os.path.join(self.replays, f"{self.prop}-bounded-{cls}-{h}.json")
            with open(path, "w") as f:
                json.dump(payload, f, indent=1, default=repr)
        self.failures.append({"class": cls, "what": what, "replay": path, "input": _short(inp, 600)})

    def finish(self, label: str, scope: str, rule: str) -> None:
        out = {"label": label, "scope": scope, "rule": rule, "evaluations": self.evaluations,
               "distinct_nontrivial": len(self.distinct), "samples": self.samples, "failures": self.failures,
               "failures_n": len(self.failures), "wall_s": round(time.time() - self.t0, 2)}
        print(json.dumps(out, default=repr))
        sys.exit(0)


def _short(x: Any, n: int = 300) -> Any:
    s = repr(x)
    return s if len(s) <= n else s[:n] + "..."


def parse_args() -> argparse.Namespace:
    ap = argparse.ArgumentParser()
    ap.add_argument("--tree", required=True)
    ap.add_argument("--tier", default="quick")
    ap.add_argument("--seed", type=int, default=0)
    ap.add_argument("--replays", default="")
    a = ap.parse_args()
    setup(a.tree)
    return a


def guarded(fn: Callable[[], Any]) -> tuple[str, Any]:
    """('ok', value) | ('raise', 'ExcName: msg')"""
    try:
        return "ok", fn()
    except Exception as e:  # noqa: BLE001
        return "raise", f"{type(e).__name__}: {e}"


def run_main(main: Callable[[], Any], prop: str) -> None:
    """Run a net. An exception that escapes the net from *inside the code under test* (a frame of the tree being checked
    is on the traceback) is a behaviour the unchanged tree does not show in any scenario of the net: it is reported as a
    failure of class `exception-in-code-under-test` (with the traceback as replay). Any other exception is a bug of the
    net itself and is re-raised (the driver reports a machinery error)."""
    try:
        main()
    except SystemExit:
        raise
    except Exception as e:  # noqa: BLE001
        tb = traceback.format_exc()
        tree = next((a for i, a in enumerate(sys.argv) if i and sys.argv[i - 1] == "--tree"), "")
        tree = os.path.abspath(tree) if tree else ""
        frames = traceback.extract_tb(e.__traceback__)
        if not tree or not any(os.path.abspath(f.filename).startswith(os.path.join(tree, "pyjelly")) for f in frames):
            raise
        replays = next((a for i, a in enumerate(sys.argv) if i and sys.argv[i - 1] == "--replays"), "")
        payload = {"property": prop, "obligation": "bounded-net:exception-in-code-under-test", "class": "exception-in-code-under-test",
                   "what": f"{type(e).__name__}: {e}", "traceback": tb[-4000:]}
        path = ""
        if replays:
            os.makedirs(replays, exist_ok=True)
            h = hashlib.sha1(tb.encode()).hexdigest()[:10]
            path = os.path.join(replays, f"{prop}-bounded-exception-in-code-under-test-{h}.json")
            with open(path, "w") as f:
                json.dump(payload, f, indent=1)
        out = {"label": "bounded", "scope": "aborted by an exception raised in the code under test", "rule": "", "evaluations": 0,
               "distinct_nontrivial": 0, "samples": [],
               "failures": [{"class": "exception-in-code-under-test", "what": payload["what"], "replay": path, "input": tb[-600:]}],
               "failures_n": 1, "wall_s": 0}
        print(json.dumps(out))
        sys.exit(0)
