"""C15 bounded net: six parse entry points on the same bytes; both serialisers on corresponding inputs byte for byte."""
from common import *  # noqa: F403

def main() -> None:
    a = parse_args()
    net = Net("C15", a)
    import rdflib
    from pyjelly.integrations.generic import parse as gp, serialize as gs
    from pyjelly.integrations.rdflib import parse as rp, serialize as rs
    from pyjelly.options import LookupPreset
    rng = net.rng
    import c04
    for it in range(150 if net.quick else 2500):
        if not net.time_left():
            break
        phys = rng.choice([1, 2, 3])
        stmts = gen_statements(rng, 1 if phys == 1 else 2, rng.randrange(1, 6), quoted_ok=False)
        stmts = [s for s in stmts if s[0][0] in ("iri", "bnode") and s[1][0] == "iri" and (len(s) == 3 or s[3][0] != "lit")]
        # rdflib gives an empty blank-node label a random id and treats an empty graph IRI as "no name": not pyjelly's business
        stmts = [s for s in stmts if not any(t in (("bnode", ""), ("iri", "")) for t in s)]
        if not stmts:
            continue
        if rng.random() < 0.5:
            frames, expect = c04.build_stream(rng, phys, stmts, 1)
            data = wire.join_delimited(frames)
        else:
            data = serialize_generic(stmts, phys, make_options(phys, sizes_for(stmts, rng), logical={1: 1, 2: 2, 3: 2}[phys], frame_size=rng.choice([1, 3, 250])))
            expect = [("triple" if phys == 1 else "quad", *s) for s in stmts]
        net.case(data)
        outs = {}
        def conv_r(x):
            return ("triple" if len(x) == 3 else "quad", *[from_rdflib(t) for t in x])
        outs["generic.flat"] = guarded(lambda: [event_from_generic(x) for x in gp.parse_jelly_flat(io.BytesIO(data)) if not isinstance(x, gp.Prefix)])
        outs["generic.grouped"] = guarded(lambda: [event_from_generic(x) for s in gp.parse_jelly_grouped(io.BytesIO(data)) for x in s])
        outs["generic.to_graph"] = guarded(lambda: [event_from_generic(x) for x in gp.parse_jelly_to_graph(io.BytesIO(data))])
        outs["rdflib.flat"] = guarded(lambda: [conv_r(x) for x in rp.parse_jelly_flat(io.BytesIO(data)) if not isinstance(x, rp.Prefix)])
        def rgrouped():
            out = []
            for g in rp.parse_jelly_grouped(io.BytesIO(data)):
                if isinstance(g, rdflib.Dataset):
                    out += [("quad", from_rdflib(s), from_rdflib(p), from_rdflib(o), from_rdflib(c)) for s, p, o, c in g.quads()]
                else:
                    out += [("triple", *[from_rdflib(t) for t in tr]) for tr in g]
            return out
        outs["rdflib.grouped"] = guarded(rgrouped)
        def rgraph():
            g = rp.parse_jelly_to_graph(io.BytesIO(data))
            if isinstance(g, rdflib.Dataset):
                return [("quad", from_rdflib(s), from_rdflib(p), from_rdflib(o), from_rdflib(c)) for s, p, o, c in g.quads()]
            return [("triple", *[from_rdflib(t) for t in tr]) for tr in g]
        outs["rdflib.to_graph"] = guarded(rgraph)
        want = lower_lang(rdflib_norm(expect))
        for name, (kind, got) in outs.items():
            ordered = name in ("generic.flat", "generic.grouped", "generic.to_graph", "rdflib.flat")
            w = want if name.startswith("rdflib") else lower_lang(expect)
            g = lower_lang(got) if kind == "ok" else got
            same = (g == w) if ordered else (kind == "ok" and set(map(repr, g)) == set(map(repr, w)))
            if kind == "raise" or not same:
                net.fail("entry-points-disagree", f"{name} differs from the statements the bytes denote (the other entry points agree with them)", {"bytes_hex": data.hex(), "entry": name}, got, w)
                break
    # serialisers: corresponding inputs, same options => byte-identical streams (TRIPLES and QUADS)
    for it in range(80 if net.quick else 1200):
        phys = rng.choice([1, 2])
        stmts = gen_statements(rng, phys, rng.randrange(1, 8), quoted_ok=False)
        stmts = [s for s in stmts if s[0][0] in ("iri", "bnode") and s[1][0] == "iri" and (len(s) == 3 or s[3][0] != "lit")]
        stmts = [s for s in stmts if not any(t in (("bnode", ""), ("iri", "")) for t in s)]
        stmts = [tuple(from_rdflib(to_rdflib(t)) for t in s) for s in stmts]     # corresponding data: what rdflib makes of the terms
        if not stmts:
            continue
        # many namespaces against small advertised tables: ids must stay within what the header declares
        if rng.random() < 0.3:
            stmts = [(("iri", f"http://ns{i}.example/x{i}"), ("iri", "http://ex.org/p"), ("iri", f"http://ns{i}.example/y")) + ((("default",),) if phys == 2 else ()) for i in range(40)]
        preset = rng.choice([LookupPreset(), LookupPreset.small(), LookupPreset(max_names=8, max_prefixes=4, max_datatypes=2)])
        fs = rng.choice([1, 3, 250])
        net.case(("ser", phys, stmts[:3], fs))
        def mk_opts():
            o = make_options(phys, (preset.max_names, preset.max_prefixes, preset.max_datatypes), logical=phys, frame_size=fs, gen=False, star=False)
            return o
        kg, bg = guarded(lambda: write_frames(gs.flat_stream_to_frames((stmt_to_generic(s) for s in stmts), mk_opts())))
        def rser():
            gen = ((rp.Triple(*map(to_rdflib, s)) if phys == 1 else rp.Quad(*map(to_rdflib, s))) for s in stmts)
            return write_frames(rs.flat_stream_to_frames(gen, mk_opts()))
        kr, br = guarded(rser)
        if kg != kr or (kg == "ok" and bg != br):
            net.fail("serialisers-differ", "generic and rdflib serialisers produce different bytes for corresponding data and equal options", {"physical": phys, "preset": repr(preset), "frame_size": fs, "statements": stmts[:6]}, (kg, bg.hex()[:120] if kg == "ok" else bg), (kr, br.hex()[:120] if kr == "ok" else br))
    net.finish("bounded", "RDF 1.1 streams from pyjelly and from the reference encoder through the six parse entry points; corresponding TRIPLES/QUADS inputs through both flat serialisers with default/small/tiny presets (also 40 namespaces)",
               "each case = a byte string or a serialiser input")
if __name__ == "__main__":
    from common import run_main
    run_main(main, "C15")
