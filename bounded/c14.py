"""C14 bounded net: namespace declarations round trip (generic + rdflib) and never affect statements."""
from common import *  # noqa: F403

BINDINGS = [("", "http://ex.org/"), ("ex", "http://ex.org/ns#"), ("n", "urn:nosep"), ("ü", "http://é.org/ü#"), ("e", ""),
            ("o", "http://other.org/p/"), ("x", "http://ex.org/ns#x")]

def main() -> None:
    a = parse_args()
    net = Net("C14", a)
    from pyjelly.integrations.generic.generic_sink import GenericStatementSink, IRI
    from pyjelly.integrations.generic.serialize import stream_frames, flat_stream_to_frames
    from pyjelly.integrations.generic.parse import parse_jelly_flat, parse_jelly_to_graph
    rng = net.rng
    for it in range(120 if net.quick else 1500):
        if not net.time_left():
            break
        phys = rng.choice([1, 2, 3])
        stmts = gen_statements(rng, 1 if phys == 1 else 2, rng.randrange(1, 5), quoted_ok=False)
        binds = rng.sample(BINDINGS, rng.randrange(0, 5))
        sizes = (8 + rng.randrange(0, 3), rng.choice([0, 1, 2, 4, 8]), 4)
        if sizes[1] in (1, 2):     # keep statements inside C01's domain for the prefix table
            k = max(occ(s)["p"] for s in stmts)
            sizes = (sizes[0], max(sizes[1], k), sizes[2])
        source = rng.choice(["sink", "generator"])
        inp = {"physical": phys, "sizes": sizes, "bindings": binds, "source": source, "statements": stmts}
        net.case(inp, nontrivial=bool(binds))
        def run(ns: bool):
            opts = make_options(phys, sizes, logical={1: 1, 2: 2, 3: 2}[phys], frame_size=rng.choice([1, 2, 250]), ns=ns)
            stream = make_stream(phys, opts)
            if source == "sink":
                sink = GenericStatementSink()
                for s in stmts:
                    sink.add(stmt_to_generic(s))
                for p, i in binds:
                    sink.bind(p, IRI(i))
                data = sink
            else:
                data = (stmt_to_generic(s) for s in stmts)
            return write_frames(stream_frames(stream, data))
        k1, with_ns = guarded(lambda: parse_generic_flat(run(True)))
        k0, without = guarded(lambda: parse_generic_flat(run(False)))
        if k0 == "raise":
            continue
        want_stmts = [("triple" if phys == 1 else "quad", *s) for s in stmts]
        if [e for e in without if e[0] == "ns"]:
            net.fail("ns-written-when-off", "a declaration was written although the option is off", inp, without)
        if k1 == "raise":
            net.fail("enabling-changes-outcome", f"enabling namespace declarations turns a working serialisation into {with_ns}", inp, with_ns, want_stmts)
            continue
        if [e for e in with_ns if e[0] != "ns"] != [e for e in without if e[0] != "ns"]:
            net.fail("ns-affects-statements", "statements read back differ with declarations on/off", inp, with_ns, without)
        if source == "sink":
            want_ns = [("ns", p, i) for p, i in dict(binds).items()]
            got_ns = [e for e in with_ns if e[0] == "ns"]
            if got_ns != want_ns:
                net.fail("ns-roundtrip", "declarations read back differ from the bindings (prefix, IRI, order)", inp, got_ns, want_ns)
            # re-serialise what was read
            def again():
                sink2 = parse_jelly_to_graph(io.BytesIO(run(True)))
                out = io.BytesIO()
                opts = make_options(phys, sizes, logical={1: 1, 2: 2, 3: 2}[phys], ns=True)
                stream = make_stream(1 if phys == 1 else 2, opts)
                return [e for e in parse_generic_flat(write_frames(stream_frames(stream, sink2))) if e[0] == "ns"]
            k2, ns2 = guarded(again)
            if k2 == "raise" or ns2 != want_ns:
                net.fail("ns-reserialise", "re-serialising what was read does not reproduce the declarations", inp, ns2, want_ns)
    net.finish("bounded", "0..4 bindings from 7 (empty prefix, separator-free, non-ASCII, empty IRI) x 1..4 statements x 3 physical types x prefix table {0,1,2,4,8} x sink/generator input",
               "each case = (config, bindings, statements); non-trivial = at least one binding")
main()
