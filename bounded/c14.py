"""C14 bounded net: namespace declarations round trip (generic + rdflib) and never affect statements."""
from common import *  # noqa: F403

BINDINGS = [("", "http://ex.org/"), ("ex", "http://ex.org/ns#"), ("n", "urn:nosep"), ("ü", "http://é.org/ü#"), ("e", ""),
            ("o", "http://other.org/p/"), ("x", "http://ex.org/ns#x")]

def main() -> None:
    a = parse_args()
    net = Net("C14", a)
    from pyjelly.integrations.generic.generic_sink import GenericStatementSink, IRI
    from pyjelly.integrations.generic.serialize import stream_frames, flat_stream_to_frames
    from pyjelly.integrations.generic.parse import parse_jelly_flat, parse_jelly_to_graph
    rng = net.rng
    for it in range(120 if net.quick else 1500):
        if not net.time_left():
            break
        phys = rng.choice([1, 2, 3])
        stmts = gen_statements(rng, 1 if phys == 1 else 2, rng.randrange(1, 5), quoted_ok=False)
        binds = rng.sample(BINDINGS, rng.randrange(0, 5))
        sizes = (8 + rng.randrange(0, 3), rng.choice([0, 1, 2, 4, 8]), 4)
        if sizes[1] in (1, 2):     # keep statements inside C01's domain for the prefix table
            k = max(occ(s)["p"] for s in stmts)
            sizes = (sizes[0], max(sizes[1], k), sizes[2])
        source = rng.choice(["sink", "generator"])
        inp = {"physical": phys, "sizes": sizes, "bindings": binds, "source": source, "statements": stmts}
        net.case(inp, nontrivial=bool(binds))
        def run(ns: bool):
            opts = make_options(phys, sizes, logical={1: 1, 2: 2, 3: 2}[phys], frame_size=rng.choice([1, 2, 250]), ns=ns)
            stream = make_stream(phys, opts)
            if source == "sink":
                sink = GenericStatementSink()
                for s in stmts:
                    sink.add(stmt_to_generic(s))
                for p, i in binds:
                    sink.bind(p, IRI(i))
                data = sink
            else:
                data = (stmt_to_generic(s) for s in stmts)
            return write_frames(stream_frames(stream, data))
        k1, with_ns = guarded(lambda: parse_generic_flat(run(True)))
        k0, without = guarded(lambda: parse_generic_flat(run(False)))
        if k0 == "raise":
            continue
        want_stmts = [("triple" if phys == 1 else "quad", *s) for s in stmts]
        if [e for e in without if e[0] == "ns"]:
            net.fail("ns-written-when-off", "a declaration was written although the option is off", inp, without)
        if k1 == "raise":
            net.fail("enabling-changes-outcome", f"enabling namespace declarations turns a working serialisation into {with_ns}", inp, with_ns, want_stmts)
            continue
        if [e for e in with_ns if e[0] != "ns"] != [e for e in without if e[0] != "ns"]:
            net.fail("ns-affects-statements", "statements read back differ with declarations on/off", inp, with_ns, without)
        if source == "sink":
            want_ns = [("ns", p, i) for p, i in dict(binds).items()]
            got_ns = [e for e in with_ns if e[0] == "ns"]
            if got_ns != want_ns:
                net.fail("ns-roundtrip", "declarations read back differ from the bindings (prefix, IRI, order)", inp, got_ns, want_ns)
            # re-serialise what was read
            def again():
                sink2 = parse_jelly_to_graph(io.BytesIO(run(True)))
                out = io.BytesIO()
                opts = make_options(phys, sizes, logical={1: 1, 2: 2, 3: 2}[phys], ns=True)
                stream = make_stream(1 if phys == 1 else 2, opts)
                return [e for e in parse_generic_flat(write_frames(stream_frames(stream, sink2))) if e[0] == "ns"]
            k2, ns2 = guarded(again)
            if k2 == "raise" or ns2 != want_ns:
                net.fail("ns-reserialise", "re-serialising what was read does not reproduce the declarations", inp, ns2, want_ns)
    # rdflib API: bindings of the source graph are delivered with the same prefix, also for namespaces rdflib pre-binds
    import rdflib
    from pyjelly.serialize.streams import SerializerOptions
    from pyjelly.options import StreamParameters
    RB = [("ex", "http://ex.org/ns#"), ("sdo", "https://schema.org/"), ("dct", "http://purl.org/dc/terms/"), ("mine", "http://mine.example/"), ("", "http://www.w3.org/2004/02/skos/core#")]
    for it in range(20 if net.quick else 200):
        binds = rng.sample(RB, rng.randrange(1, 4))
        quads = rng.random() < 0.5
        inp = {"api": "rdflib", "bindings": binds, "dataset": quads}
        net.case(inp)
        def run():
            src = rdflib.Dataset() if quads else rdflib.Graph()
            for p_, i_ in binds:
                src.bind(p_, rdflib.Namespace(i_), override=True, replace=True)
            tgt_graph = src.default_context if quads else src
            tgt_graph.add((rdflib.URIRef("http://ex.org/s"), rdflib.URIRef("http://ex.org/p"), rdflib.Literal("o")))
            opts = SerializerOptions(logical_type=2 if quads else 1, params=StreamParameters(namespace_declarations=True))
            data = src.serialize(format="jelly", options=opts, encoding="jelly")
            out = {}
            dst = rdflib.Dataset() if quads else rdflib.Graph()
            list(dst.namespaces())                      # the namespace manager (with rdflib's stock bindings) exists before the parse
            dst.parse(data=data, format="jelly")
            out["plugin"] = {p_: str(n_) for p_, n_ in dst.namespaces()}
            from pyjelly.integrations.rdflib.parse import parse_jelly_to_graph
            g2 = parse_jelly_to_graph(io.BytesIO(data))
            out["to_graph"] = {p_: str(n_) for p_, n_ in g2.namespaces()}
            return out
        kind, got = guarded(run)
        if kind == "raise":
            net.fail("ns-rdflib", f"rdflib round trip with declarations raised: {got}", inp)
            continue
        for api, m in got.items():
            missing = [(p_, i_) for p_, i_ in binds if m.get(p_) != i_]
            if missing:
                net.fail("ns-rdflib", f"rdflib ({api}): bindings {missing} of the source are not delivered as the same prefix with the same IRI", inp, {k: m.get(k) for k, _ in binds})
                break
    net.finish("bounded", "0..4 bindings from 7 (empty prefix, separator-free, non-ASCII, empty IRI) x 1..4 statements x 3 physical types x prefix table {0,1,2,4,8} x sink/generator input",
               "each case = (config, bindings, statements); non-trivial = at least one binding")
if __name__ == "__main__":
    from common import run_main
    run_main(main, "C14")
