"""C07 bounded net: re-partition the rows of real streams into frames at every cut vector; grouped = one sink per frame."""
from common import *  # noqa: F403
import itertools

def main() -> None:
    a = parse_args()
    net = Net("C07", a)
    from pyjelly.integrations.generic import parse as gp, serialize as gs
    from pyjelly.integrations.generic.generic_sink import GenericStatementSink
    from contextvars import ContextVar
    rng = net.rng
    for it in range(60 if net.quick else 800):
        if not net.time_left():
            break
        phys = rng.choice([1, 2, 3])
        stmts = gen_statements(rng, 1 if phys == 1 else 2, rng.randrange(2, 5), quoted_ok=False)
        data = serialize_generic(stmts, phys, make_options(phys, sizes_for(stmts, rng), logical={1: 1, 2: 2, 3: 2}[phys], frame_size=250))
        rows = [r for f in wire.frames_of(data, True) for r in f.get("rows", [])]
        want = [("triple" if phys == 1 else "quad", *s) for s in stmts]
        n = len(rows)
        cutsets = [c for r in range(0, min(n, 4)) for c in itertools.combinations(range(1, n), r)]
        rng.shuffle(cutsets)
        for cuts in cutsets[: (12 if net.quick else 60)]:
            bounds = [0, *cuts, n]
            frames = [{"_type": "RdfStreamFrame", "rows": rows[a:b]} for a, b in zip(bounds, bounds[1:])]
            if rng.random() < 0.3:
                frames.insert(rng.randrange(1, len(frames) + 1), {"_type": "RdfStreamFrame"})
            meta = rng.random() < 0.3
            if meta:
                for i, f in enumerate(frames):
                    f["metadata"] = [{"_type": "MapEntry", "key": "i", "value": bytes([i])}]
            bts = wire.join_delimited(frames)
            net.case(bts)
            kind, got = guarded(lambda: parse_generic_flat(bts))
            if kind == "raise" or got != want:
                net.fail("flat-depends-on-framing", "flat parse changes when the same rows are cut into frames differently", {"bytes_hex": bts.hex(), "cuts": cuts}, got, want)
                continue
            cv = ContextVar("md")
            def grouped():
                per = []
                for i, sink in enumerate(gp.parse_jelly_grouped(io.BytesIO(bts), frame_metadata=cv)):
                    md = dict(cv.get())
                    per.append(([event_from_generic(x) for x in sink], md))
                return per
            kind, per = guarded(grouped)
            if kind == "raise":
                net.fail("grouped-raises", f"grouped parse raises on a re-framed valid stream: {per}", {"bytes_hex": bts.hex()})
                continue
            d = RefDecoder()
            counts = []
            for f in frames:
                before = len(d.events); d.feed_frame(f); counts.append(len(d.events) - before)
            if [len(p[0]) for p in per] != counts or [x for p in per for x in p[0]] != want:
                net.fail("grouped-not-one-sink-per-frame", "grouped parse is not exactly one sink per frame in order / its concatenation differs from the flat parse", {"bytes_hex": bts.hex()}, [len(p[0]) for p in per], counts)
            elif meta and [p[1] for p in per] != [{"i": bytes([i])} for i in range(len(frames))]:
                net.fail("metadata", "frame metadata visible during consumption is not that frame's metadata", {"bytes_hex": bts.hex()}, [p[1] for p in per])
    # grouped serialisation: one frame per non-empty input graph/dataset with a grouped logical type, one shared stream
    for it in range(40 if net.quick else 400):
        phys = rng.choice([1, 2])
        groups = [gen_statements(rng, phys, rng.randrange(0, 4), quoted_ok=False) for _ in range(rng.randrange(1, 5))]
        big = rng.random() < 0.25
        if big:
            groups[rng.randrange(len(groups))] = [(("iri", f"http://ex.org/s{i}"), ("iri", "http://ex.org/p"), ("lit", str(i), None, None)) + ((("default",),) if phys == 2 else ()) for i in range(300)]
        lt = 3 if phys == 1 else 4
        net.case(("grouped-ser", phys, groups if not big else "big"))
        def run():
            def sinks():
                for g in groups:
                    s = GenericStatementSink()
                    for st in g:
                        s.add(stmt_to_generic(st))
                    yield s
            return list(gs.grouped_stream_to_frames(sinks(), make_options(phys, (4000, 150, 32), logical=lt)))
        kind, frames = guarded(run)
        nonempty = [g for g in groups if g]
        if kind == "raise":
            if nonempty and groups[0]:
                net.fail("grouped-ser-raises", f"grouped serialisation raises: {frames}", {"physical": phys, "group_sizes": [len(g) for g in groups]})
            continue
        # the first frame also carries the options row even if the first graph is empty
        expect_frames = len(nonempty) + (1 if groups and not groups[0] else 0)
        if len(frames) != expect_frames:
            net.fail("grouped-ser-frame-count", "grouped serialisation does not write exactly one frame per non-empty input graph/dataset", {"physical": phys, "group_sizes": [len(g) for g in groups]}, len(frames), expect_frames)
    net.finish("bounded", "2..4 statements, every cut vector with up to 3 cuts (sampled), empty frames and metadata inserted; grouped serialisation of 1..4 graphs/datasets (0..3 statements, occasionally 300) through one shared stream",
               "each case = a re-framed byte string or a group-size vector")
if __name__ == "__main__":
    from common import run_main
    run_main(main, "C07")
