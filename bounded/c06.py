"""C06 bounded net: the whole serializer configuration lattice x small inputs through real bytes."""
from common import *  # noqa: F403

LOGICALS = [0, 1, 2, 3, 4, 13, 14, 114]

def main() -> None:
    a = parse_args()
    net = Net("C06", a)
    from pyjelly.integrations.generic.serialize import stream_frames, flat_stream_to_file, grouped_stream_to_file
    from pyjelly.integrations.generic.generic_sink import GenericStatementSink
    from pyjelly.serialize import flows as F
    rng = net.rng
    flow_makers = {"inferred": None, "Manual": lambda lt: F.ManualFrameFlow(logical_type=lt),
                   "Bounded": lambda lt: F.BoundedFrameFlow(logical_type=lt, frame_size=2),
                   "FlatTriples": lambda lt: F.FlatTriplesFrameFlow(frame_size=2), "FlatQuads": lambda lt: F.FlatQuadsFrameFlow(frame_size=2),
                   "Graphs": lambda lt: F.GraphsFrameFlow(logical_type=lt), "Datasets": lambda lt: F.DatasetsFrameFlow(logical_type=lt)}
    for phys in (1, 2, 3):
        for lt in LOGICALS:
            for delimited in (True, False):
                for fname, fm in flow_makers.items():
                    for fs in ((1, 3, 250) if not net.quick else (2, 250)):
                        n = rng.randrange(1, 6)
                        stmts = gen_statements(rng, 1 if phys == 1 else 2, n, quoted_ok=False)
                        inp = {"physical": phys, "logical": lt, "delimited": delimited, "flow": fname, "frame_size": fs, "statements": stmts}
                        def build():
                            flow = fm(lt) if fm else None
                            opts = make_options(phys, (16, 8, 8), logical=lt, frame_size=fs, delimited=delimited, flow=flow)
                            return opts, make_stream(phys, opts)
                        kind, r = guarded(build)
                        net.case(inp, nontrivial=(kind == "ok"))
                        if kind == "raise":
                            continue   # the combination is refused: allowed
                        opts, stream = r
                        kind, data = guarded(lambda: write_frames(stream_frames(stream, (stmt_to_generic(s) for s in stmts)), delimited))
                        if kind == "raise":
                            continue   # raising at write time is also "refused", not silent loss
                        left = len(stream.flow)
                        want = [("triple" if phys == 1 else "quad", *s) for s in stmts]
                        kind, got = guarded(lambda: parse_generic_flat(data))
                        if left or kind == "raise" or got != want:
                            net.fail("silent-drop", f"accepted configuration lost statements: {left} rows left in the flow, {len(data)} bytes written",
                                     inp, got if kind == "ok" else f"parse failed: {got}", want)
    # entry points with guessed streams
    for it in range(40 if net.quick else 400):
        phys = rng.choice([1, 2])
        stmts = gen_statements(rng, phys, rng.randrange(1, 5), quoted_ok=False)
        lt = rng.choice(LOGICALS)
        delimited = rng.random() < 0.5
        entry = rng.choice(["flat_to_file", "grouped_to_file"])
        inp = {"entry": entry, "physical(sink)": phys, "logical": lt, "delimited": delimited, "statements": stmts}
        def run():
            opts = make_options(phys, (16, 8, 8), logical=lt, frame_size=2, delimited=delimited)
            out = io.BytesIO()
            if entry == "flat_to_file":
                flat_stream_to_file((stmt_to_generic(s) for s in stmts), out, opts)
            else:
                sink = GenericStatementSink()
                for s in stmts:
                    sink.add(stmt_to_generic(s))
                grouped_stream_to_file((x for x in [sink]), out, options=opts)
            return out.getvalue()
        kind, data = guarded(run)
        net.case(inp, nontrivial=(kind == "ok"))
        if kind == "raise":
            continue
        # these entry points always write delimited frames; a TripleStream chosen for a quad sink keeps s,p,o (documented)
        kind, got = guarded(lambda: parse_generic_flat(data))
        want3 = [("triple", *s[:3]) for s in stmts]
        want = [("triple" if phys == 1 else "quad", *s) for s in stmts]
        if kind == "raise" or (got != want and got != want3):
            net.fail("silent-drop-entry", f"entry point {entry} accepted the options but the bytes ({len(data)}) do not parse back to the input",
                     inp, got, want)
    net.finish("bounded", "3 stream classes x 8 logical types x delimited x {inferred + 6 flow classes} x frame sizes x 1..5 statements; flat_/grouped_stream_to_file with guessed streams",
               "each case = one lattice point with a random statement list; non-trivial = the configuration was accepted (constructed without raising)")
main()
