"""C06 bounded net: the whole serializer configuration lattice x small inputs through real bytes."""
from common import *  # noqa: F403

LOGICALS = [0, 1, 2, 3, 4, 13, 14, 114]

def main() -> None:
    a = parse_args()
    net = Net("C06", a)
    from pyjelly.integrations.generic.serialize import stream_frames, flat_stream_to_file, grouped_stream_to_file
    from pyjelly.integrations.generic.generic_sink import GenericStatementSink
    from pyjelly.serialize import flows as F
    rng = net.rng
    flow_makers = {"inferred": None, "Manual": lambda lt: F.ManualFrameFlow(logical_type=lt),
                   "Bounded": lambda lt: F.BoundedFrameFlow(logical_type=lt, frame_size=2),
                   "FlatTriples": lambda lt: F.FlatTriplesFrameFlow(frame_size=2), "FlatQuads": lambda lt: F.FlatQuadsFrameFlow(frame_size=2),
                   "Graphs": lambda lt: F.GraphsFrameFlow(logical_type=lt), "Datasets": lambda lt: F.DatasetsFrameFlow(logical_type=lt)}
    for phys in (1, 2, 3):
        for lt in LOGICALS:
            for delimited in (True, False):
                for fname, fm in flow_makers.items():
                    for fs in ((1, 3, 250) if not net.quick else (2, 250)):
                        n = rng.randrange(1, 6)
                        stmts = gen_statements(rng, 1 if phys == 1 else 2, n, quoted_ok=False)
                        inp = {"physical": phys, "logical": lt, "delimited": delimited, "flow": fname, "frame_size": fs, "statements": stmts}
                        def build():
                            flow = fm(lt) if fm else None
                            opts = make_options(phys, (16, 8, 8), logical=lt, frame_size=fs, delimited=delimited, flow=flow)
                            return opts, make_stream(phys, opts)
                        kind, r = guarded(build)
                        net.case(inp, nontrivial=(kind == "ok"))
                        if kind == "raise":
                            continue   # the combination is refused: allowed
                        opts, stream = r
                        kind, data = guarded(lambda: write_frames(stream_frames(stream, (stmt_to_generic(s) for s in stmts)), delimited))
                        if kind == "raise":
                            continue   # raising at write time is also "refused", not silent loss
                        left = len(stream.flow)
                        want = [("triple" if phys == 1 else "quad", *s) for s in stmts]
                        kind, got = guarded(lambda: parse_generic_flat(data))
                        if left or kind == "raise" or got != want:
                            net.fail("silent-drop", f"accepted configuration lost statements: {left} rows left in the flow, {len(data)} bytes written",
                                     inp, got if kind == "ok" else f"parse failed: {got}", want)
    # entry points with guessed streams
    for it in range(40 if net.quick else 400):
        phys = rng.choice([1, 2])
        stmts = gen_statements(rng, phys, rng.randrange(1, 5), quoted_ok=False)
        lt = rng.choice(LOGICALS)
        delimited = rng.random() < 0.5
        entry = rng.choice(["flat_to_file", "grouped_to_file"])
        inp = {"entry": entry, "physical(sink)": phys, "logical": lt, "delimited": delimited, "statements": stmts}
        def run():
            opts = make_options(phys, (16, 8, 8), logical=lt, frame_size=2, delimited=delimited)
            out = io.BytesIO()
            if entry == "flat_to_file":
                flat_stream_to_file((stmt_to_generic(s) for s in stmts), out, opts)
            else:
                sink = GenericStatementSink()
                for s in stmts:
                    sink.add(stmt_to_generic(s))
                grouped_stream_to_file((x for x in [sink]), out, options=opts)
            return out.getvalue()
        kind, data = guarded(run)
        net.case(inp, nontrivial=(kind == "ok"))
        if kind == "raise":
            continue
        # these entry points always write delimited frames; a TripleStream chosen for a quad sink keeps s,p,o (documented)
        kind, got = guarded(lambda: parse_generic_flat(data))
        want3 = [("triple", *s[:3]) for s in stmts]
        want = [("triple" if phys == 1 else "quad", *s) for s in stmts]
        if kind == "raise" or (got != want and got != want3):
            net.fail("silent-drop-entry", f"entry point {entry} accepted the options but the bytes ({len(data)}) do not parse back to the input",
                     inp, got, want)
    # rdflib plugin: explicit multi-frame flows with delimited and non-delimited output
    import rdflib
    from pyjelly.serialize.streams import SerializerOptions, TripleStream as TS
    from pyjelly.options import StreamParameters
    for it in range(30 if net.quick else 300):
        n = rng.randrange(1, 14)
        delimited = rng.random() < 0.5
        fname = rng.choice(["FlatTriples", "Bounded", "Manual"])
        g = rdflib.Graph()
        for i in range(n):
            g.add((rdflib.URIRef(f"http://ex.org/s{i}"), rdflib.URIRef("http://ex.org/p"), rdflib.Literal(str(i))))
        inp = {"entry": "rdflib Graph.serialize", "triples": n, "delimited": delimited, "flow": fname}
        def run():
            opts = SerializerOptions(flow=flow_makers[fname](1), logical_type=1, params=StreamParameters(delimited=delimited))
            data = g.serialize(format="jelly", options=opts, stream=TS.for_rdflib(options=opts), encoding="jelly")
            back = rdflib.Graph(); back.parse(data=data, format="jelly")
            return len(back)
        kind, got = guarded(run)
        net.case(inp, nontrivial=(kind == "ok"))
        if kind == "ok" and got != n:
            net.fail("silent-drop-rdflib", f"rdflib serialisation accepted the options but only {got} of {n} triples are in the file", inp, got, n)
    # a malformed item (too few terms) in the input must make the call fail, not end the output early
    for it in range(30 if net.quick else 300):
        stmts = gen_statements(rng, 2, rng.randrange(3, 7), quoted_ok=False)
        bad_at = rng.randrange(1, len(stmts))
        entry = rng.choice(["stream_frames", "flat_to_file"])
        inp = {"entry": entry, "short_item_at": bad_at, "statements": stmts}
        def run():
            def src():
                for i, s in enumerate(stmts):
                    yield stmt_to_generic(s[:3]) if i == bad_at else stmt_to_generic(s)
            opts = make_options(2, (16, 8, 8), logical=2, frame_size=2)
            if entry == "stream_frames":
                return write_frames(stream_frames(make_stream(2, opts), src()))
            out = io.BytesIO(); flat_stream_to_file(src(), out, opts); return out.getvalue()
        kind, data = guarded(run)
        net.case(inp, nontrivial=True)
        if kind == "ok":
            k2, got = guarded(lambda: parse_generic_flat(data))
            n_ok = len(got) if k2 == "ok" else -1
            if n_ok < len(stmts) - 1:
                net.fail("silent-truncation", f"a quad sequence containing a three-term item was written without error, but only {n_ok} of {len(stmts) - 1} well-formed statements are in the bytes", inp, got)
    net.finish("bounded", "3 stream classes x 8 logical types x delimited x {inferred + 6 flow classes} x frame sizes x 1..5 statements; flat_/grouped_stream_to_file with guessed streams",
               "each case = one lattice point with a random statement list; non-trivial = the configuration was accepted (constructed without raising)")
if __name__ == "__main__":
    from common import run_main
    run_main(main, "C06")
