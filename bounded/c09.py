"""C09 bounded net: the same bytes through every kind of source and every short-read schedule.
Known finding D5 = class `short-first-read`: first raw read of a non-seekable source returns fewer than 3 bytes."""
from common import *  # noqa: F403
import gzip, itertools, tempfile

class Dribble(io.RawIOBase):
    def __init__(self, data, schedule):
        self.data, self.pos, self.schedule, self.i = data, 0, schedule, 0
    def readable(self): return True
    def seekable(self): return False
    def readinto(self, b):
        if self.pos >= len(self.data):
            return 0
        k = self.schedule[self.i % len(self.schedule)]; self.i += 1
        n = min(len(b), k, len(self.data) - self.pos)
        b[:n] = self.data[self.pos:self.pos + n]
        self.pos += n
        return n

def main() -> None:
    a = parse_args()
    net = Net("C09", a)
    from pyjelly.integrations.generic.parse import parse_jelly_flat, parse_jelly_grouped
    rng = net.rng
    for it in range(25 if net.quick else 300):
        if not net.time_left():
            break
        phys = rng.choice([1, 2, 3])
        stmts = gen_statements(rng, 1 if phys == 1 else 2, rng.randrange(1, 5), quoted_ok=False)
        delimited = rng.random() < 0.7 or phys == 3
        sizes = rng.choice([(8, 0, 8), (16, 0, 8), (128, 0, 0), (8, 4, 4)])
        opts = make_options(phys, sizes, logical={1: 1, 2: 2, 3: 2}[phys], frame_size=rng.choice([1, 2, 250]), delimited=delimited,
                            name=rng.choice(["", "x", "nn"]))
        kind, data = guarded(lambda: serialize_generic(stmts, phys, opts))
        if kind == "raise" or not data:
            continue
        want = parse_generic_flat(data)
        # buffered seekable sources
        srcs = {"BytesIO": lambda: io.BytesIO(data), "BufferedReader(BytesIO)": lambda: io.BufferedReader(io.BytesIO(data))}
        gz = gzip.compress(data)
        srcs["gzip"] = lambda: gzip.GzipFile(fileobj=io.BytesIO(gz))
        # a two-member gzip: first member holds only the first byte (peek does not cross members)
        gz2 = gzip.compress(data[:1]) + gzip.compress(data[1:])
        srcs["gzip-two-members"] = lambda: gzip.GzipFile(fileobj=io.BytesIO(gz2))
        def pre_read():
            b = io.BufferedReader(io.BytesIO(b"xx" + data), buffer_size=2 + 2)   # stream starts 2 bytes before the buffer end
            b.read(2)
            return b
        srcs["BufferedReader-after-preamble"] = pre_read
        for name, mk in srcs.items():
            net.case((name, data))
            kind, got = guarded(lambda: [event_from_generic(x) for x in parse_jelly_flat(mk())])
            if kind == "raise" or got != want:
                net.fail("seekable-source", f"source {name}: result differs from the in-memory parse", {"bytes_hex": data.hex(), "source": name}, got, want)
        # non-seekable raw sources with short-read schedules
        scheds = [(1,), (2,), (3,), (4,), (1, 5), (2, 1), (3, 1), (5, 1, 2), (7,), (64,), (len(data),)]
        for sched in scheds:
            net.case((sched, data))
            for entry, fn in (("flat", parse_jelly_flat), ("grouped", parse_jelly_grouped)):
                def run():
                    if entry == "flat":
                        return [event_from_generic(x) for x in fn(Dribble(data, sched))]
                    return [event_from_generic(x) for sink in fn(Dribble(data, sched)) for x in sink]
                kind, got = guarded(run)
                if kind == "raise" or got != want:
                    cls = "short-first-read" if (sched[0] < 3 and len(data) >= 3) else "read-schedule"
                    net.fail(cls, f"non-seekable source, read schedule {sched}, {entry} parser: result differs from the in-memory parse", {"bytes_hex": data.hex(), "schedule": sched, "delimited": delimited}, got, want)
    # options rows of every small length (sweeping through 10 = 0x0A) in both framings, read from a non-seekable source
    st1 = [(("iri", "http://ex.org/a"), ("iri", "http://ex.org/b"), ("bnode", "b"))]
    for n in range(0, 16):
        for delimited in (True, False):
            for sizes in ((8, 0, 0), (16, 0, 8)):
                data = serialize_generic(st1, 1, make_options(1, sizes, logical=rng.choice([None, 1]) if delimited else 1, delimited=delimited, name="n" * n, gen=False, star=False))
                want = parse_generic_flat(data)
                for sched in ((3,), (4,), (64,), (3, 1)):
                    net.case(("optlen", n, delimited, sizes, sched))
                    kind, got = guarded(lambda: [event_from_generic(x) for x in parse_jelly_flat(Dribble(data, sched))])
                    if kind == "raise" or got != want:
                        net.fail("read-schedule", f"non-seekable source, read schedule {sched}: result differs from the in-memory parse (options row sweep, name length {n})", {"bytes_hex": data.hex(), "schedule": sched, "delimited": delimited}, got, want)
    net.finish("bounded", "valid streams (both framings, option rows of length 10 and others) x {BytesIO, BufferedReader, gzip, two-member gzip, BufferedReader mid-buffer} x 11 short-read schedules on a non-seekable raw source x flat/grouped parsers",
               "each case = (source kind or schedule, byte string)")
if __name__ == "__main__":
    from common import run_main
    run_main(main, "C09")
