"""C11 bounded net: instrumented input (pull counter) vs frames yielded; stalled byte source on parse."""
from common import *  # noqa: F403

class Stall(Exception):
    pass

class StallingReader(io.RawIOBase):
    """delivers data[:limit]; asking for a byte beyond `limit` raises Stall (the peer is not sending more)"""
    def __init__(self, data: bytes, limit: int) -> None:
        self.data, self.pos, self.limit = data, 0, limit
    def readable(self): return True
    def seekable(self): return False
    def readinto(self, b):
        if self.pos >= self.limit:
            if self.limit >= len(self.data):
                return 0
            raise Stall()
        n = min(len(b), self.limit - self.pos)
        b[:n] = self.data[self.pos:self.pos + n]
        self.pos += n
        return n

def main() -> None:
    a = parse_args()
    net = Net("C11", a)
    from pyjelly.integrations.generic.serialize import flat_stream_to_frames, stream_frames
    from pyjelly.integrations.generic.parse import parse_jelly_flat
    rng = net.rng
    for it in range(120 if net.quick else 1500):
        if not net.time_left():
            break
        phys = rng.choice([1, 2])
        stmts = gen_statements(rng, phys, rng.randrange(3, 12), quoted_ok=False)
        fs = rng.choice([1, 2, 3, 5])
        logical = rng.choice([None, phys])      # None: logical type left to be inferred
        via = rng.choice(["flat_stream_to_frames", "stream_frames"])
        inp = {"physical": phys, "frame_size": fs, "logical": logical, "via": via, "statements": stmts}
        net.case(inp)
        pulled = [0]
        pending_at_pull = []
        holder = {}
        def source():
            for s in stmts:
                pulled[0] += 1
                if holder.get("stream") is not None and pulled[0] >= 2:
                    pending_at_pull.append(len(holder["stream"].flow))
                yield stmt_to_generic(s)
        opts = make_options(phys, (32, 16, 16), logical=logical, frame_size=fs)
        if via == "stream_frames":
            stream = make_stream(phys, opts)
            holder["stream"] = stream
            frames_it = stream_frames(stream, source())
        else:
            stream = None
            frames_it = flat_stream_to_frames(source(), opts)
        log = []   # (pulled count when frame arrived, rows in frame)
        bad = None
        try:
            for fr in frames_it:
                log.append((pulled[0], len(fr.rows)))
        except Exception as e:  # noqa: BLE001
            bad = f"{type(e).__name__}: {e}"
        if bad:
            continue
        if any(n >= fs for n in pending_at_pull):
            net.fail("pending-rows-at-pull", f"the serializer asked for more input with {max(pending_at_pull)} rows pending although frame_size is {fs}", inp, pending_at_pull)
        # every frame except the last must have been produced by reaching the bound right after the statement pulled last
        total_rows = sum(r for _, r in log)
        rows_before = 0
        for j, (p, r) in enumerate(log[:-1] if log else []):
            if r < fs:
                net.fail("short-frame", "a frame before the end of input has fewer rows than frame_size", inp, log)
                break
        # bounded buffering: no frame may hold more than (frame_size - 1) + rows of one statement
        max_stmt_rows = 1 + 2 * 4 + 4    # statement row + (prefix+name) per IRI x4 + datatype entries
        worst = max((r for _, r in log), default=0)
        if worst > fs - 1 + max_stmt_rows + 1:   # +1: options row in the first frame
            net.fail("unbounded-buffer", f"a frame of {worst} rows was produced with frame_size={fs}: rows were buffered beyond the bound", inp, log)
        # input consumed no further than the statement that completed the frame: frame j arrives when pulled == index of completing statement
        if log and log[0][0] > fs + 1 and len(stmts) > fs + 1 and log[0][1] >= fs:
            net.fail("read-ahead", "first frame was handed over only after more input than needed had been consumed", inp, log)
    # parse side: all statements of frames 1..j must be yielded with only those bytes delivered
    for it in range(60 if net.quick else 600):
        if not net.time_left():
            break
        phys = rng.choice([1, 2, 3])
        stmts = gen_statements(rng, 1 if phys == 1 else 2, rng.randrange(3, 9), quoted_ok=False)
        if phys == 3:      # long runs of one graph, so that frame cuts fall inside a graph
            g = stmts[0][3]
            stmts = [s[:3] + (g,) for s in stmts]
        data = serialize_generic(stmts, phys, make_options(phys, (32, 16, 16), logical={1: 1, 2: 2, 3: 2}[phys], frame_size=rng.choice([1, 2, 4])))
        frames = wire.split_delimited(data)
        want_all = [("triple" if phys == 1 else "quad", *s) for s in stmts]  # noqa: F841
        offs = []
        pos = 0
        for f in frames:
            pos += len(wire.write_varint(len(f))) + len(f)
            offs.append(pos)
        for j, cut in enumerate(offs[:-1]):
            net.case(("stall", data[:cut]))
            d = RefDecoder()
            for f in frames[: j + 1]:
                d.feed_frame(wire.decode("RdfStreamFrame", f))
            want = d.events
            got = []
            try:
                for x in parse_jelly_flat(StallingReader(data, cut)):   # raw non-seekable source (pyjelly adds the buffering itself)
                    got.append(event_from_generic(x))
                ended = "eof"
            except Stall:
                ended = "stall"
            except Exception as e:  # noqa: BLE001
                ended = f"{type(e).__name__}: {e}"
            if got[: len(want)] != want or len(got) < len(want):
                net.fail("parse-read-ahead", f"with frames 1..{j+1} delivered, the parser yielded {len(got)} of {len(want)} statements before asking for more bytes ({ended})",
                         {"bytes_hex": data.hex(), "delivered": cut}, got, want)
    net.finish("bounded", "flat serialisation of 3..11 statements, frame sizes {1,2,3,5}, logical type given or inferred, both entry points; parse with a source stalling after each frame boundary",
               "write cases = (config, statement list) with pull counter; parse cases = (stream, stall offset)")
if __name__ == "__main__":
    from common import run_main
    run_main(main, "C11")
