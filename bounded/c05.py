"""C05 bounded net: joint writer/reader state-space closure by real execution, small sizes, every next key,
against the reference table; doubles as conformance test of the OrderedDict/deque models' observable behaviour."""
from common import *  # noqa: F403
import itertools

def main() -> None:
    a = parse_args()
    net = Net("C05", a)
    from pyjelly.serialize.lookup import LookupEncoder
    from pyjelly.parse.lookup import LookupDecoder
    from spec.jelly_spec import Table
    max_size = 3 if net.quick else 4
    for rule in ("name", "prefix", "datatype"):
        for size in range(1, max_size + 1):
            alphabet = [f"k{i}" for i in range(size + 2)]
            if rule == "prefix":
                alphabet[0] = ""
            depth = (size + 3) if net.quick else (size + 4)
            for hist in itertools.product(alphabet, repeat=depth):
                if not net.time_left():
                    break
                E, D, T = LookupEncoder(lookup_size=size), LookupDecoder(lookup_size=size), Table(size)
                net.case((rule, size, hist), nontrivial=len(set(hist)) > 1)
                try:
                    for k in hist:
                        r = E.encode_entry_index(k)
                        if r is not None:
                            if not 0 <= r <= size:
                                raise AssertionError(f"entry id {r} outside [0,{size}]")
                            D.assign_entry(r, k); T.assign(r, k)
                        if rule == "name":
                            i = E.encode_name_term_index(k); got = D.decode_name_term_index(i); want = T.name_ref(i)
                        elif rule == "prefix":
                            i = E.encode_prefix_term_index(k); got = D.decode_prefix_term_index(i); want = T.prefix_ref(i)
                        else:
                            i = E.encode_datatype_term_index(k); got = D.decode_datatype_term_index(i); want = T.datatype_ref(i)
                        if not 0 <= i <= size:
                            raise AssertionError(f"term id {i} outside [0,{size}]")
                        if len(E.lookup.data) > size:
                            raise AssertionError("more live entries than the table size")
                        if got != k or want != k:
                            raise AssertionError(f"key {k!r}: id {i} resolves to {got!r} on pyjelly's reader and {want!r} for the spec table")
                except Exception as e:  # noqa: BLE001
                    net.fail(f"mirror-{rule}", f"{type(e).__name__}: {e}", {"rule": rule, "size": size, "history": list(hist)})
                    break
    net.finish("bounded", f"all histories of length size+3 (quick) / size+4 over table sizes 1..{max_size} and alphabets of size+2 (empty prefix included), for the name, prefix and datatype rules",
               "each case = (rule, size, history); non-trivial = at least two distinct keys; enumeration is exhaustive up to the time budget")
if __name__ == "__main__":
    from common import run_main
    run_main(main, "C05")
